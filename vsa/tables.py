"""Resolved grammar tables (DESIGN 1.3 / 2.9).

pvl/grammar.py is a declarative data module.  Its tables are built by class
bodies with loops and f-strings, so they are resolved by loading *that one
file in isolation* (private module name, no package import) and instantiating
the grammar classes -- the equivalent of constant folding.  char_allowed, the
only behaviour in the file, is never called here (it is analysed from its AST
by vsa.interval).
"""
import importlib.util
import os
import sys

from .core import AnalysisError

_CACHE = {}

GRAMMAR_CLASSES = ("PVLGrammar", "ODLGrammar", "PDSGrammar", "ISISGrammar", "OmniGrammar")


def load_grammar_module(repo):
    path = repo.module("grammar").path
    key = (path, repo.module("grammar").digest)
    if key in _CACHE:
        return _CACHE[key]
    name = "_vsa_isolated_grammar_%s" % repo.module("grammar").digest
    try:
        spec = importlib.util.spec_from_file_location(name, path)
        mod = importlib.util.module_from_spec(spec)
        spec.loader.exec_module(mod)
    except Exception as e:   # the data module stopped being loadable in isolation
        raise AnalysisError(f"pvl/grammar.py cannot be loaded in isolation to resolve its tables: {e!r}")
    _CACHE[key] = mod
    return mod


def grammar_classes(repo):
    """Names of all classes of grammar.py that derive from PVLGrammar."""
    return [c for c in repo.subclasses("PVLGrammar") if repo.classes[c].module.name == "grammar"]


def grammar_instance(repo, cname):
    mod = load_grammar_module(repo)
    cls = getattr(mod, cname, None)
    if cls is None:
        raise AnalysisError(f"anchor vanished: grammar class {cname}")
    try:
        return cls()
    except Exception as e:
        raise AnalysisError(f"grammar class {cname} cannot be instantiated in isolation: {e!r}")


def tb1(repo, cname):
    """Derived tables agree with their sources after inheritance.
    -> list of (table, missing, extra)"""
    g = grammar_instance(repo, cname)
    problems = []
    agg = dict(g.group_keywords)
    agg.update(g.object_keywords)
    have = dict(g.aggregation_keywords)
    if have != agg:
        problems.append(("aggregation_keywords",
                         sorted(set(agg.items()) - set(have.items())),
                         sorted(set(have.items()) - set(agg.items()))))
    rk = set(g.end_statements)
    for p in agg.items():
        rk |= set(p)
    # reserved_keywords must contain every keyword the parser acts on; extra reserved words are harmless
    # (they are refused as parameter names and quoted by the encoders)
    if rk - set(g.reserved_keywords):
        problems.append(("reserved_keywords", sorted(rk - set(g.reserved_keywords)), []))
    return problems


TB3_TRIAGE_KEY = "T3|lex_multichar_comments|NotImplementedError from raise NotImplementedError*"


def lexer_allowed_pairs(repo):
    """The multi-character comment pairs lex_multichar_comments implements: the literal table T of the
    `<pair> not in T` test that guards its `raise NotImplementedError` (a local or a module constant)."""
    import ast
    fn = repo.full_function("lexer", "lex_multichar_comments")
    parents = {}
    for n in ast.walk(fn):
        for c in ast.iter_child_nodes(n):
            parents[c] = n
    tables_ = []
    for r in ast.walk(fn):
        if isinstance(r, ast.Raise) and r.exc is not None and "NotImplementedError" in ast.unparse(r.exc):
            p = parents.get(r)
            while p is not None and not isinstance(p, ast.If):
                p = parents.get(p)
            if p is None:
                continue
            for c in ast.walk(p.test):
                if isinstance(c, ast.Compare) and len(c.ops) == 1 and isinstance(c.ops[0], ast.NotIn):
                    tables_.append(c.comparators[0])
    if not tables_:
        raise AnalysisError("anchor vanished: lex_multichar_comments.allowed_pairs")
    t = tables_[0]
    if isinstance(t, ast.Name):
        val = None
        for n in ast.walk(fn):
            if isinstance(n, ast.Assign) and isinstance(n.targets[0], ast.Name) and n.targets[0].id == t.id:
                val = n.value
        if val is None:
            val = repo.module_constant("lexer", t.id)
        if val is None:
            raise AnalysisError("anchor vanished: lex_multichar_comments.allowed_pairs")
        t = val
    try:
        return tuple(ast.literal_eval(t))
    except ValueError:
        raise AnalysisError("lex_multichar_comments.allowed_pairs is not a literal")


def tb3(repo):
    """Every comment pair of every grammar is one the lexer implements: a
    multi-character pair must be in allowed_pairs; a single-character opener
    needs a single-character closer (lex_preserve compares one char).
    -> list of (grammar class, pair, reason)"""
    allowed = lexer_allowed_pairs(repo)
    problems = []
    for c in grammar_classes(repo):
        g = grammar_instance(repo, c)
        for pair in g.comments:
            pair = tuple(pair)
            if len(pair) != 2:
                problems.append((c, pair, "not a pair"))
            elif len(pair[0]) == 1:
                if len(pair[1]) != 1:
                    problems.append((c, pair, "single-character opener with a multi-character closer: lex_preserve "
                                              "compares the closer with one character and never leaves the comment"))
            elif pair not in allowed:
                problems.append((c, pair, "multi-character pair not implemented by lex_multichar_comments"))
    return problems
