"""Armed-rule self-check (DESIGN 2.12): seeded faults applied by text edit to a scratch copy of the *current* tree;
the named rule must report, the unedited copy must stay silent.  Results are evidence, never a VIOLATION.

  python -m vsa.selftest [--jobs N] [--prop Cxx] [--list]
"""
import json
import os
import shutil
import subprocess
import sys
import tempfile
from concurrent.futures import ThreadPoolExecutor

from .core import VERIF, repo_root
from .selftest_ops import OPERATORS


def _copy_tree(dst):
    src = os.path.join(repo_root(), "pvl")
    shutil.copytree(src, os.path.join(dst, "pvl"), ignore=shutil.ignore_patterns("__pycache__"))


def run_operator(op):
    tmp = tempfile.mkdtemp(prefix="vsa-selftest-")
    try:
        _copy_tree(tmp)
        path = os.path.join(tmp, "pvl", op["file"])
        src = open(path, encoding="utf-8").read()
        edits = op["edits"]
        for old, new in edits:
            if src.count(old) != 1:
                return dict(op=op["id"], status="skipped", reason=f"anchor text occurs {src.count(old)} times")
            src = src.replace(old, new)
        try:
            compile(src, path, "exec")
        except SyntaxError as e:
            return dict(op=op["id"], status="skipped", reason=f"edit does not compile: {e}")
        open(path, "w", encoding="utf-8").write(src)
        env = dict(os.environ, VSA_REPO=tmp, VSA_EVIDENCE_DIR=os.path.join(tmp, "ev"))
        r = subprocess.run([sys.executable, "-m", "vsa.main", op["property"], "quick"], cwd=VERIF, env=env,
                           capture_output=True, text=True, timeout=600)
        lines = [l for l in r.stdout.splitlines() if l.startswith("FINDING")]
        hit = [l for l in lines if f"rule={op['rule']} " in l and all(x in l for x in op.get("expect", []))]
        if r.returncode == 1 and hit:
            return dict(op=op["id"], status="fired", finding=hit[0][:200])
        return dict(op=op["id"], status="missed", exit=r.returncode, findings=[l[:160] for l in lines][:5],
                    tail=r.stdout[-300:] if r.returncode == 2 else "")
    finally:
        shutil.rmtree(tmp, ignore_errors=True)


def run_clean(prop):
    tmp = tempfile.mkdtemp(prefix="vsa-selftest-")
    try:
        _copy_tree(tmp)
        env = dict(os.environ, VSA_REPO=tmp, VSA_EVIDENCE_DIR=os.path.join(tmp, "ev"))
        r = subprocess.run([sys.executable, "-m", "vsa.main", prop, "quick"], cwd=VERIF, env=env,
                           capture_output=True, text=True, timeout=600)
        return r.returncode
    finally:
        shutil.rmtree(tmp, ignore_errors=True)


def seeds(prop=None):
    """Seeded changes kept under /verif/seeded (written by independent sub-agents): (name, property, patch path)."""
    d = os.path.join(VERIF, "seeded")
    out = []
    if os.path.isdir(d):
        for name in sorted(os.listdir(d)):
            meta = os.path.join(d, name, "meta.json")
            patch = os.path.join(d, name, "patch.diff")
            if os.path.exists(meta) and os.path.exists(patch):
                m = json.load(open(meta))
                targets = sorted(m.get("detected_by", {}) or [m["property"]])
                if prop is None or prop in targets:
                    out.append((name, m["property"], patch, targets))
    return out


def run_seed(args):
    name, sprop, patch, prop = args
    tmp = tempfile.mkdtemp(prefix="vsa-selftest-")
    try:
        _copy_tree(tmp)
        r = subprocess.run(["git", "apply", "--whitespace=nowarn", patch], cwd=tmp, capture_output=True, text=True)
        if r.returncode != 0:
            return dict(op=f"seed:{name}", status="skipped", reason="patch does not apply to the current tree")
        env = dict(os.environ, VSA_REPO=tmp, VSA_EVIDENCE_DIR=os.path.join(tmp, "ev"))
        r = subprocess.run([sys.executable, "-m", "vsa.main", prop, "quick"], cwd=VERIF, env=env,
                           capture_output=True, text=True, timeout=600)
        lines = [l for l in r.stdout.splitlines() if l.startswith("FINDING")]
        if r.returncode == 1 and lines:
            return dict(op=f"seed:{name}", status="fired", finding=lines[0][:200])
        return dict(op=f"seed:{name}", status="missed", exit=r.returncode, findings=[], tail=r.stdout[-300:])
    finally:
        shutil.rmtree(tmp, ignore_errors=True)


def run_all(prop=None, jobs=None):
    ops = [o for o in OPERATORS if prop is None or o["property"] == prop]
    jobs = jobs or min(16, os.cpu_count() or 4)
    sd = []
    for (name, sprop, patch, targets) in seeds(prop):
        for t in targets:
            if prop is None or t == prop:
                sd.append((name, sprop, patch, t))
    with ThreadPoolExecutor(max_workers=jobs) as ex:
        results = list(ex.map(run_operator, ops)) + list(ex.map(run_seed, sd))
    return results


def main(argv):
    prop = None
    jobs = None
    for i, a in enumerate(argv):
        if a == "--prop":
            prop = argv[i + 1]
        if a == "--jobs":
            jobs = int(argv[i + 1])
        if a == "--list":
            for o in OPERATORS:
                print(o["id"], o["property"], o["rule"], o["file"])
            return 0
    res = run_all(prop, jobs)
    bad = 0
    for r in res:
        print(json.dumps(r))
        if r["status"] == "missed":
            bad += 1
    print(f"{len(res)} operators: {sum(1 for r in res if r['status'] == 'fired')} fired, "
          f"{sum(1 for r in res if r['status'] == 'skipped')} skipped, {bad} missed")
    return 1 if bad else 0


if __name__ == "__main__":
    sys.exit(main(sys.argv[1:]))
