"""Rules on the ordered multi-dict (C10, C11, C13): M1 provider table,
M2 paired writes, M3 views, P1 reduction protocol, P2 no alias."""
import ast
import inspect
import textwrap

from .core import Finding, AnalysisError, norm

CONTAINER = "OrderedMultiDict"
MUTATORS = ("append", "extend", "insert", "insert_before", "insert_after", "__setitem__", "__delitem__", "pop",
            "popall", "popitem", "setdefault", "update", "discard", "clear")
ACCESSORS = ("__iter__", "__len__", "__getitem__", "keys", "values", "items", "__contains__", "get", "getall",
             "key_index", "__eq__", "__ne__", "copy")
LIST_MUT = {"append", "extend", "insert", "pop", "remove", "clear", "sort", "reverse"}


def item_attr(repo):
    """Name of the private attribute that holds the item list: the attribute
    assigned a list display in __init__."""
    init = repo.method(CONTAINER, "__init__")
    for n in ast.walk(init):
        if isinstance(n, ast.Assign) and isinstance(n.targets[0], ast.Attribute) and isinstance(n.value, ast.List):
            return n.targets[0].attr
    raise AnalysisError("cannot find the item-list attribute of OrderedMultiDict.__init__")


def dict_aliases(repo):
    """Module-level aliases of dict methods: name -> dict method name."""
    mod = repo.module("collections")
    out = {}
    for name, val in mod.assigns.items():
        if isinstance(val, ast.Attribute) and isinstance(val.value, ast.Name) and val.value.id == "dict":
            out[name] = val.attr
    return out


DICT_WRITERS = {"__setitem__", "__delitem__", "clear", "pop", "popitem", "update", "setdefault", "__ior__"}


def mixin_primitives(expr_src):
    """Primitives used by a borrowed abc mix-in (read from the library source
    of the running interpreter; library model, not /repo code)."""
    import os
    parts = expr_src.split(".")
    path = os.path.join(os.path.dirname(os.__file__), "_collections_abc.py")
    try:
        with open(path) as fh:
            tree = ast.parse(fh.read())
    except OSError:
        return None
    classes = {c.name: c for c in tree.body if isinstance(c, ast.ClassDef)}

    def find(cname, depth=0):
        c = classes.get(cname)
        if c is None or depth > 6:
            return None
        for m in c.body:
            if isinstance(m, ast.FunctionDef) and m.name == parts[-1]:
                return m
        for b in c.bases:
            r = find(norm(b).split(".")[-1], depth + 1)
            if r is not None:
                return r
        return None
    f = find(parts[-2])
    if f is None:
        return None
    selfname = (f.args.posonlyargs + f.args.args)[0].arg
    prims = set()
    for n in ast.walk(f):
        if isinstance(n, ast.Subscript) and isinstance(n.value, ast.Name) and n.value.id == selfname:
            prims.add({ast.Load: "__getitem__", ast.Store: "__setitem__", ast.Del: "__delitem__"}[type(n.ctx)])
        if isinstance(n, ast.Compare) and any(isinstance(o, (ast.In, ast.NotIn)) for o in n.ops) and \
                any(isinstance(c, ast.Name) and c.id == selfname for c in n.comparators):
            prims.add("__contains__")
        if isinstance(n, ast.Call) and isinstance(n.func, ast.Attribute) and isinstance(n.func.value, ast.Name) \
                and n.func.value.id == selfname:
            prims.add(n.func.attr)
        if isinstance(n, ast.For) and isinstance(n.iter, ast.Name) and n.iter.id == selfname:
            prims.add("__iter__")
        if isinstance(n, ast.Call) and isinstance(n.func, ast.Name) and n.func.id in ("iter", "len") and n.args \
                and isinstance(n.args[0], ast.Name) and n.args[0].id == selfname:
            prims.add("__iter__" if n.func.id == "iter" else "__len__")
    return prims


def provider(repo, cname, name):
    """-> (kind, where, detail): kind in def / alias / dict / abc / none"""
    for c in repo.mro(cname):
        if c.startswith("ext:"):
            base = c[4:]
            if base == "dict":
                if name in dir(dict):
                    return ("dict", "dict", None)
                continue
            import _collections_abc as cabc
            k = getattr(cabc, base.split(".")[-1], None)
            if k is not None and hasattr(k, name):
                return ("abc", base, None)
            continue
        ci = repo.classes[c]
        if name in ci.methods:
            return ("def", c, ci.methods[name])
        if name in ci.aliases:
            return ("alias", c, ci.aliases[name])
    return ("none", None, None)


def rule_m1(repo, res):
    classes = repo.subclasses(CONTAINER)
    res.floor("OrderedMultiDict classes", len(classes), 5)
    for cname in classes:
        for name in MUTATORS + ACCESSORS:
            kind, where, detail = provider(repo, cname, name)
            ok, why = True, f"{kind}:{where}"
            if kind == "dict":
                if name == "__contains__":
                    why = "dict.__contains__ (accepted: key sets of both representations coincide under M2)"
                else:
                    ok = False
                    why = ("dict's C implementation: it reads/writes only the dict storage (key -> list of values), "
                           "never the item list")
            elif kind == "alias":
                src = norm(detail)
                if "MutableMapping." in src or "Mapping." in src or "MutableSequence." in src:
                    prims = mixin_primitives(src)
                    if prims is None:
                        ok, why = False, f"alias {src} cannot be resolved"
                    else:
                        badp = []
                        for p in sorted(prims):
                            k2, w2, _ = provider(repo, cname, p)
                            if k2 == "dict" and p != "__contains__":
                                badp.append(p)
                            if k2 == "none":
                                badp.append(p)
                        if badp:
                            ok, why = False, f"borrowed mix-in {src} relies on {badp}, provided by dict"
                        else:
                            why = f"borrowed mix-in {src} using overridden primitives {sorted(prims)}"
                else:
                    ok, why = False, f"alias to {src}"
            elif kind == "none":
                ok, why = False, "not provided"
            if cname == CONTAINER or not ok:
                res.oblige("M1", f"{cname}.{name} is provided by code that maintains both representations", ok=ok, detail=why)
            if not ok and cname == CONTAINER or (not ok and where not in (CONTAINER, "dict")):
                res.add(Finding("M1", f"{CONTAINER}", name,
                                f"{cname}.{name} resolves to {why}: after this operation the list view (iteration, len, "
                                "indexing, keys/values/items) and the mapping view (lookup, membership, getall) disagree"))


class PathEffects:
    """Per-method path effects: LIST / DICT / BOTH:<delegate> / RAISE."""

    def __init__(self, repo, items, daliases, methods):
        self.items, self.daliases, self.methods = items, daliases, methods
        self.dict_writers = {a for a, m in daliases.items() if m in DICT_WRITERS}
        self.dict_getters = {a for a, m in daliases.items() if m in ("__getitem__", "get")}

    def is_items(self, v):
        return isinstance(v, ast.Attribute) and v.attr == self.items and isinstance(v.value, ast.Name) and v.value.id == "self"

    def is_storage_list(self, v, aliases):
        if isinstance(v, ast.Call) and isinstance(v.func, ast.Name) and v.func.id in self.dict_getters:
            return True
        if isinstance(v, ast.Call) and isinstance(v.func, ast.Attribute) and norm(v.func) in ("dict.__getitem__", "dict.get",
                                                                                           "super().__getitem__"):
            return True
        return isinstance(v, ast.Name) and v.id in aliases

    def expr_effects(self, node, aliases):
        eff = set()
        for n in ast.walk(node):
            if isinstance(n, ast.Call):
                f = n.func
                if isinstance(f, ast.Name) and f.id in self.dict_writers:
                    eff.add("DICT")
                if isinstance(f, ast.Attribute) and isinstance(f.value, ast.Name) and f.value.id == "dict" and f.attr in DICT_WRITERS:
                    eff.add("DICT")
                if isinstance(f, ast.Attribute) and isinstance(f.value, ast.Call) and norm(f.value.func) == "super" \
                        and f.attr in DICT_WRITERS:
                    eff.add("DICT")
                if isinstance(f, ast.Attribute) and f.attr in LIST_MUT:
                    if self.is_items(f.value):
                        eff.add("LIST")
                    elif self.is_storage_list(f.value, aliases):
                        eff.add("DICT")
                if isinstance(f, ast.Attribute) and isinstance(f.value, ast.Name) and f.value.id == "self" and f.attr in self.methods \
                        and f.attr in MUTATORS:
                    eff.add("BOTH:" + f.attr)
        return eff

    def paths(self, stmts, aliases):
        paths = [(frozenset(), False)]
        for s in stmts:
            new = []
            for eff, done in paths:
                if done:
                    new.append((eff, done))
                    continue
                for e2, d2 in self.stmt(s, aliases):
                    new.append((eff | e2, d2))
            paths = list(set(new))
        return paths

    def stmt(self, s, aliases):
        if isinstance(s, (ast.Assign, ast.AugAssign)):
            tg = s.targets if isinstance(s, ast.Assign) else [s.target]
            eff = set(self.expr_effects(s.value, aliases))
            for x in tg:
                for y in ast.walk(x):
                    if self.is_items(y) and isinstance(y.ctx, ast.Store):
                        eff.add("LIST")
                    if isinstance(y, ast.Subscript) and isinstance(y.ctx, ast.Store):
                        if self.is_items(y.value):
                            eff.add("LIST")
                        elif isinstance(y.value, ast.Name) and y.value.id == "self":
                            eff.add("BOTH:__setitem__")
                        elif self.is_storage_list(y.value, aliases):
                            eff.add("DICT")
                if isinstance(x, ast.Name) and self.is_storage_list(s.value, set()):
                    aliases.add(x.id)
            return [(frozenset(eff), False)]
        if isinstance(s, ast.Delete):
            eff = set()
            for x in s.targets:
                if isinstance(x, ast.Subscript):
                    if isinstance(x.value, ast.Name) and x.value.id == "self":
                        eff.add("BOTH:__delitem__")
                    elif self.is_items(x.value):
                        eff.add("LIST")
                    elif self.is_storage_list(x.value, aliases):
                        eff.add("DICT")
            return [(frozenset(eff), False)]
        if isinstance(s, ast.Expr):
            return [(frozenset(self.expr_effects(s.value, aliases)), False)]
        if isinstance(s, ast.Return):
            return [(frozenset(self.expr_effects(s.value, aliases)) if s.value else frozenset(), True)]
        if isinstance(s, ast.Raise):
            return [(frozenset({"RAISE"}), True)]
        if isinstance(s, ast.If):
            c = frozenset(self.expr_effects(s.test, aliases))
            out = [(c | e, d) for e, d in self.paths(s.body, aliases)]
            out += [(c | e, d) for e, d in (self.paths(s.orelse, aliases) if s.orelse else [(frozenset(), False)])]
            return out
        if isinstance(s, (ast.For, ast.While)):
            head = frozenset(self.expr_effects(s.iter if isinstance(s, ast.For) else s.test, aliases))
            body = self.paths(s.body, aliases)
            out = [(head, False)]
            for e, d in body:
                out.append((head | e, d and "RAISE" in e))
            return out
        if isinstance(s, ast.Try):
            body = self.paths(s.body, aliases)
            out = list(body)
            for h in s.handlers:
                hp = self.paths(h.body, aliases)
                # the handler runs after a *prefix* of the body: effects of the body's first statement may or may not
                # have happened; the may-raise write must therefore come first (checked by ordering below)
                out += hp
                out += [(e1 | e2, d2) for e1, _ in body for e2, d2 in hp]
            return out
        if isinstance(s, ast.With):
            return self.paths(s.body, aliases)
        if isinstance(s, (ast.Break, ast.Continue, ast.Pass)):
            return [(frozenset(), False)]
        return [(frozenset(self.expr_effects(s, aliases)), False)]


def rule_m2(repo, res):
    items = item_attr(repo)
    dal = dict_aliases(repo)
    ci = repo.cls(CONTAINER)
    pe = PathEffects(repo, items, dal, set(ci.methods))
    n_paired = 0
    # each mutator is read with its private helpers in place (a helper that writes one representation is half of its
    # caller's paired write); a private helper is a unit of its own only where a call to it could not be read in place
    fulls = {name: repo.full(CONTAINER, name) for name in ci.methods}
    is_private = lambda nm: nm.startswith("_") and not nm.startswith("__")
    still_called = {n.func.attr for nm, f_ in fulls.items() if not is_private(nm) for n in ast.walk(f_)
                    if isinstance(n, ast.Call) and isinstance(n.func, ast.Attribute) and isinstance(n.func.value, ast.Name)
                    and n.func.value.id == "self" and is_private(n.func.attr)}
    for name, fn in fulls.items():
        if name == "__init__":
            continue
        if is_private(name) and name not in still_called:
            continue
        verdicts = {}
        for eff, done in pe.paths(fn.body, set()):
            if "RAISE" in eff:
                continue
            has_list, has_dict = "LIST" in eff, "DICT" in eff
            deleg = any(e.startswith("BOTH:") for e in eff)
            if has_list != has_dict and not deleg:
                verdicts[tuple(sorted(eff))] = False
            elif has_list or has_dict or deleg:
                verdicts[tuple(sorted(eff))] = True
        for eff, ok in sorted(verdicts.items()):
            n_paired += 1
            res.oblige("M2", f"{CONTAINER}.{name}: path with effects {list(eff)} writes both representations", ok=ok)
            if not ok:
                only = "item list" if "LIST" in eff else "dict storage"
                res.add(Finding("M2", f"{CONTAINER}.{name}", f"unpaired write ({'LIST' if 'LIST' in eff else 'DICT'})",
                                f"{CONTAINER}.{name} has a normal path that writes only the {only} "
                                f"(effects {list(eff)}): after it the sequence view and the mapping view differ",
                                where=f"pvl/collections.py:{fn.lineno}"))
    res.floor("paired mutator paths in OrderedMultiDict", n_paired, 10)
    # representation typing: what is stored in the dict storage is a list of values
    for name, fn in ci.methods.items():
        for n in ast.walk(fn):
            if isinstance(n, ast.Call) and isinstance(n.func, ast.Name) and dal.get(n.func.id) == "__setitem__" and len(n.args) == 3:
                v = n.args[2]
                is_list = lambda x: isinstance(x, (ast.List, ast.ListComp)) or (isinstance(x, ast.Call) and norm(x.func) == "list") \
                    or (isinstance(x, ast.IfExp) and is_list(x.body) and is_list(x.orelse))
                ok = is_list(v)
                if isinstance(v, ast.Name):
                    defs = [a.value for a in ast.walk(fn) if isinstance(a, ast.Assign) and isinstance(a.targets[0], ast.Name)
                            and a.targets[0].id == v.id]
                    ok = bool(defs) and all(is_list(d) for d in defs)
                res.oblige("M2-REP", f"{CONTAINER}.{name} `{norm(n, 70)}` stores a list of values", ok=ok)
                if not ok:
                    res.add(Finding("M2-REP", f"{CONTAINER}.{name}", norm(n, 70),
                                    f"`{norm(n, 70)}` stores something other than a list of values in the dict storage; "
                                    "lookup (`[0]`), getall and pop() assume key -> list of values",
                                    where=f"pvl/collections.py:{n.lineno}"))
    # M2-POS: a storage list (key -> values, kept in the order of the item list) is only ever changed at its tail,
    # in step with the item list's tail: append(value) / pop().  A value-based or differently positioned mutation
    # (remove(v), pop(i), insert, sort, reverse, del l[i]) picks the wrong occurrence when values compare equal.
    for name, fn in ci.methods.items():
        aliases = set()
        for n in ast.walk(fn):
            if isinstance(n, ast.Assign) and isinstance(n.targets[0], ast.Name) and pe.is_storage_list(n.value, set()):
                aliases.add(n.targets[0].id)
        for n in ast.walk(fn):
            bad = None
            if isinstance(n, ast.Call) and isinstance(n.func, ast.Attribute) and pe.is_storage_list(n.func.value, aliases):
                m = n.func.attr
                if m in ("remove", "insert", "sort", "reverse", "extend", "clear") or (m == "pop" and (n.args or n.keywords)):
                    bad = norm(n, 60)
                elif m in ("append", "pop"):
                    res.oblige("M2-POS", f"{CONTAINER}.{name} `{norm(n, 60)}` changes the storage list at its tail", ok=True)
            if isinstance(n, ast.Delete):
                for t in n.targets:
                    if isinstance(t, ast.Subscript) and pe.is_storage_list(t.value, aliases):
                        bad = norm(n, 60)
            if isinstance(n, ast.Assign) and isinstance(n.targets[0], ast.Subscript) and pe.is_storage_list(n.targets[0].value, aliases):
                bad = norm(n, 60)
            if bad:
                res.oblige("M2-POS", f"{CONTAINER}.{name} `{bad}` changes the storage list at its tail", ok=False)
                res.add(Finding("M2-POS", f"{CONTAINER}.{name}", bad,
                                f"{CONTAINER}.{name} changes a key's value list with `{bad}`: the value lists mirror the item "
                                "list in order and are only ever changed at the tail (append(value) / pop()); a value-based "
                                "or differently positioned change removes or moves the wrong occurrence when two values of "
                                "the key compare equal, so lookup/getall disagree with the item list",
                                where=f"pvl/collections.py:{n.lineno}"))
    # M2-EMPTY: a key leaves the dict storage exactly when its value list has become empty: a storage delete that hangs
    # on a test of the value list is guarded by the emptiness of that list (`not values`, `len(values) == 0`), not by a
    # value taken from it (a falsy last value -- 0, "", an empty block -- would drop a key that still has values, a
    # truthy one would leave an empty list behind)
    n_empty = 0
    for name, fn in fulls.items():
        aliases = set()
        for n in ast.walk(fn):
            if isinstance(n, ast.Assign) and isinstance(n.targets[0], ast.Name) and pe.is_storage_list(n.value, set()):
                aliases.add(n.targets[0].id)
        for n in ast.walk(fn):
            if not isinstance(n, ast.If):
                continue
            direct = [st for st in n.body + n.orelse if isinstance(st, ast.Expr) and isinstance(st.value, ast.Call)
                      and isinstance(st.value.func, ast.Name) and dal.get(st.value.func.id) == "__delitem__"]
            if not direct:
                continue
            mentions = [x for x in ast.walk(n.test) if pe.is_storage_list(x, aliases)]
            if not mentions:
                continue
            n_empty += 1
            calls = [c for c in ast.walk(n.test) if isinstance(c, ast.Call)]
            pure = all(norm(c.func) == "len" and len(c.args) == 1 and pe.is_storage_list(c.args[0], aliases) for c in calls) \
                and not any(isinstance(x, (ast.Subscript, ast.NamedExpr)) for x in ast.walk(n.test))
            res.oblige("M2-EMPTY", f"{CONTAINER}.{name}: `if {norm(n.test, 50)}` before `{norm(direct[0], 40)}` tests the emptiness of the value list", ok=pure)
            if not pure:
                res.add(Finding("M2-EMPTY", f"{CONTAINER}.{name}", f"`if {norm(n.test, 50)}`",
                                f"{CONTAINER}.{name} removes the key from the dict storage depending on `{norm(n.test, 60)}`, which is "
                                "not the emptiness of the key's value list: a key that still has values is dropped from the mapping "
                                "view (or an empty list stays) while the item list says otherwise", where=f"pvl/collections.py:{n.lineno}"))
    res.floor("storage deletes guarded by the emptiness of the value list", n_empty, 1)
    # the key written to both representations is the same expression
    for name, fn in ci.methods.items():
        keys_list, keys_dict = set(), set()
        for n in ast.walk(fn):
            if isinstance(n, ast.Call) and isinstance(n.func, ast.Attribute) and n.func.attr in ("append", "insert") \
                    and pe.is_items(n.func.value) and n.args:
                t = n.args[-1]
                if isinstance(t, ast.Tuple) and len(t.elts) == 2:
                    keys_list.add(norm(t.elts[0]))
            if isinstance(n, ast.Call) and isinstance(n.func, ast.Name) and dal.get(n.func.id) == "__setitem__" and len(n.args) == 3:
                keys_dict.add(norm(n.args[1]))
        if keys_list and keys_dict:
            ok = keys_list == keys_dict
            res.oblige("M2-KEY", f"{CONTAINER}.{name}: the key appended to the list {sorted(keys_list)} is the key written to the storage {sorted(keys_dict)}", ok=ok)
            if not ok:
                res.add(Finding("M2-KEY", f"{CONTAINER}.{name}", "key mismatch",
                                f"{CONTAINER}.{name} files the pair under {sorted(keys_list)} in the item list but under "
                                f"{sorted(keys_dict)} in the dict storage", where=f"pvl/collections.py:{fn.lineno}"))


def rule_m3(repo, res):
    """Views reach the container only through self._mapping's interface."""
    dal = dict_aliases(repo)
    views = [c for c in ("MappingView", "KeysView", "ItemsView", "ValuesView") if repo.has_cls(c)]
    res.floor("view classes", len(views), 4)
    for v in views:
        ci = repo.classes[v]
        for name, fn in ci.methods.items():
            bad = []
            for n in ast.walk(fn):
                if isinstance(n, ast.Name) and n.id in dal:
                    bad.append(n.id)
                if isinstance(n, ast.Attribute) and isinstance(n.value, ast.Name) and n.value.id == "dict":
                    bad.append(norm(n))
                if isinstance(n, ast.Attribute) and n.attr.startswith("_") and not n.attr.startswith("__") \
                        and n.attr not in ("_mapping",) and isinstance(n.value, ast.Attribute):
                    bad.append(norm(n))
                if isinstance(n, ast.Attribute) and "__items" in n.attr:
                    bad.append(norm(n))
            res.oblige("M3", f"{v}.{name} reaches the container through self._mapping's public interface only", ok=not bad)
            if bad:
                res.add(Finding("M3", f"{v}.{name}", ",".join(sorted(set(bad))),
                                f"{v}.{name} reads the container through {sorted(set(bad))}, bypassing the interface that "
                                "keeps both representations in step", where=f"pvl/collections.py:{fn.lineno}"))
    need = {"KeysView": ("__contains__", "__iter__", "__getitem__", "index"),
            "ItemsView": ("__contains__", "__iter__", "__getitem__", "index"),
            "ValuesView": ("__contains__", "__iter__", "__getitem__", "index"),
            "MappingView": ("__len__",)}
    for v, names in need.items():
        if not repo.has_cls(v):
            continue
        for nm in names:
            c, fn = repo.resolve_method(v, nm)
            res.oblige("M3", f"{v}.{nm} is defined by a pvl view class", ok=fn is not None)
            if fn is None:
                res.add(Finding("M3", v, nm, f"{v} no longer defines {nm}: the view falls back to an implementation "
                                             "that does not show the ordered list of pairs"))
    # the container's view factories return these views of self
    for nm, v in (("keys", "KeysView"), ("values", "ValuesView"), ("items", "ItemsView")):
        fn = repo.classes[CONTAINER].methods.get(nm)
        ok = fn is not None and any(isinstance(r, ast.Return) and norm(r.value) == f"{v}(self)" for r in ast.walk(fn))
        res.oblige("M3", f"{CONTAINER}.{nm}() returns {v}(self)", ok=ok)
        if not ok:
            res.add(Finding("M3", f"{CONTAINER}.{nm}", f"{v}(self)", f"{CONTAINER}.{nm}() no longer returns {v}(self)"))
    # list-view methods (order, multiplicity, equality) never consult the dict storage: it maps key -> values and
    # does not record how pairs of different keys are interleaved
    ci0 = repo.cls(CONTAINER)
    for nm in ("__eq__", "__ne__", "__iter__", "__len__", "__reversed__", "keys", "values", "items", "key_index", "copy", "index", "count"):
        fn = ci0.methods.get(nm)
        if fn is None:
            continue
        bad = []
        for n in ast.walk(fn):
            if isinstance(n, ast.Name) and n.id in dal:
                bad.append(n.id)
            if isinstance(n, ast.Attribute) and isinstance(n.value, ast.Name) and n.value.id == "dict":
                bad.append(norm(n))
            if isinstance(n, ast.Call) and isinstance(n.func, ast.Attribute) and isinstance(n.func.value, ast.Call) \
                    and norm(n.func.value.func) == "super":
                bad.append(norm(n.func))
        res.oblige("M3", f"{CONTAINER}.{nm} is decided from the item list only (never from the dict storage)", ok=not bad)
        if bad:
            res.add(Finding("M3", f"{CONTAINER}.{nm}", ",".join(sorted(set(bad))),
                            f"{CONTAINER}.{nm} consults the dict storage ({sorted(set(bad))}); the storage maps each key to its "
                            "values and does not record how pairs of different keys are interleaved (nor, for equality, "
                            "anything the item list does not), so this list-view operation can disagree with the ordered "
                            "list of pairs", where=f"pvl/collections.py:{fn.lineno}"))
    # accessors read the representation they are documented for
    items = item_attr(repo)
    ci = repo.cls(CONTAINER)
    for nm in ("__iter__", "__len__"):
        fn = ci.methods.get(nm)
        ok = fn is not None and any(isinstance(n, ast.Attribute) and n.attr == items for n in ast.walk(fn))
        res.oblige("M3", f"{CONTAINER}.{nm} reads the item list", ok=ok)
        if not ok:
            res.add(Finding("M3", f"{CONTAINER}.{nm}", "item list", f"{CONTAINER}.{nm} no longer reads the item list: "
                            "iteration/len show the dict storage (unique keys) instead of the ordered pairs"))


def rule_p1(repo, res):
    """P1: a dict subclass that keeps state in its instance dictionary and a
    different representation in the dict storage is rebuilt wrongly by the
    default __reduce_ex__ (copy.copy, copy.deepcopy, pickle)."""
    ci = repo.cls(CONTAINER)
    has_reduce = [m for m in ("__reduce__", "__reduce_ex__") if m in ci.methods]
    has_copy = all(m in ci.methods for m in ("__copy__", "__deepcopy__")) and \
        any(m in ci.methods for m in ("__getstate__", "__reduce__", "__reduce_ex__", "__getnewargs__"))
    ok = bool(has_reduce) or has_copy
    res.oblige("P1", f"{CONTAINER} defines its own reduction protocol (__reduce__/__reduce_ex__)", ok=ok)
    if not ok:
        res.add(Finding("P1", CONTAINER, "no __reduce__",
                        f"{CONTAINER} is a dict subclass whose dict storage holds key -> [values] while the pairs live in "
                        "an instance attribute, and it defines no __reduce__/__reduce_ex__ (nor __copy__ and "
                        "__deepcopy__ with a pickle hook): the default reduction copies the instance dictionary "
                        "(copy.copy aliases the item list with the original) and replays the storage through "
                        "__setitem__ (deepcopy duplicates items; pickle.loads raises because __setitem__ runs before "
                        "the item list exists)", where=f"pvl/collections.py:{ci.node.lineno}"))
        return
    items = item_attr(repo)
    for m in has_reduce:
        fn = ci.methods[m]
        rets = [r for r in ast.walk(fn) if isinstance(r, ast.Return) and r.value is not None]
        good = False
        for r in rets:
            v = r.value
            if isinstance(v, ast.Tuple) and len(v.elts) >= 2:
                callee, args = norm(v.elts[0]), v.elts[1]
                fresh = False
                if isinstance(args, ast.Tuple) and len(args.elts) == 1:
                    a = args.elts[0]
                    src = norm(a)
                    fresh = (isinstance(a, ast.Call) and norm(a.func) in ("list", "tuple") and a.args and
                             (items in norm(a.args[0]) or norm(a.args[0]) in ("self", "self.items()"))) or \
                            (isinstance(a, ast.ListComp) and (items in src or "in self" in src))
                good = callee in ("type(self)", "self.__class__") and fresh
        # the optional state (3rd element) must not carry the item list: it is applied by __dict__.update (shallow copy:
        # shared list) -- the private attribute's mangled name is fixed by the DEFINING class, not by type(self)
        mangled = f"_{CONTAINER}{items}" if items.startswith("__") else items
        state_ok = True
        for r in rets:
            v = r.value
            if isinstance(v, ast.Tuple) and len(v.elts) >= 3:
                st = v.elts[2]
                names = {x.id for x in ast.walk(st) if isinstance(x, ast.Name)}
                defs = [a.value for a in ast.walk(fn) if isinstance(a, ast.Assign) and isinstance(a.targets[0], ast.Name)
                        and a.targets[0].id in names]
                exprs = [st] + defs
                uses_dict = any("vars(self)" in norm(x) or "self.__dict__" in norm(x) for x in exprs)
                if uses_dict:
                    def strval(x):
                        if isinstance(x, ast.Constant) and isinstance(x.value, str):
                            return x.value
                        if isinstance(x, ast.Name):
                            mc = repo.module_constant(ci.module.name, x.id)
                            if isinstance(mc, ast.Constant) and isinstance(mc.value, str):
                                return mc.value
                        return None
                    consts = {strval(c) for x in exprs for c in ast.walk(x)} - {None}
                    filtered = mangled in consts and any(isinstance(c, ast.Compare) for x in exprs for c in ast.walk(x))
                    # or the entry is removed from a copy of the dictionary: state.pop(<name>, ...) / del state[<name>]
                    copied = any(isinstance(x, ast.Call) and norm(x.func) in ("dict", "copy.copy") or
                                 (isinstance(x, ast.Call) and isinstance(x.func, ast.Attribute) and x.func.attr == "copy")
                                 or isinstance(x, (ast.DictComp, ast.Dict)) for x in defs)
                    for n_ in ast.walk(fn):
                        if isinstance(n_, ast.Call) and isinstance(n_.func, ast.Attribute) and n_.func.attr == "pop" \
                                and isinstance(n_.func.value, ast.Name) and n_.func.value.id in names and n_.args \
                                and strval(n_.args[0]) == mangled and copied:
                            filtered = True
                        if isinstance(n_, ast.Delete) and copied and any(
                                isinstance(t_, ast.Subscript) and isinstance(t_.value, ast.Name) and t_.value.id in names
                                and strval(t_.slice) == mangled for t_ in n_.targets):
                            filtered = True
                    state_ok = state_ok and filtered
        res.oblige("P1", f"{CONTAINER}.{m}: the state it returns excludes the item list (attribute '{mangled}')", ok=state_ok)
        if not state_ok:
            res.add(Finding("P1", f"{CONTAINER}.{m}", "state carries the item list",
                            f"{CONTAINER}.{m} builds its state from the instance dictionary without excluding '{mangled}' "
                            "(the name-mangled item list; the mangled name is fixed by the defining class, so computing it "
                            "from type(self).__name__ fails for every subclass): copy.copy applies the state with "
                            "__dict__.update, so the copy shares its item list with the original",
                            where=f"pvl/collections.py:{fn.lineno}"))
        res.oblige("P1", f"{CONTAINER}.{m} returns (type(self), (fresh list of the pairs,), …)", ok=good)
        if not good:
            res.add(Finding("P1", f"{CONTAINER}.{m}", "reduction value",
                            f"{CONTAINER}.{m} does not rebuild the container as type(self)(<fresh list of the pairs>): a "
                            "copy shares or loses items, or has another class", where=f"pvl/collections.py:{fn.lineno}"))


def rule_p3(repo, res):
    """P3: the reduction state (everything in the instance dictionary but the item list) is copied shallowly by
    copy.copy and carried by deepcopy/pickle.  An instance attribute whose value holds a reference to the container
    itself (a cached view, a bound method, self) makes the copy's attribute point at the ORIGINAL: the copy then shows
    and changes the original's pairs through it.  No method of the container family stores such a value."""
    items = item_attr(repo)
    n = 0
    for c in repo.subclasses(CONTAINER):
        ci = repo.classes[c]
        for m, fn in ci.methods.items():
            for a in ast.walk(fn):
                if not isinstance(a, (ast.Assign, ast.AnnAssign, ast.AugAssign)):
                    continue
                targets = a.targets if isinstance(a, ast.Assign) else [a.target]
                for t in targets:
                    if isinstance(t, ast.Attribute) and isinstance(t.value, ast.Name) and t.value.id == "self" and t.attr != items:
                        n += 1
                        val = a.value
                        backref = val is not None and any(isinstance(x, ast.Name) and x.id == "self" for x in ast.walk(val))
                        res.oblige("P3", f"{c}.{m}: `{norm(a, 60)}` stores no reference to the container itself", ok=not backref)
                        if backref:
                            res.add(Finding("P3", f"{c}.{m}", f"self.{t.attr} refers to self",
                                            f"{c}.{m} stores `{norm(val, 60)}` in the instance attribute {t.attr}; the reduction "
                                            "state carries every instance attribute except the item list, so a shallow copy "
                                            "receives the same object -- one that refers back to the ORIGINAL container: the "
                                            "copy's accessor shows (and equality, extend and update use) the original's pairs",
                                            where=f"pvl/collections.py:{a.lineno}"))
    res.oblige("P3", f"instance attributes of the {CONTAINER} family other than the item list ({n} assignment site(s)) hold no back-reference", ok=True,
               nontrivial=False)


IMMUTABLE_BASES = ("str", "int", "float", "tuple", "frozenset", "bytes", "complex")


def rule_p4(repo, res):
    """P4: values the loader stores in containers survive copy.deepcopy and pickle.  A subclass of an immutable
    builtin that overrides __new__ with its own signature and defines no reduction hook is rebuilt by
    ``cls.__new__(cls, <value of the builtin base>)`` and gets its attributes from the saved state afterwards: the
    first parameter then receives the base value (for EmptyValueAtLine: ``""``), not what the caller meant.  So
    __new__ may only store its parameters (``self.x = p``) or hand them to the base ``__new__``; converting,
    validating or computing with them raises (or mis-builds) during reconstruction."""
    n = 0
    hooks = ("__reduce__", "__reduce_ex__", "__getnewargs__", "__getnewargs_ex__", "__copy__", "__deepcopy__", "__getstate__")
    for cname, ci in sorted(repo.classes.items()):
        if "." in cname:
            continue
        mro = repo.mro(cname)
        base = [b[4:] for b in mro if b.startswith("ext:") and b[4:] in IMMUTABLE_BASES]
        new = ci.methods.get("__new__")
        if not base or new is None:
            continue
        if any(h in repo.classes[c].methods for c in mro if not c.startswith("ext:") for h in hooks):
            continue
        n += 1
        params = [a.arg for a in new.args.args][1:]
        bad = []
        for x in ast.walk(new):
            if not (isinstance(x, ast.Name) and x.id in params and isinstance(x.ctx, ast.Load)):
                continue
            p = getattr(x, "_parent", None)
            # allowed: value of a plain assignment to an attribute / a name; argument of <base>.__new__ / super().__new__
            if isinstance(p, ast.Assign) and p.value is x:
                continue
            if isinstance(p, ast.Call) and x in p.args and isinstance(p.func, ast.Attribute) and p.func.attr == "__new__":
                continue
            bad.append((x, p))
        res.oblige("P4", f"{cname}.__new__ ({base[0]} subclass without a reduction hook) only stores or forwards its parameters", ok=not bad)
        for x, p in bad:
            res.add(Finding("P4", f"{cname}.__new__", f"uses parameter {x.id}",
                            f"{cname} is a {base[0]} subclass whose __new__ takes its own parameters and defines no __reduce__/"
                            f"__getnewargs__: copy.deepcopy and pickle rebuild it as {cname}.__new__({cname}, <the {base[0]} value>) and "
                            f"restore the attributes afterwards, so `{norm(p, 50)}` runs on the {base[0]} value instead of {x.id} -- "
                            "it raises (or builds the wrong object) for every container that holds such a value",
                            where=f"pvl/{ci.module.name}.py:{x.lineno}"))
    res.floor("immutable-builtin subclasses with their own __new__", n, 1)


def rule_p5(repo, res):
    """P5: no class of pvl/collections.py short-cuts copying by returning itself from __copy__/__deepcopy__.  The value
    classes are immutable tuples but not deeply so: the loader builds Quantity(value=[...], units=...) for units after a
    sequence, and a container returning itself is no copy at all."""
    n = 0
    for cname, cnode in repo.module("collections").classes.items():
        for fn in [x for x in cnode.body if isinstance(x, ast.FunctionDef) and x.name in ("__copy__", "__deepcopy__")]:
            n += 1
            rets = [r for r in ast.walk(fn) if isinstance(r, ast.Return) and r.value is not None]
            bad = [r for r in rets if isinstance(r.value, ast.Name) and r.value.id == fn.args.args[0].arg]
            res.oblige("P5", f"{cname}.{fn.name} does not return the object itself", ok=not bad)
            for r in bad:
                res.add(Finding("P5", f"{cname}.{fn.name}", "returns self",
                                f"{cname}.{fn.name} returns the object itself: copy.deepcopy of a container then shares this value with "
                                "the original; the value can hold a mutable list (units after a sequence give Quantity(value=[...], ...)), so "
                                "a change made through the copy shows in the original", where=f"pvl/collections.py:{r.lineno}"))
    res.oblige("P5", f"{n} __copy__/__deepcopy__ method(s) in pvl/collections.py examined", ok=True, nontrivial=False)


def rule_p6(repo, res):
    """P6: a copy hook of a container class fills the new container pair by pair (constructor argument, extend,
    append, insert) -- never through update() or item assignment, which are keyed: a repeated key keeps one value."""
    n = 0
    for cname, cnode in repo.module("collections").classes.items():
        if cname not in repo.classes:
            continue
        mro = repo.mro(cname)
        if not any(b in mro for b in (CONTAINER, "MutableMappingSequence")) and cname != CONTAINER:
            continue
        for fn in [x for x in cnode.body if isinstance(x, ast.FunctionDef) and x.name in ("__copy__", "__deepcopy__", "copy")]:
            n += 1
            fresh = set()
            for a in ast.walk(fn):
                if isinstance(a, ast.Assign) and isinstance(a.value, ast.Call) and len(a.targets) == 1 and isinstance(a.targets[0], ast.Name) \
                        and norm(a.value.func) in ("type(self)", "self.__class__", cname, CONTAINER, "cls"):
                    fresh.add(a.targets[0].id)
            bad = []
            for x in ast.walk(fn):
                if isinstance(x, ast.Call) and isinstance(x.func, ast.Attribute) and x.func.attr in ("update", "setdefault", "__setitem__") \
                        and isinstance(x.func.value, ast.Name) and x.func.value.id in fresh:
                    bad.append((x, f"{x.func.value.id}.{x.func.attr}(...)"))
                if isinstance(x, ast.Assign):
                    for t in x.targets:
                        if isinstance(t, ast.Subscript) and isinstance(t.value, ast.Name) and t.value.id in fresh:
                            bad.append((x, norm(x, 50)))
            res.oblige("P6", f"{cname}.{fn.name} fills its copy pair by pair (no keyed update / item assignment)", ok=not bad)
            for x, what in bad:
                res.add(Finding("P6", f"{cname}.{fn.name}", "copy filled through a keyed operation",
                                f"{cname}.{fn.name} fills the new container with `{what}`: update() and item assignment replace by "
                                "key, so a container that repeats a key is copied with one value for it -- the copy is not equal "
                                "to the original", where=f"pvl/collections.py:{x.lineno}"))
    res.oblige("P6", f"{n} copy hook(s) of container classes examined", ok=True, nontrivial=False)


def rule_p2(repo, res):
    """P2: the item list is only ever assigned fresh lists and never escapes;
    copy() is type(self)(self)."""
    items = item_attr(repo)
    ci = repo.cls(CONTAINER)
    n = 0
    for name, fn in ci.methods.items():
        for node in ast.walk(fn):
            if isinstance(node, ast.Assign):
                for t in node.targets:
                    if isinstance(t, ast.Attribute) and t.attr == items:
                        n += 1
                        v = node.value
                        fresh_ = lambda x: isinstance(x, (ast.List, ast.ListComp)) or (isinstance(x, ast.Call) and norm(x.func) in ("list", "sorted"))
                        ok = fresh_(v)
                        if not ok and isinstance(v, ast.Name):
                            # a local that is only ever bound to fresh lists in this method (kept = [...]; self.__items = kept)
                            defs_ = [a.value for a in ast.walk(fn) if isinstance(a, ast.Assign) and any(isinstance(t_, ast.Name) and t_.id == v.id for t_ in a.targets)]
                            params_ = {a.arg for a in fn.args.args}
                            ok = bool(defs_) and all(fresh_(d_) for d_ in defs_) and v.id not in params_
                        res.oblige("P2", f"{CONTAINER}.{name} `{norm(node, 70)}` assigns a fresh list", ok=ok)
                        if not ok:
                            res.add(Finding("P2", f"{CONTAINER}.{name}", norm(node, 70),
                                            f"`{norm(node, 70)}` makes the item list an alias of another object's list: "
                                            "two containers then share their items", where=f"pvl/collections.py:{node.lineno}"))
            if isinstance(node, ast.Return) and node.value is not None and isinstance(node.value, ast.Attribute) \
                    and node.value.attr == items:
                res.oblige("P2", f"{CONTAINER}.{name} does not return the item list itself", ok=False)
                res.add(Finding("P2", f"{CONTAINER}.{name}", norm(node), f"{CONTAINER}.{name} returns the item list itself: "
                                "callers can change the sequence view behind the mapping view's back",
                                where=f"pvl/collections.py:{node.lineno}"))
    res.floor("item-list assignments", n, 3)
    fn = ci.methods.get("copy")
    ok = fn is not None and any(isinstance(r, ast.Return) and norm(r.value) in ("type(self)(self)", "self.__class__(self)")
                                for r in ast.walk(fn))
    res.oblige("P2", f"{CONTAINER}.copy() is type(self)(self)", ok=ok)
    if not ok:
        res.add(Finding("P2", f"{CONTAINER}.copy", "type(self)(self)",
                        f"{CONTAINER}.copy() is no longer type(self)(self): the copy has another class or shares state",
                        where=f"pvl/collections.py:{getattr(fn, 'lineno', '?')}"))
    # the constructor rebuilds both representations from pairs: __init__ creates the list then extend() -> append()
    init = repo.full(CONTAINER, "__init__")
    calls = [norm(n.func) for n in ast.walk(init) if isinstance(n, ast.Call)]
    ok = "self.extend" in calls or "self.update" in calls
    res.oblige("P2", f"{CONTAINER}.__init__ fills the container through extend()", ok=ok)
    if not ok:
        res.add(Finding("P2", f"{CONTAINER}.__init__", "self.extend(*args, **kwargs)",
                        "the constructor no longer fills the container through extend()/append(), the path that keeps "
                        "both representations in step", where=f"pvl/collections.py:{init.lineno}"))
    ext = repo.full(CONTAINER, "extend") if "extend" in ci.methods else None      # private helpers read in place
    if ext is not None:
        app = [n for n in ast.walk(ext) if isinstance(n, ast.Call) and norm(n.func) == "self.append"]
        direct = [n for n in ast.walk(ext) if isinstance(n, ast.Attribute) and n.attr == items]
        ok = bool(app) and not direct
        res.oblige("P2", f"{CONTAINER}.extend adds every pair through append()", ok=ok)
        if not ok:
            res.add(Finding("P2", f"{CONTAINER}.extend", "self.append(key, value)",
                            "extend() no longer adds each pair through append()", where=f"pvl/collections.py:{ext.lineno}"))


def rule_m4(repo, res):
    """M4 documented list semantics (structural necessary conditions; values are not computed): lookup returns the
    FIRST value, assignment replaces the first occurrence and filters the later ones by key, deletion filters by
    key, pop() takes the LAST pair, insert places the pairs at consecutive indices, insert_after/insert_before use
    key_index(...) + 1 / + 0, key_index returns the instance-th position of the key."""
    items = item_attr(repo)
    dal = dict_aliases(repo)
    getters = {a for a, m in dal.items() if m == "__getitem__"} | {"dict.__getitem__"}
    ci = repo.cls(CONTAINER)
    from .inline import inline_all

    class _M(dict):
        """methods of the container with thin helpers (module-level or of the class) read in place"""
        def __missing__(self, k):
            if k not in ci.methods:
                raise AnalysisError(f"anchor vanished: method {CONTAINER}.{k}")
            self[k] = inline_all(repo, CONTAINER, ci.methods[k], module=ci.module.name)
            return self[k]

        def get(self, k, default=None):
            return self[k] if k in ci.methods else default
    M = _M()
    F = lambda m, what, msg: res.add(Finding("M4", f"{CONTAINER}.{m}", what, msg,
                                             where=f"pvl/collections.py:{ci.methods[m].lineno}"))

    def is_items(v):
        return isinstance(v, ast.Attribute) and v.attr == items

    # lookup by key -> first value
    fn = M["__getitem__"]
    rets = [r for r in ast.walk(fn) if isinstance(r, ast.Return) and isinstance(r.value, ast.Subscript)
            and isinstance(r.value.value, ast.Call) and norm(r.value.value.func) in getters]
    ok = bool(rets) and all(isinstance(r.value.slice, ast.Constant) and r.value.slice.value == 0 for r in rets)
    res.oblige("M4", f"{CONTAINER}.__getitem__(key) returns the first value of the key's value list", ok=ok)
    if not ok:
        F("__getitem__", "first value", "lookup by key no longer returns element [0] of the key's value list (the value of "
          "the first pair with that key)")
    ok = any(isinstance(r, ast.Return) and isinstance(r.value, ast.Subscript) and is_items(r.value.value) for r in ast.walk(fn))
    res.oblige("M4", f"{CONTAINER}.__getitem__(int/slice) indexes the item list", ok=ok)
    if not ok:
        F("__getitem__", "index access", "integer/slice indexing no longer reads the item list")
    # get(key): when the class provides it itself (instead of the Mapping mix-in, which goes through __getitem__), the value it
    # returns for a present key is the first one: self[key], getall(key)[0] -- not .pop() / [-1] (the last value)
    if "get" in ci.methods:
        gfn = M["get"]
        last = [x for x in ast.walk(gfn) if (isinstance(x, ast.Call) and isinstance(x.func, ast.Attribute) and x.func.attr == "pop"
                                             and not x.args and isinstance(x.func.value, ast.Call))
                or (isinstance(x, ast.Subscript) and isinstance(x.slice, ast.UnaryOp) and isinstance(x.slice.op, ast.USub))]
        firsts = [x for x in ast.walk(gfn) if isinstance(x, ast.Subscript) and ((isinstance(x.value, ast.Name) and x.value.id == "self")
                                                                                 or (isinstance(x.slice, ast.Constant) and x.slice.value == 0))]
        ok = not last and bool(firsts)
        res.oblige("M4", f"{CONTAINER}.get(key) returns the first value of the key (as __getitem__ does)", ok=ok)
        if not ok:
            F("get", "first value", f"get() {'takes `' + norm(last[0], 50) + '` -- the LAST value of a repeated key' if last else 'does not read self[key] / element [0]'}: "
              "d.get(k) and d[k] disagree for a key that occurs more than once")
    # getall -> all values in order (a copy)
    fn = M["getall"]
    ok = any(isinstance(r, ast.Return) and isinstance(r.value, ast.Call) and norm(r.value.func) == "list" and r.value.args and
             isinstance(r.value.args[0], ast.Call) and norm(r.value.args[0].func) in getters for r in ast.walk(fn))
    res.oblige("M4", f"{CONTAINER}.getall returns a copy of the key's value list", ok=ok)
    if not ok:
        F("getall", "list(<value list>)", "getall no longer returns a copy of the whole value list of the key")
    # __setitem__
    fn = M["__setitem__"]
    first = fn.body[0] if fn.body else None
    while isinstance(first, ast.Expr) and isinstance(first.value, ast.Constant):
        first = fn.body[fn.body.index(first) + 1]
    ok = isinstance(first, ast.If) and norm(first.test) in ("key not in self",) and any(
        isinstance(b, ast.Return) and "self.append(key, value)" in norm(b) for b in first.body)
    res.oblige("M4", f"{CONTAINER}.__setitem__ appends when the key is new", ok=ok)
    if not ok:
        F("__setitem__", "new key -> append", "assignment to a new key no longer appends the pair")
    loops = [n for n in ast.walk(fn) if isinstance(n, ast.For)]
    ok = False
    for lp in loops:
        for st in ast.walk(lp):
            if isinstance(st, ast.If) and isinstance(st.test, ast.Compare) and isinstance(st.test.ops[0], ast.Eq) \
                    and "key" in {norm(st.test.left), norm(st.test.comparators[0])}:
                sets = [b for b in st.body if isinstance(b, ast.Assign) and isinstance(b.targets[0], ast.Subscript)
                        and is_items(b.targets[0].value) and norm(b.value) == "(key, value)"]
                brk = any(isinstance(b, ast.Break) for b in st.body)
                ok = ok or (bool(sets) and brk)
    res.oblige("M4", f"{CONTAINER}.__setitem__ replaces the first pair with the key (then stops)", ok=ok)
    if not ok:
        F("__setitem__", "replace first", "assignment no longer replaces exactly the first pair with that key")
    filt = [n for n in ast.walk(fn) if isinstance(n, ast.ListComp) and any(
        isinstance(c, ast.Compare) and isinstance(c.ops[0], ast.NotEq) and norm(c.comparators[0]) == "key" and "[0]" in norm(c.left)
        for g in n.generators for c in g.ifs)]
    ok = bool(filt)
    res.oblige("M4", f"{CONTAINER}.__setitem__ drops the later pairs with the key (filter item[0] != key)", ok=ok)
    if not ok:
        F("__setitem__", "drop later", "assignment no longer removes the later pairs that have the same key")
    # __delitem__
    fn = M["__delitem__"]
    filt = [n for n in ast.walk(fn) if isinstance(n, ast.ListComp) and any(
        isinstance(c, ast.Compare) and isinstance(c.ops[0], ast.NotEq) and norm(c.comparators[0]) == "key" and "[0]" in norm(c.left)
        for g in n.generators for c in g.ifs)]
    res.oblige("M4", f"{CONTAINER}.__delitem__ removes exactly the pairs whose key equals the key", ok=bool(filt))
    if not filt:
        F("__delitem__", "filter item[0] != key", "deletion no longer keeps exactly the pairs with a different key")
    # pop() -> last pair
    fn = M["pop"]
    pops = [n for n in ast.walk(fn) if isinstance(n, ast.Call) and isinstance(n.func, ast.Attribute) and n.func.attr == "pop"
            and is_items(n.func.value)]
    ok = bool(pops) and all(not n.args and not n.keywords for n in pops)
    res.oblige("M4", f"{CONTAINER}.pop() removes the last pair", ok=ok)
    if not ok:
        F("pop", "self.__items.pop()", "pop() without a key no longer removes the last pair of the list")
    # insert
    fn = M["insert"]
    ins = [n for n in ast.walk(fn) if isinstance(n, ast.Call) and isinstance(n.func, ast.Attribute) and n.func.attr == "insert"
           and is_items(n.func.value)]
    ok = bool(ins) and all(len(n.args) == 2 and norm(n.args[0]) == "index" and norm(n.args[1]) == "(key, value)" for n in ins) and \
        any(isinstance(n, ast.AugAssign) and norm(n.target) == "index" and isinstance(n.op, ast.Add) and norm(n.value) == "1"
            for n in ast.walk(fn))
    if not ok and ins:
        # the same positions from a counter: for i, (key, value) in enumerate(<pairs>, start=index): items.insert(i, (key, value))
        for lp in [n for n in ast.walk(fn) if isinstance(n, ast.For)]:
            it = lp.iter
            if isinstance(it, ast.Call) and norm(it.func) == "enumerate" and isinstance(lp.target, ast.Tuple) and len(lp.target.elts) == 2 \
                    and isinstance(lp.target.elts[0], ast.Name):
                start = it.args[1] if len(it.args) == 2 else next((k.value for k in it.keywords if k.arg == "start"), None)
                cnt = lp.target.elts[0].id
                inside = [n for n in ast.walk(lp) if n in ins]
                if start is not None and norm(start) == "index" and inside and len(inside) == len(ins) and all(
                        len(n.args) == 2 and norm(n.args[0]) == cnt and norm(n.args[1]) == norm(lp.target.elts[1]) for n in inside):
                    ok = True
    if not ok and ins:
        # ... or from a zero-based counter added to index: for i, (key, value) in enumerate(<pairs>): items.insert(index + i, (key, value))
        for lp in [n for n in ast.walk(fn) if isinstance(n, ast.For)]:
            it = lp.iter
            if isinstance(it, ast.Call) and norm(it.func) == "enumerate" and len(it.args) == 1 and not it.keywords \
                    and isinstance(lp.target, ast.Tuple) and len(lp.target.elts) == 2 and isinstance(lp.target.elts[0], ast.Name):
                cnt = lp.target.elts[0].id
                inside = [n for n in ast.walk(lp) if n in ins]
                rebinds = any(isinstance(n, ast.Name) and isinstance(n.ctx, ast.Store) and n.id in ("index", cnt) and n is not lp.target.elts[0]
                              for n in ast.walk(lp))
                if inside and len(inside) == len(ins) and not rebinds and all(
                        len(n.args) == 2 and norm(n.args[0]) in (f"index + {cnt}", f"{cnt} + index")
                        and norm(n.args[1]) == norm(lp.target.elts[1]) for n in inside):
                    ok = True
    res.oblige("M4", f"{CONTAINER}.insert places the pairs at index, index + 1, ...", ok=ok)
    if not ok:
        F("insert", "consecutive indices", "insert no longer places the given pairs at consecutive positions starting at index")
    from . import canon as _canon
    for nm, off in (("insert_after", "index + 1"), ("insert_before", "index")):
        if nm not in ci.methods:
            continue
        fn = _canon.canon_method(repo, CONTAINER, nm)          # locals read in place: index = self.key_index(..) is substituted
        ps = [a.arg for a in fn.args.args]

        def is_key_index(e):
            if not (isinstance(e, ast.Call) and norm(e.func) == "self.key_index"):
                return False
            got = [norm(a) for a in e.args] + [norm(k.value) for k in e.keywords]
            return len(ps) >= 4 and got == [ps[1], ps[3]]
        call = [n for n in ast.walk(fn) if isinstance(n, ast.Call) and norm(n.func) == "self.insert"]

        def pos_ok(a):
            if off == "index":
                return is_key_index(a)
            return isinstance(a, ast.BinOp) and isinstance(a.op, ast.Add) and (
                (is_key_index(a.left) and isinstance(a.right, ast.Constant) and a.right.value == 1) or
                (is_key_index(a.right) and isinstance(a.left, ast.Constant) and a.left.value == 1))
        ok = bool(call) and all(c.args and pos_ok(c.args[0]) and len(c.args) == 2 and norm(c.args[1]) == ps[2] for c in call)
        res.oblige("M4", f"{CONTAINER}.{nm} inserts at key_index(key, instance){' + 1' if off != 'index' else ''}", ok=ok)
        if not ok:
            F(nm, off, f"{nm} no longer inserts at `{off}` with index = key_index(key, instance)")
    # the occurrence selected when none is named is the first one, in every method that takes `instance` (both families)
    for cname_ in (CONTAINER, "PVLMultiDict"):
        if cname_ not in repo.classes:
            continue
        for nm in ("key_index", "insert_after", "insert_before"):
            f_ = repo.classes[cname_].methods.get(nm)
            if f_ is None:
                continue
            a_ = f_.args
            names_ = [x.arg for x in a_.args]
            dflt = dict(zip(names_[len(names_) - len(a_.defaults):], a_.defaults))
            # the occurrence parameter: `instance` (or, in key_index, the parameter after the key)
            pname_ = "instance" if "instance" in names_ else (names_[2] if nm == "key_index" and len(names_) >= 3 else None)
            if pname_ is None:
                continue
            d_ = dflt.get(pname_)
            ok = isinstance(d_, ast.Constant) and d_.value == 0 and not isinstance(d_.value, bool)
            res.oblige("M4", f"{cname_}.{nm}: the default occurrence (instance) is the first, 0", ok=ok)
            if not ok:
                res.add(Finding("M4", f"{cname_}.{nm}", "default instance", f"{cname_}.{nm} defaults `instance` to "
                                f"{norm(d_) if d_ is not None else 'nothing'} instead of 0: without an explicit instance the pair goes "
                                "next to another occurrence of a repeated key than documented (and than in the sibling methods)",
                                where=f"pvl/collections.py:{f_.lineno}"))
    fn = M["key_index"]
    ok = any(isinstance(r, ast.Return) and isinstance(r.value, ast.Subscript) and norm(r.value.slice) == "instance" for r in ast.walk(fn)) and \
        any(isinstance(c, ast.Compare) and isinstance(c.ops[0], ast.Eq) and "key" in {norm(c.left), norm(c.comparators[0])} for c in ast.walk(fn))
    res.oblige("M4", f"{CONTAINER}.key_index returns the instance-th position whose key equals the key", ok=ok)
    if not ok:
        F("key_index", "idxs[instance]", "key_index no longer returns the instance-th position of the key")
    rule_m4_eq(repo, res)


def rule_m4_eq(repo, res):
    """equality of two containers: same class, same length, pairwise equal keys and values (structural)"""
    from .inline import inline_all
    ci = repo.cls(CONTAINER)
    if "__eq__" not in ci.methods:
        raise AnalysisError(f"anchor vanished: method {CONTAINER}.__eq__")
    fn = inline_all(repo, CONTAINER, ci.methods["__eq__"], module=ci.module.name)
    F = lambda m, what, msg: res.add(Finding("M4", f"{CONTAINER}.{m}", what, msg,
                                             where=f"pvl/collections.py:{ci.methods[m].lineno}"))
    src = norm(fn, 4000)
    def _is_len(e):
        return isinstance(e, ast.Call) and norm(e.func) == "len" and len(e.args) == 1
    same_cls = "isinstance(other, type(self))" in src or "type(other) is type(self)" in src or "type(self) is type(other)" in src \
        or "type(other) == type(self)" in src or "type(self) == type(other)" in src
    same_len = any(isinstance(c, ast.Compare) and len(c.ops) == 1 and isinstance(c.ops[0], (ast.NotEq, ast.Eq))
                   and _is_len(c.left) and _is_len(c.comparators[0]) for c in ast.walk(fn)) \
        or "zip_longest(" in src or "strict=True" in src
    value_cmps = sum(1 for c in ast.walk(fn) if isinstance(c, ast.Compare) and isinstance(c.ops[0], (ast.NotEq, ast.Eq))
                     and not (_is_len(c.left) or _is_len(c.comparators[0])))
    ok = same_cls and same_len and value_cmps >= 1
    res.oblige("M4", f"{CONTAINER}.__eq__: same class, same length, pairwise equal keys and values", ok=ok)
    if not ok:
        F("__eq__", "pairwise comparison", "equality no longer requires the same class, the same length and pairwise equal keys and values")


def rule_is_value(repo, res):
    """IS-VALUE: in the container module no comparison decides with object identity (``is`` / ``is not``) unless one side
    is a singleton: None / True / False / Ellipsis / NotImplemented, ``self``, a class or ``type(...)``, an Enum member, or
    a sentinel bound to ``object()``.  Identity of two lengths, keys or values is an accident of the interpreter (small
    integers and interned strings are shared, others are not), so equal copies compare unequal and a key equal to an
    existing key is treated as a different one."""
    ci = repo.cls(CONTAINER)
    mod = ci.module
    sentinels = set()
    for st in ast.walk(mod.tree):
        if isinstance(st, ast.Assign) and isinstance(st.value, ast.Call) and norm(st.value.func) in ("object", "builtins.object"):
            for t in st.targets:
                if isinstance(t, ast.Name):
                    sentinels.add(t.id)
                elif isinstance(t, ast.Attribute):
                    sentinels.add(t.attr)
    enums = {c for c, k in repo.classes.items() if any("Enum" in b for b in repo.mro(c))}
    builtin_types = {"int", "float", "str", "bytes", "list", "tuple", "dict", "set", "frozenset", "bool", "object", "type"}

    def singleton(e):
        if isinstance(e, ast.Constant) and (e.value is None or e.value is True or e.value is False or e.value is Ellipsis):
            return True
        if isinstance(e, ast.Name) and (e.id in ("NotImplemented", "self", "cls", "Ellipsis") or e.id in sentinels
                                        or e.id in repo.classes or e.id in builtin_types):
            return True
        if isinstance(e, ast.Attribute):
            if e.attr in sentinels or e.attr == "__class__":
                return True
            if isinstance(e.value, ast.Name) and e.value.id in enums:
                return True
        if isinstance(e, ast.Call) and norm(e.func) == "type" and len(e.args) == 1:
            return True
        return False
    n = 0
    for cname, k in repo.classes.items():
        if k.module is not mod:
            continue
        for mname, fn in k.methods.items():
            for c in ast.walk(fn):
                if not isinstance(c, ast.Compare):
                    continue
                operands = [c.left] + list(c.comparators)
                for i, op in enumerate(c.ops):
                    if isinstance(op, (ast.Is, ast.IsNot)):
                        n += 1
                        a, b = operands[i], operands[i + 1]
                        ok = singleton(a) or singleton(b)
                        res.oblige("IS-VALUE", f"{cname}.{mname}: `{norm(c, 60)}` compares with a singleton", ok=ok)
                        if not ok:
                            res.add(Finding("IS-VALUE", f"{cname}.{mname}", f"`{norm(c, 60)}`",
                                            f"{cname}.{mname} decides `{norm(c, 60)}` by object identity of two computed values "
                                            "(lengths, keys or values): equal values held in different objects are taken for "
                                            "different, so the outcome depends on interning and on the size of the numbers",
                                            where=f"pvl/collections.py:{c.lineno}"))
    res.oblige("IS-VALUE", f"{n} identity comparisons in the container module examined", ok=True)


def rule_p7(repo, res):
    """P7: a copy hook (copy / __copy__ / __deepcopy__ / __reduce__ / __reduce_ex__) of any container class of
    pvl/collections.py makes its result with the class of the object being copied -- type(self) / self.__class__ / the
    result of super()'s hook -- never with a class named in the source: the hook is inherited by subclasses (the
    library's own PVLGroup/PVLObject and the caller's module_class / group_class substitutes), whose copies would come out
    as the named base class and compare unequal to the original."""
    n = 0
    names = set(repo.classes) | {"dict", "list", "OrderedDict"}
    for cname, cnode in repo.module("collections").classes.items():
        if cname not in repo.classes:
            continue
        mro = repo.mro(cname)
        if not any(b in mro for b in (CONTAINER, "MutableMappingSequence")) and cname != CONTAINER:
            continue
        for fn in [x for x in cnode.body if isinstance(x, ast.FunctionDef)
                   and x.name in ("__copy__", "__deepcopy__", "copy", "__reduce__", "__reduce_ex__")]:
            n += 1
            bad = []
            returned = set()
            for r in ast.walk(fn):
                if isinstance(r, ast.Return) and r.value is not None:
                    for x in ast.walk(r.value):
                        if isinstance(x, ast.Name):
                            returned.add(x.id)
            for x in ast.walk(fn):
                # Cls(...) as the returned object, or bound to a name that is returned; (Cls, args) in a reduction
                if isinstance(x, ast.Call) and isinstance(x.func, ast.Name) and x.func.id in repo.classes \
                        and CONTAINER in repo.mro(x.func.id) + [x.func.id]:
                    par = getattr(x, "_parent", None)
                    if isinstance(par, ast.Return) or (isinstance(par, ast.Assign) and any(isinstance(t, ast.Name) and t.id in returned for t in par.targets)):
                        bad.append((x, f"{x.func.id}(...)"))
                if fn.name.startswith("__reduce") and isinstance(x, ast.Return) and isinstance(x.value, ast.Tuple) and x.value.elts \
                        and isinstance(x.value.elts[0], ast.Name) and x.value.elts[0].id in repo.classes:
                    bad.append((x, f"reduction to the class {x.value.elts[0].id}"))
            res.oblige("P7", f"{cname}.{fn.name} builds its result with the class of the object copied (no class named in the source)", ok=not bad)
            for x, what in bad:
                res.add(Finding("P7", f"{cname}.{fn.name}", f"copy made as {what}",
                                f"{cname}.{fn.name} builds the copy as {what}: for an instance of a subclass ({cname}'s own subclasses or "
                                "the caller's module_class / group_class / object_class) the copy has another class than the original, "
                                "and equality (which requires the same class) fails", where=f"pvl/collections.py:{x.lineno}"))
    res.floor("copy hooks of container classes", n, 2)


def rule_none_sentinel(repo, res):
    """NONE-SENTINEL: whether a key is present is decided by membership (`key in self`, KeyError from the storage), never
    by comparing a looked-up value with None: None is an ordinary value of a label (PVL NULL).  In the container classes a
    name bound to `<x>.get(key)` / `<x>.get(key, None)` (no other default) that is then tested with `is None` / `is not
    None` / `== None` / plain truthiness as the condition of a write treats a key whose (first) value is None as missing."""
    n = 0
    for cname, cnode in repo.module("collections").classes.items():
        if cname not in repo.classes:
            continue
        mro = repo.mro(cname)
        if not any(b in mro for b in (CONTAINER, "MutableMappingSequence")) and cname != CONTAINER:
            continue
        for fn in [x for x in cnode.body if isinstance(x, ast.FunctionDef)]:
            looked = {}
            for a in ast.walk(fn):
                if isinstance(a, ast.Assign) and isinstance(a.value, ast.Call) and isinstance(a.value.func, ast.Attribute) \
                        and a.value.func.attr == "get" and 1 <= len(a.value.args) <= 2 and not a.value.keywords \
                        and (len(a.value.args) == 1 or (isinstance(a.value.args[1], ast.Constant) and a.value.args[1].value is None)):
                    for t in a.targets:
                        if isinstance(t, ast.Name):
                            looked[t.id] = a
            for c in ast.walk(fn):
                hit = None
                if isinstance(c, ast.Compare) and len(c.ops) == 1 and isinstance(c.ops[0], (ast.Is, ast.IsNot, ast.Eq, ast.NotEq)):
                    sides = [c.left, c.comparators[0]]
                    if any(isinstance(x, ast.Constant) and x.value is None for x in sides):
                        nm = [x for x in sides if isinstance(x, ast.Name) and x.id in looked]
                        call = [x for x in sides if isinstance(x, ast.Call) and isinstance(x.func, ast.Attribute) and x.func.attr == "get"
                                and 1 <= len(x.args) <= 2 and (len(x.args) == 1 or (isinstance(x.args[1], ast.Constant) and x.args[1].value is None))]
                        if nm or call:
                            hit = c
                if hit is not None:
                    n += 1
                    res.oblige("NONE-SENTINEL", f"{cname}.{fn.name}: `{norm(hit, 50)}` does not stand for 'the key is missing'", ok=False)
                    res.add(Finding("NONE-SENTINEL", f"{cname}.{fn.name}", f"`{norm(hit, 50)}`",
                                    f"{cname}.{fn.name} takes `{norm(hit, 60)}` -- the result of a get() without a private default -- for "
                                    "'the key is not there': a key whose first value is None (a PVL NULL) is treated as missing, and the "
                                    "write that follows replaces it and drops its later occurrences", where=f"pvl/collections.py:{hit.lineno}"))
    res.oblige("NONE-SENTINEL", "no container method decides the presence of a key by comparing a get() result with None", ok=n == 0)


def rule_p8(repo, res):
    """P8: every copy route (copy(), the reduction used by copy.copy / deepcopy / pickle, the constructor) rebuilds a
    container by replaying its pairs through __init__ -> extend -> append, so these three accept every pair any other
    mutator accepts: none of them raises depending on the key or the value (extend may refuse a malformed *argument
    list*).  A refusal added to append alone makes a container that insert() filled impossible to copy."""
    ci = repo.cls(CONTAINER)
    n = 0
    for name in ("append",):
        if name not in ci.methods:
            raise AnalysisError(f"anchor vanished: method {CONTAINER}.{name}")
        fn = ci.methods[name]
        params = [a.arg for a in fn.args.args if a.arg != "self"]
        from . import flow
        for st, conds in flow.stmts_with_conds(fn.body):
            if isinstance(st, ast.Raise):
                n += 1
                reads = {x.id for (t, pol) in conds if isinstance(t, ast.AST) for x in ast.walk(t) if isinstance(x, ast.Name)}
                bad = bool(reads & set(params)) or not conds
                res.oblige("P8", f"{CONTAINER}.{name}: `{norm(st, 50)}` does not depend on the key or the value", ok=not bad)
                if bad:
                    res.add(Finding("P8", f"{CONTAINER}.{name}", f"`{norm(st, 50)}`",
                                    f"{CONTAINER}.{name} refuses some pairs (`{norm(st, 60)}` under a test of {sorted(reads & set(params))}): "
                                    "the copy routes replay every pair through append, so a container that holds such a pair (placed by "
                                    "insert / insert_before / insert_after, which accept it) cannot be copied, deep-copied or pickled",
                                    where=f"pvl/collections.py:{st.lineno}"))
    res.oblige("P8", f"{CONTAINER}.append accepts every pair ({n} raise statement(s) examined)", ok=True, nontrivial=False)


def rule_p9(repo, res):
    """P9: the constructor (and extend, which it calls) takes the *empty* list of pairs: the reduction of an empty
    container -- the module of an empty label, a GROUP without statements at any depth -- is `type(self)([])`, replayed
    by copy.copy, copy.deepcopy and pickle.  So neither of them looks at a first / last element of its argument
    (`args[0][0]`, `pairs[-1]`) unless a test of that very expression's non-emptiness dominates the access."""
    ci = repo.cls(CONTAINER)
    n = 0
    for name in ("__init__", "extend"):
        fn = ci.methods.get(name)
        if fn is None:
            continue
        for sub in [x for x in ast.walk(fn) if isinstance(x, ast.Subscript) and isinstance(x.ctx, ast.Load)]:
            idx = sub.slice
            const = (isinstance(idx, ast.Constant) and isinstance(idx.value, int)) or \
                (isinstance(idx, ast.UnaryOp) and isinstance(idx.op, ast.USub) and isinstance(idx.operand, ast.Constant))
            if not const:
                continue
            base = norm(sub.value)
            # args[0] itself is guarded by the usual len(args) test; what matters is an element *of an argument*
            if not (isinstance(sub.value, ast.Subscript) or (isinstance(sub.value, ast.Name) and sub.value.id not in ("args", "kwargs", "self"))):
                continue
            n += 1
            guarded = False
            x = sub
            while x is not None and x is not fn:
                p = getattr(x, "_parent", None)
                tests = []
                if isinstance(p, ast.BoolOp) and isinstance(p.op, ast.And) and x in p.values:
                    tests += p.values[:p.values.index(x)]
                if isinstance(p, (ast.If, ast.While)) and x is not p.test and x in p.body:
                    tests.append(p.test)
                for t in tests:
                    for y in ast.walk(t):
                        if (isinstance(y, ast.Call) and norm(y.func) == "len" and y.args and norm(y.args[0]) == base) or \
                                (isinstance(y, (ast.Name, ast.Subscript)) and norm(y) == base and isinstance(getattr(y, "_parent", None), (ast.BoolOp, ast.If, ast.UnaryOp))):
                            guarded = True
                if isinstance(p, ast.Try) and x in p.body and any(h.type is None or "IndexError" in norm(h.type) or norm(h.type) in ("Exception", "LookupError")
                                                                   for h in p.handlers):
                    guarded = True
                x = p
            res.oblige("P9", f"{CONTAINER}.{name}: `{norm(sub)}` is reached only when `{base}` is known to be non-empty", ok=guarded)
            if not guarded:
                res.add(Finding("P9", f"{CONTAINER}.{name}", f"`{norm(sub)}` on a possibly empty argument",
                                f"{CONTAINER}.{name} reads `{norm(sub)}` without a test that `{base}` is not empty: the copy routes rebuild "
                                "an empty container (an empty module, a GROUP without statements) as type(self)([]), so copy.copy, "
                                "copy.deepcopy and pickle of a label that contains one raise IndexError",
                                where=f"pvl/collections.py:{sub.lineno}"))
    res.oblige("P9", f"{CONTAINER}.__init__ / extend accept the empty list of pairs ({n} element accesses examined)", ok=True, nontrivial=False)


def rule_p10(repo, res):
    """P10: a copy hook does not carry the original's instance dictionary over wholesale: `vars(new).update(vars(self))`,
    `new.__dict__.update(self.__dict__)`, `new.__dict__ = self.__dict__` (or a shallow copy of it) also carry the private
    item list -- the very object -- so the copy and the original share their list of pairs while each has its own dict
    storage; a later append to one shows in the list view of the other.  (The reduction filters the item list out by its
    *mangled* name; a filter on the unmangled name keeps it.)"""
    items = item_attr(repo)
    mangled = f"_{CONTAINER}{items}" if items.startswith("__") else items
    n = 0
    for cname, cnode in repo.module("collections").classes.items():
        if cname not in repo.classes:
            continue
        mro = repo.mro(cname)
        if not any(b in mro for b in (CONTAINER, "MutableMappingSequence")) and cname != CONTAINER:
            continue
        for fn in [x for x in cnode.body if isinstance(x, ast.FunctionDef)
                   and x.name in ("__copy__", "__deepcopy__", "copy", "__reduce__", "__reduce_ex__", "__getstate__")]:
            n += 1
            bad = None
            for x in ast.walk(fn):
                if isinstance(x, ast.Call) and isinstance(x.func, ast.Attribute) and x.func.attr == "update" and x.args:
                    tgt, src = norm(x.func.value), norm(x.args[0])
                    if (tgt.startswith("vars(") or tgt.endswith(".__dict__")) and (src in ("vars(self)", "self.__dict__")):
                        bad = x
                if isinstance(x, ast.Assign) and any(isinstance(t, ast.Attribute) and t.attr == "__dict__" for t in x.targets) \
                        and ("self.__dict__" in norm(x.value) or "vars(self)" in norm(x.value)):
                    bad = x
                # a state filter that compares with the unmangled private name never matches
                if isinstance(x, ast.Compare) and any(isinstance(c_, ast.Constant) and c_.value == items and items != mangled
                                                      for c_ in [x.left] + x.comparators):
                    bad = x
            res.oblige("P10", f"{cname}.{fn.name} does not hand the original's instance dictionary (with the item list) to the copy", ok=bad is None)
            if bad is not None:
                res.add(Finding("P10", f"{cname}.{fn.name}", f"`{norm(bad, 60)}`",
                                f"{cname}.{fn.name} uses `{norm(bad, 70)}`: the private item list `{mangled}` travels with the instance "
                                "dictionary (or is not filtered out, the filter names it without its class prefix), so the copy's list of "
                                "pairs *is* the original's: after copy.copy, an append / insert / assignment on one container shows in "
                                "the sequence view of the other while their mapping views differ", where=f"pvl/collections.py:{bad.lineno}"))
    # the counterpart on the receiving side: a __setstate__ puts the state into the instance dictionary, not into the mapping
    for cname, cnode in repo.module("collections").classes.items():
        if cname not in repo.classes:
            continue
        mro = repo.mro(cname)
        if not any(b in mro for b in (CONTAINER, "MutableMappingSequence")) and cname != CONTAINER:
            continue
        for fn in [x for x in cnode.body if isinstance(x, ast.FunctionDef) and x.name == "__setstate__"]:
            n += 1
            ps = [a.arg for a in fn.args.args]
            st = ps[1] if len(ps) > 1 else None
            bad = None
            for x in ast.walk(fn):
                if isinstance(x, ast.Call) and isinstance(x.func, ast.Attribute) and isinstance(x.func.value, ast.Name) and x.func.value.id == "self" \
                        and x.func.attr in ("update", "extend", "append", "__setitem__", "setdefault"):
                    bad = x
                if isinstance(x, ast.Assign) and any(isinstance(t, ast.Subscript) and isinstance(t.value, ast.Name) and t.value.id == "self" for t in x.targets):
                    bad = x
            res.oblige("P10", f"{cname}.__setstate__ restores instance attributes, not container entries", ok=bad is None)
            if bad is not None:
                res.add(Finding("P10", f"{cname}.__setstate__", f"`{norm(bad, 60)}`",
                                f"{cname}.__setstate__ applies the pickled / copied state with `{norm(bad, 70)}`, i.e. to the mapping: the "
                                "instance attributes of the original (the parser's .errors list) come back as extra pairs of the copy, "
                                "which is then longer than, and unequal to, the original", where=f"pvl/collections.py:{bad.lineno}"))
    res.floor("copy / reduction hooks examined for P10", n, 2)


def rule_ne(repo, res):
    """M4-NE: inequality is the negation of equality: `__ne__` of the container, if defined, returns `not (self == other)` /
    `not self.__eq__(other)` and nothing else.  A shortcut of its own (comparing dict key orders, lengths) can disagree
    with __eq__ -- the dict storage keeps keys in first-insertion order, the item list in list order -- and nested blocks
    are compared with != inside __eq__."""
    ci = repo.cls(CONTAINER)
    fn = ci.methods.get("__ne__")
    if fn is None:
        res.oblige("M4-NE", f"{CONTAINER} defines no __ne__ of its own (Python derives it from __eq__)", ok=True, nontrivial=False)
        return
    rets = [r for r in ast.walk(fn) if isinstance(r, ast.Return)]
    ok = len(rets) == 1 and norm(rets[0].value).replace(" ", "") in ("not(self==other)", "notself==other", "notself.__eq__(other)")
    res.oblige("M4-NE", f"{CONTAINER}.__ne__ is exactly `not (self == other)`", ok=ok)
    if not ok:
        res.add(Finding("M4-NE", f"{CONTAINER}.__ne__", "inequality decided by something other than __eq__",
                        f"{CONTAINER}.__ne__ has {len(rets)} return(s) ({[norm(r, 40) for r in rets][:3]}): a path that does not go through "
                        "__eq__ can call two containers with identical pairs different (nested blocks are compared with != inside "
                        "__eq__), so a deep copy compares unequal to its original", where=f"pvl/collections.py:{fn.lineno}"))


def rule_pair_kind(repo, res):
    """PAIR-KIND: a (key, value) pair handed to the container may be any two-element sequence; the module never tells a pair
    from a list of pairs by `isinstance(x, tuple)` / `type(x) is tuple` (lists of pairs come from JSON, from list(d)): such a
    test takes `[["c", 4], ["a", 5]]` for one pair whose key is a list."""
    mod = repo.module("collections")
    n = 0
    for x in ast.walk(mod.tree):
        if isinstance(x, ast.Call) and norm(x.func) == "isinstance" and len(x.args) == 2 and norm(x.args[1]) == "tuple":
            n += 1
            res.add(Finding("PAIR-KIND", "collections", f"`{norm(x, 50)}`",
                            f"pvl/collections.py tests `{norm(x, 60)}`: pairs given as lists are then not recognised as pairs (or a list of "
                            "two pairs is taken for one pair), and insert() files an unhashable key in the item list before it fails",
                            where=f"pvl/collections.py:{x.lineno}"))
    res.oblige("PAIR-KIND", "no isinstance(.., tuple) test decides the shape of an argument in the container module", ok=n == 0)
