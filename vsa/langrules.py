"""Rules decided on string languages: S1, S2, G2, N1, O1, O2, TB8, K1."""
import ast
import os
from concurrent.futures import ProcessPoolExecutor

from .core import Repo, Finding, AnalysisError, norm
from . import strlang as SL, predeval as PE, lang, tables, tokproto

_CACHE = {}


def _w(d, k=3):
    return d.witnesses(k)


def key_classes(reader):
    g = reader.grammar
    c = reader.classes()
    return {
        "empty text": SL.EPSILON,
        "reserved keyword (any letter case)": SL.anyof(sorted(g.reserved_keywords), ic=True),
        "reads as a number": c["decimal number"] | c["based integer"],
        "reads as a date/time": c["date/time"],
        "contains white space": SL.contains_any_char(SL.syms("".join(g.whitespace))),
        "contains a reserved character or comment delimiter":
            SL.contains_any_char(SL.syms("".join(g.reserved_characters))) |
            SL.union([SL.contains_substr(x) for pair in g.comments for x in pair]),
    }


def omni_rewrite_pattern(repo):
    """The pattern of the whole-document re.sub in OmniParser.parse (AST; the helpers it calls read in place)."""
    from .canon import canon_method
    try:
        fn = canon_method(repo, "OmniParser", "parse")
    except Exception:
        fn = repo.method("OmniParser", "parse")
    pm = repo.classes["OmniParser"].module
    for n in ast.walk(fn):
        if isinstance(n, ast.Call) and norm(n.func) in ("re.sub", "re.subn") and n.args:
            a = n.args[0]
            if isinstance(a, ast.Name):
                for st in pm.tree.body:
                    if isinstance(st, ast.Assign) and any(isinstance(t, ast.Name) and t.id == a.id for t in st.targets):
                        a = st.value
            if isinstance(a, ast.Call) and norm(a.func) == "re.compile" and a.args:
                a = a.args[0]
            if isinstance(a, ast.Constant) and isinstance(a.value, str):
                return a.value
            raise AnalysisError(f"the pattern of `{norm(n, 60)}` in OmniParser.parse is not a literal the analysis can read")
        if isinstance(n, ast.Call) and isinstance(n.func, ast.Attribute) and n.func.attr in ("sub", "subn") and isinstance(n.func.value, ast.Name):
            for st in pm.tree.body:
                if isinstance(st, ast.Assign) and any(isinstance(t, ast.Name) and t.id == n.func.value.id for t in st.targets) \
                        and isinstance(st.value, ast.Call) and norm(st.value.func) == "re.compile" and st.value.args \
                        and isinstance(st.value.args[0], ast.Constant):
                    return st.value.args[0].value
    return None


def rule_dash_doc(repo, res):
    """DASH-DOC: the whole-document rewrite of the permissive parser removes a dash continuation whatever the line end
    of the file is -- LF, CR LF or CR -- together with the run of blanks that starts the next line.  A text stream
    hands over LF where a binary stream or a path hands over CR LF, so a rewrite that knows only one of them makes the
    entry points disagree."""
    pat = omni_rewrite_pattern(repo)
    if pat is None:
        res.oblige("DASH-DOC", "OmniParser.parse performs no whole-document rewrite (dash continuation is left to the decoder)", ok=True)
        return
    L = SL.rx(pat)
    blanks = SL.star(SL.syms([" ", "\t"]))
    for name, e in (("LF", "\n"), ("CR LF", "\r\n"), ("CR", "\r")):
        want = SL.concat(SL.lit("-" + e), blanks)
        miss = _w(want - L, 2)
        res.oblige("DASH-DOC", f"OmniParser.parse: {pat!r} matches '-' + {name} + any run of blanks as a whole", ok=not miss)
        if miss:
            res.add(Finding("DASH-DOC", "OmniParser.parse", f"{name} line end",
                            f"the whole-document rewrite re.sub({pat!r}, '') of OmniParser.parse does not remove {miss} "
                            f"as a whole: a dash-continued value in a label with {name} line ends keeps part of the line "
                            "break, so the same file loads differently through a text stream (universal newlines) and "
                            "through a path or binary stream", witness=miss[0]))


def _encoder_job(args):
    root, enc, gcls, dcls = args[:4]
    overrides = args[4] if len(args) > 4 else None
    repo = Repo(root)
    out = {"encoder": enc}
    p = lang.Pairing(repo, enc, gcls, dcls, overrides=overrides)
    out["default_pairing"] = gcls is None
    out["variant"] = ", ".join(f"{k}={v}" for k, v in (overrides or {}).items()) or None
    out["grammar"], out["decoder"] = p.gcls, p.dcls
    bare = p.bare()
    out["bare_states"] = bare.nstates()
    out["bare_samples"] = _w(bare, 4)
    out["bare_alphabet"] = sorted(SL.alphabet_of(bare))
    own = p.reader()
    omni = p.reader("OmniGrammar", "OmniDecoder")
    for tag, rd in (("own", own), ("omni", omni)):
        res = {}
        for cname, L in rd.classes().items():
            res[cname] = _w(bare & L, 3)
        out["s1_" + tag] = res
        out["s1_" + tag + "_rest"] = _w(bare - rd.returned_unchanged - SL.union(list(rd.classes().values())), 3)
    # S2: key / block-name guards
    p.ctx.options["$lenient"] = True
    pn = PE.run("Token", "is_parameter_name", own.ctx)["T"]
    kc = key_classes(own)
    s2 = {}
    spec = {}
    for m in ("encode_assignment", "encode_aggregation_block"):
        r = PE.run(enc, m, p.ctx)
        ok = PE.accepts(r) & p.alpha
        diff = ok - pn
        per = {}
        covered = SL.EMPTY
        for cname, L in kc.items():
            per[cname] = _w(diff & L, 3)
            covered = covered | L
        per["other text that is not a parameter name"] = _w(diff - covered, 3)
        s2[m] = per
        # K1: ODL-family keys: at most 30 characters, [^]IDENT[:IDENT], (C12)
        ident = r"[A-Za-z]([A-Za-z0-9_]*[A-Za-z0-9])?"
        odlkey = SL.rx(r"\^?" + ident + "(:" + ident + ")?") & ~SL.length_gt(30)
        spec[m] = _w(ok - odlkey, 3)
    out["s2"] = s2
    out["k1"] = spec
    # O2: whole-document rewrite of the permissive reader vs what can end a bare value
    pat = omni_rewrite_pattern(repo)
    out["o2_pattern"] = pat
    if pat is not None:
        first = SL.first_chars_of_pattern(pat)
        last = SL.last_chars(bare)
        out["o2_first"] = sorted(first)
        out["o2_clash"] = sorted(first & last)
        out["o2_witness"] = _w(bare & SL.last_in(SL.syms(first)), 2) if first & last else []
    # S-NUM: what the encoders write for numbers -- str() of an int, a float (finite or not: 'inf', '-inf', 'nan') or
    # a Decimal -- is read back as a number by the dialect's own reader and by the permissive one
    num_written = SL.rx(r"-?([0-9]+(\.[0-9]+)?([eE][+-]?[0-9]+)?|inf|nan|Infinity|NaN)")
    snum = {}
    for tag, rd in (("own", own), ("omni", omni)):
        dec = rd.classes()["decimal number"]
        snum[tag] = {"reader": f"{rd.dcls}/{rd.gcls}", "not_numbers": _w(num_written - dec, 4)}
    out["snum"] = snum
    out["visited"] = sorted(set(p.ctx.visited + own.ctx.visited))
    return out


def rule_snum(repo, res, an, which=("own", "omni")):
    """S-NUM: every text str() gives for an int, float or Decimal value (the encoders write numbers with str()) is in
    the reader's decimal-number class -- for the dialect's own reader and for the permissive one.  A reader that
    refuses 'inf' / 'nan' / an exponent form turns the number into a string (or an error) on reload."""
    for e in an["encoders"]:
        for tag in which:
            d = e["snum"][tag]
            res.oblige("S-NUM", f"{e['encoder']}: str() of a number is read back as a number by {d['reader']}", ok=not d["not_numbers"])
            if d["not_numbers"]:
                res.add(Finding("S-NUM", f"{e['encoder']}.encode_simple_value", f"numbers {d['reader']} does not read as numbers",
                                f"{e['encoder']} writes numbers with str(); {d['reader']} does not read {d['not_numbers']} back as "
                                "a number: a non-finite or exponent-form value comes back as a string or is refused",
                                witness=d["not_numbers"][0], where="pvl/decoder.py"))


def units_token_language(repo, pcls, ctx):
    return token_fn_language(repo, pcls, ctx, "parse_units")


def token_fn_language(repo, pcls, ctx, method):
    """Languages of the token text t = next(tokens) of <pcls>.parse_units: (accepted, refused, probes) where accepted
    = the method returns, refused = it raises / throws into the lexer, and probes = for some sets X of units texts the
    language of t for which the units value handed to the decoder is in X.  The method is read with its helpers in
    place; the token-stream operations are replaced by what they mean for the text: `next(tokens)` is the string
    under test, `tokens.send(t)` puts it back (no effect on the verdict), `tokens.throw(...)` raises."""
    import ast as _ast
    from .inline import clone
    after = None
    for _ in range(8):
        defcls, fn = repo.full_resolved(pcls, method, after)
        if fn is None:
            raise AnalysisError(f"anchor vanished: a {method} that reads its token")
        pnames = [a.arg for a in fn.args.args]
        tok = "tokens" if "tokens" in pnames else pnames[-1]
        if any(isinstance(n, _ast.Call) and norm(n.func) == "next" and n.args and norm(n.args[0]) == tok for n in _ast.walk(fn)):
            break
        if not any(isinstance(n, _ast.Call) and norm(n.func) == f"super().{method}" for n in _ast.walk(fn)):
            break              # it neither reads the token nor hands over to its parent: evaluated as it stands
        after = defcls
    fn = clone(fn)
    units_args = []

    class T(_ast.NodeTransformer):
        def visit_Call(self, n):
            self.generic_visit(n)
            if norm(n.func) == "next" and n.args and norm(n.args[0]) == tok:
                return _ast.Name(id="$value", ctx=_ast.Load())
            return n

        def visit_Expr(self, n):
            self.generic_visit(n)
            if isinstance(n.value, _ast.Call) and isinstance(n.value.func, _ast.Attribute) and norm(n.value.func.value) == tok:
                if n.value.func.attr == "send":
                    return _ast.copy_location(_ast.Pass(), n)
                if n.value.func.attr == "throw":
                    return _ast.copy_location(_ast.Raise(exc=_ast.Name(id="ValueError", ctx=_ast.Load()), cause=None), n)
            return n

        def visit_Return(self, n):
            self.generic_visit(n)
            if isinstance(n.value, _ast.Call) and len(n.value.args) == 2:
                units_args.append(n.value.args[1])
            return _ast.copy_location(_ast.Return(value=_ast.Constant(value=True)), n)
    fn = T().visit(fn)
    _ast.fix_missing_locations(fn)
    ev = PE.Eval(ctx, pcls, defcls, {})
    out = ev.block(fn.body, SL.EVERYTHING)
    acc = out.get("T", SL.EMPTY) | out.get("V", SL.EMPTY) | out.get("ID", SL.EMPTY)
    rej = out.get("E", SL.EMPTY)
    probes = None
    if len(units_args) == 1 and isinstance(units_args[0], _ast.Name) and isinstance(ev.env.get(units_args[0].id), PE.Derived):
        chain = ev.env[units_args[0].id].chain
        probes = lambda X: PE.pullback(chain, X)
    return acc, rej, probes, f"{defcls}.{method}"


def _reader_job(args):
    root, name, gcls, dcls = args[:4]
    pcls = args[4] if len(args) > 4 else None
    repo = Repo(root)
    rd = lang.Reader(repo, gcls, dcls)
    out = {"config": name, "grammar": gcls, "decoder": dcls}
    tu, uq = rd.token_unquoted(), rd.unquoted_class()
    out["g2_token_only"] = _w(tu - uq, 3)
    out["g2_decoder_only"] = _w(uq - tu, 3)
    # which classes the token-only strings fall in (finding keys)
    cls = rd.classes()
    by = {k: _w((tu - uq) & L, 2) for k, L in cls.items() if k in
          ("keyword (null/true/false)", "decimal number", "based integer", "date/time")}
    nv = (tu - uq) & cls["not a value"]
    covered = SL.EMPTY
    for k, L in key_classes(rd).items():
        if k.startswith("reads as"):
            continue
        by["not a value: " + k] = _w(nv & L, 2)
        covered = covered | L
    by["not a value: other text (e.g. not an identifier)"] = _w(nv - covered, 2)
    out["g2_token_only_by_class"] = by
    # N1: permissive delegation to int()/float()
    alpha = SL.star(lang.allowed_syms(repo, gcls))
    dec = cls["decimal number"] & alpha
    g = rd.grammar
    digits_only = SL.rx(r"[+-]?([0-9]+\.?[0-9]*|\.[0-9]+)([eE][+-]?[0-9]+)?")
    out["n1"] = {"underscore": _w(dec & SL.contains_any_char(SL.syms("_")), 2),
                 "alphabetic special (inf/nan)": _w(dec & SL.rx(r"[+-]?[A-Za-z]+"), 2),
                 "non-ASCII digit": _w(dec & SL.contains_any_char(SL.syms("٣")), 1),
                 "other non-PVL spelling": _w(dec - digits_only - SL.contains_any_char(SL.syms("_٣")) - SL.rx(r"[+-]?[A-Za-z]+"), 2)}
    # TB8: lexer trigger vs decoder's based-integer language
    full = cls["based integer"]
    pre = SL.rx(g.nondecimal_pre_re.pattern)
    out["tb8_full_not_triggered"] = _w(full - SL.concat(pre, SL.EVERYTHING), 2)
    out["tb8_trigger_not_completable"] = _w(pre - SL.prefix_closure(full), 2)
    # NONDEC-SPEC: the based integers of the specification (PVL: radix 2, 8, 16 with the sign in front; ODL: radix 2..16
    # with the sign after the first '#') are based integers for the reader.  The expected language is written here
    # from the two specifications, not derived from the grammar's regexes.
    mro = [k.__name__ for k in type(g).__mro__]
    fam = "omni" if "OmniGrammar" in mro else ("odl" if "ODLGrammar" in mro else "pvl")
    spec = SL.EMPTY if hasattr(SL, "EMPTY") else (SL.EPSILON - SL.EPSILON)
    digs = "0123456789abcdef"
    if fam in ("pvl", "omni"):
        for r_ in (2, 8, 16):
            cs = "".join(sorted(set(digs[:r_] + digs[:r_].upper())))
            spec = spec | SL.rx(r"[+-]?%d#[%s]+#" % (r_, cs))
    if fam in ("odl", "omni"):
        for r_ in range(2, 17):
            cs = "".join(sorted(set(digs[:r_] + digs[:r_].upper())))
            spec = spec | SL.rx(r"%d#[+-]?[%s]+#" % (r_, cs))
    out["nondec_spec"] = {"family": fam, "missing": _w(spec - full, 3)}
    from . import lexlang
    out["lex1"] = lexlang.check(repo, gcls, dcls)
    # Q1: every text of the form q + s + q (q a quote character not occurring in s) is a quoted string for the decoder
    q1 = {}
    accq = cls["quoted string"]
    for q in g.quotes:
        body = SL.star(SL.ALLSYMS - SL.syms([q]))
        written = SL.concat(SL.concat(SL.lit(q), body), SL.lit(q)) & alpha
        q1[q] = _w(written - accq, 2)
    out["q1"] = q1
    # DASH: the dash-continuation removal of decode_quoted_string covers "-" + any format effector + any run of white space
    out["dash"] = None
    out["fold"] = None
    dc_, dq = repo.resolve_method(dcls, "decode_quoted_string")
    if dq is not None and dc_ != "PVLDecoder":
        import ast as _ast
        ev = PE.Eval(rd.ctx, dcls, dc_, {})
        for st_ in dq.body:
            if isinstance(st_, _ast.Assign) and len(st_.targets) == 1 and isinstance(st_.targets[0], _ast.Name):
                try:
                    ev.env[st_.targets[0].id] = PE.Conc(ev.conc(st_.value))
                except PE.Unsupported:
                    pass
        pats = []
        for n_ in _ast.walk(dq):
            if isinstance(n_, _ast.Call) and norm(n_.func) in ("re.sub", "re.subn") and len(n_.args) >= 2 \
                    and isinstance(n_.args[1], _ast.Constant) and n_.args[1].value == "":
                try:
                    pt = ev.fstring(n_.args[0])
                except PE.Unsupported:
                    continue
                if pt.startswith("-"):
                    pats.append(pt)
        # FOLD: what decode_quoted_string folds or strips is white space of the grammar only
        wsset = set(c for c in g.whitespace if len(c) == 1)
        wsrun = SL.star(SL.syms(wsset))
        fold = []
        from . import flow as _flow
        cond_dash = False
        for st_, conds_ in _flow.stmts_with_conds(dq.body):
            strvars = {a.arg for a in dq.args.args[1:]} | {t_.id for x_ in _ast.walk(dq) if isinstance(x_, _ast.Assign) for t_ in x_.targets if isinstance(t_, _ast.Name)}
            for n_ in _ast.walk(st_):
                if isinstance(n_, _ast.Call) and norm(n_.func) in ("re.sub", "re.subn") and len(n_.args) >= 2 and isinstance(n_.args[1], _ast.Constant):
                    try:
                        pt = ev.fstring(n_.args[0])
                    except PE.Unsupported:
                        fold.append(f"`{norm(n_, 60)}`: pattern not resolvable")
                        continue
                    if n_.args[1].value == " ":
                        extra_ = (SL.rx(pt) - wsrun).witnesses(2)
                        if extra_:
                            fold.append(f"`re.sub({pt!r}, ' ', ...)` also replaces {extra_}")
                    if n_.args[1].value == "" and pt.startswith("-"):
                        # the removal must not hang on a test of the text (a cheaper pre-test that knows fewer line ends)
                        for t_, p_ in conds_:
                            if isinstance(t_, _ast.expr) and any(isinstance(x_, _ast.Name) and x_.id in strvars for x_ in _ast.walk(t_)):
                                cond_dash = norm(t_, 60)
                if isinstance(n_, _ast.Call) and isinstance(n_.func, _ast.Attribute) and n_.func.attr in ("strip", "lstrip", "rstrip", "split") \
                        and not isinstance(n_.func.value, _ast.Constant):
                    if not n_.args and not n_.keywords:
                        fold.append(f"`{norm(n_, 50)}` without an argument works on Python's white space (which includes \\x1c-\\x1f, \\x85, \\xa0, ...), "
                                    "not on the grammar's")
                    elif n_.args and n_.func.attr != "split":
                        try:
                            cs = ev.conc(n_.args[0])
                            bad_ = sorted(set(cs) - wsset) if isinstance(cs, str) else None
                            if bad_:
                                fold.append(f"`{norm(n_, 50)}` strips {bad_}")
                        except PE.Unsupported:
                            pass
        out["fold"] = fold
        if pats:
            L = SL.union([SL.rx(p_) for p_ in pats])
            fe = SL.syms([c for c in g.format_effectors if len(c) == 1])
            wsym = SL.syms([c for c in g.whitespace if len(c) == 1])
            one_fe = SL.star(fe) & SL.length_eq(1)
            want = SL.concat(SL.lit("-"), SL.concat(one_fe, SL.star(wsym)))
            out["dash"] = {"patterns": pats, "not_removed": _w(want - L, 3), "conditional": cond_dash}
        else:
            out["dash"] = {"patterns": [], "not_removed": ["<no dash-continuation removal found>"], "conditional": False}
    # KW-EXCL: no block keyword (begin or end, any letter case) and no END statement is an unquoted string for the decoder
    kws = sorted(set(g.aggregation_keywords.keys()) | set(g.aggregation_keywords.values()) | set(g.end_statements))
    acc_uq = PE.accepts(rd.method("decode_unquoted_string"))
    out["kw_excl"] = {"keywords": kws, "accepted": _w(acc_uq & SL.anyof(kws, ic=True), 4)}
    # G1: each public Token predicate holds exactly where the decoder method of the same class accepts
    g1 = {}
    for pred, dec in (("is_decimal", "decode_decimal"), ("is_non_decimal", "decode_non_decimal"), ("is_datetime", "decode_datetime"),
                      ("is_quoted_string", "decode_quoted_string"), ("is_simple_value", "decode_simple_value")):
        t = PE.run("Token", pred, rd.ctx)["T"]
        a = PE.accepts(rd.method(dec))
        g1[pred] = {"decoder": dec, "extra": _w(t - a, 2), "missing": _w(a - t, 2)}
    tn = PE.run("Token", "is_numeric", rd.ctx)["T"]
    both = PE.run("Token", "is_decimal", rd.ctx)["T"] | PE.run("Token", "is_non_decimal", rd.ctx)["T"]
    g1["is_numeric"] = {"decoder": "decode_decimal or decode_non_decimal", "extra": _w(tn - both, 2), "missing": _w(both - tn, 2)}
    out["g1"] = g1
    # WSC: the languages of the Token predicates the parser's skip helpers consult, against the grammar's tables
    want_c = SL.union([SL.startswith(o) & SL.endswith(c) for (o, c) in g.comments]) if g.comments else SL.EMPTY
    got_c = PE.run("Token", "is_comment", rd.ctx)["T"]
    want_s = SL.star(SL.syms([c for c in g.whitespace if len(c) == 1])) - SL.EPSILON
    got_s = PE.run("Token", "is_space", rd.ctx)["T"]
    out["wsc"] = {"comment_extra": _w(got_c - want_c, 2), "comment_missing": _w(want_c - got_c, 2),
                  "space_extra": _w(got_s - want_s, 2), "space_missing": _w(want_s - got_s, 2)}
    # is_WSC returns True at least for comments and white space (its tail over several comments is not classified:
    # lower bound of the True language, partial mode)
    rd2 = lang.Reader(repo, gcls, dcls)
    rd2.ctx.options["$partial"] = True
    try:
        low = PE.run("Token", "is_WSC", rd2.ctx)["T"]
        out["wsc"]["is_wsc_misses"] = _w((want_c | want_s) - low, 2)
    except PE.Unsupported as x:
        out["wsc"]["is_wsc_error"] = str(x)
    # UNITS-LANG: the units token <pcls>.parse_units accepts, and the units text it hands on
    if pcls is not None:
        d0, d1 = g.units_delimiters
        ws = SL.syms([c for c in g.whitespace if len(c) == 1])
        nodelim = ~SL.contains_any_char(SL.syms([d0, d1]))
        want = SL.concat(SL.concat(SL.lit(d0), nodelim), SL.lit(d1))
        try:
            acc, rej, probes, where = units_token_language(repo, pcls, PE.Ctx(repo, g, dcls))
            u = {"where": where, "extra": _w(acc - want, 3), "missing": _w(want - acc, 3), "probes": []}
            if probes is not None:
                wsrun = SL.star(ws)
                for label, X in (("m", SL.lit("m")), ("a b", SL.lit("a b")), ("any text of letters", SL.rx("[a-z]+")),
                                 ("empty", SL.EPSILON)):
                    got = probes(X) & acc
                    ref = SL.concat(SL.concat(SL.concat(SL.lit(d0), wsrun), SL.concat(X, wsrun)), SL.lit(d1)) & want
                    if not (got - ref).empty() or not (ref - got).empty():
                        u["probes"].append({"units": label, "also_from": _w(got - ref, 2), "not_from": _w(ref - got, 2)})
            else:
                u["probes_error"] = "the units text handed to decode_quantity is not a modelled transform of the token"
            out["units"] = u
        except PE.Unsupported as x:
            out["units"] = {"error": str(x)}
    # HOOK-LANG: the token in front of which the value repair hook of the parser supplies an empty value
    if pcls is not None:
        try:
            hctx = PE.Ctx(repo, g, dcls)
            hctx.options["$lenient"] = True          # book-keeping statements (self.errors.append(line)) do not decide the verdict
            acc, rej, _p, where = token_fn_language(repo, pcls, hctx, "parse_value_post_hook")
            want = SL.anyof(sorted(set(g.reserved_keywords) | set(g.delimiters)), ic=True)
            out["hook"] = {"where": where, "extra": _w(acc - want, 4), "missing": _w(want - acc, 4), "accepts_any": not acc.empty()}
        except PE.Unsupported as x:
            out["hook"] = {"error": str(x)}
    out["visited"] = sorted(set(rd.ctx.visited))
    return out


def rule_hook_lang(repo, res, an):
    """HOOK-LANG: per pairing, the value repair hook (parse_value_post_hook) supplies an empty value exactly in front of
    a reserved keyword or a statement delimiter of the grammar (any letter case) -- for the strict parsers the accepted
    language is empty (E2), for the permissive one it is that set and nothing more: an empty value in front of a
    bracket, comma or '=' would accept `(1, )` or `a = = 5`."""
    n = 0
    for r in an["readers"]:
        h = r.get("hook")
        if h is None:
            continue
        n += 1
        cfg = f"{r['config']}: {r['decoder']}/{r['grammar']}"
        if "error" in h:
            raise AnalysisError(f"HOOK-LANG {cfg}: {h['error']}")
        if not h["accepts_any"]:
            res.oblige("HOOK-LANG", f"{cfg}: {h['where']} supplies no empty value (strict)", ok=True)
            continue
        ok = not h["extra"] and not h["missing"]
        res.oblige("HOOK-LANG", f"{cfg}: {h['where']} supplies an empty value exactly before reserved keywords and statement delimiters", ok=ok)
        if h["extra"]:
            res.add(Finding("HOOK-LANG", h["where"], "empty value supplied before other tokens",
                            f"with {cfg}, parse_value_post_hook supplies an empty value in front of {h['extra']}, which are neither "
                            "reserved keywords nor statement delimiters: ill-formed text (an empty element of a sequence, a "
                            "doubled '=') is accepted and patched", witness=h["extra"][0], where="pvl/parser.py"))
        if h["missing"]:
            res.add(Finding("HOOK-LANG", h["where"], "no empty value before a keyword / delimiter",
                            f"with {cfg}, parse_value_post_hook does not supply an empty value in front of {h['missing']}",
                            witness=h["missing"][0], where="pvl/parser.py"))
    res.floor("HOOK-LANG pairings", n, 5)


def rule_units_lang(repo, res, an):
    """UNITS-LANG: per pairing, the token parse_units accepts is exactly <start delimiter> <text without either
    delimiter> <end delimiter>, and the units text handed to the decoder is that text without its leading/trailing
    white space (language equality; pre-images of strip / slice / partition).  A token that starts a second units
    expression inside the first, or has text after the end delimiter, is refused (thrown into the lexer), not
    silently shortened."""
    n = 0
    for r in an["readers"]:
        u = r.get("units")
        if u is None:
            continue
        n += 1
        cfg = f"{r['config']}: {r['decoder']}/{r['grammar']}"
        if "error" in u:
            raise AnalysisError(f"UNITS-LANG {cfg}: {u['error']}")
        ok = not u["extra"] and not u["missing"]
        res.oblige("UNITS-LANG", f"{cfg}: {u['where']} accepts exactly <delimiter> text-without-delimiters <delimiter>", ok=ok)
        if u["extra"]:
            res.add(Finding("UNITS-LANG", u["where"], "accepts a units token with a delimiter inside",
                            f"with {cfg}, parse_units accepts the tokens {u['extra']}: a units delimiter inside the units text (or "
                            "text outside the delimiters) is not refused, and the quantity is built from a shortened text",
                            witness=u["extra"][0], where="pvl/parser.py"))
        if u["missing"]:
            res.add(Finding("UNITS-LANG", u["where"], "refuses a well-formed units token",
                            f"with {cfg}, parse_units refuses the well-formed units expressions {u['missing']}",
                            witness=u["missing"][0], where="pvl/parser.py"))
        if "probes_error" in u:
            raise AnalysisError(f"UNITS-LANG {cfg}: {u['probes_error']}")
        res.oblige("UNITS-LANG", f"{cfg}: the units text handed to the decoder is the token's interior without surrounding white space", ok=not u["probes"])
        for pr in u["probes"]:
            res.add(Finding("UNITS-LANG", u["where"], "units text differs from the token's interior",
                            f"with {cfg}, the units text {pr['units']!r} is produced from {pr['also_from']} / not produced from "
                            f"{pr['not_from']}: the quantity carries other units than the text says", witness=(pr['also_from'] or pr['not_from'])[0],
                            where="pvl/parser.py"))
    res.floor("UNITS-LANG pairings", n, 5)


def analyse(repo):
    key = (repo.root, repo.digest())
    if key in _CACHE:
        return _CACHE[key]
    ejobs = [(repo.root, e, None, None) for e in lang.ENCODERS if repo.has_cls(e)]
    if len(ejobs) < 4:
        raise AnalysisError("anchor vanished: one of the four encoder classes")
    # encoder/grammar/decoder combinations bundled in pvl_validate.dialects that differ from the constructor defaults
    # the other value of every boolean constructor option the string-writing methods read
    vjobs = [(repo.root, e, None, None, {name: (not dflt)}) for e in lang.ENCODERS if repo.has_cls(e)
             for (name, dflt) in lang.string_path_flags(repo, e)]
    have = {(e,) + lang.encoder_pairing(repo, e) for (_, e, _, _) in ejobs}
    for (enc, g, d) in lang.dialect_encoder_pairings(repo):
        if (enc, g, d) not in have:
            have.add((enc, g, d))
            ejobs.append((repo.root, enc, g, d))
    rjobs = [(repo.root, c.name, c.grammar, c.decoder, c.parser) for c in tokproto.configs_from_repo(repo)]
    try:
        with ProcessPoolExecutor(max_workers=min(12, os.cpu_count() or 1)) as ex:
            fe = [ex.submit(_encoder_job, j) for j in ejobs]
            fv = [ex.submit(_encoder_job, j) for j in vjobs]
            fr = [ex.submit(_reader_job, j) for j in rjobs]
            enc = [f.result() for f in fe]
            var = [f.result() for f in fv]
            rd = [f.result() for f in fr]
    except (OSError, PermissionError):
        enc = [_encoder_job(j) for j in ejobs]
        var = [_encoder_job(j) for j in vjobs]
        rd = [_reader_job(j) for j in rjobs]
    out = {"encoders": enc, "readers": rd, "encoder_variants": var}
    _CACHE[key] = out
    return out


# ------------------------------------------------------------------ rules
def rule_s1(repo, res, an, which="own"):
    """Bare-string inclusion: what encode_string writes without quotes must come
    back unchanged from the reader; decided class by class with a witness."""
    rule = "S1" if which == "own" else "S1-OMNI"
    for e in an["encoders"] + an.get("encoder_variants", []):
        reader = f"{e['decoder']}/{e['grammar']}" if which == "own" else "OmniDecoder/OmniGrammar"
        if which != "own" and not e.get("default_pairing", True):
            continue
        ename = e["encoder"] if e.get("default_pairing", True) else f"{e['encoder']}({e['grammar']}, {e['decoder']})"
        if e.get("variant"):
            ename = f"{e['encoder']}({e['variant']})"
        e = dict(e, encoder=ename)
        for cname, ws in e["s1_" + which].items():
            ok = not ws
            res.oblige(rule, f"{e['encoder']}: bare strings ∩ '{cname}' of {reader} = ∅", ok=ok,
                       detail="" if ok else f"witnesses {ws}")
            if not ok:
                res.add(Finding(rule, f"{e['encoder']}.encode_string", cname,
                                f"{e['encoder']}.encode_string writes some strings without quotes that {reader} reads as "
                                f"'{cname}' instead of the same string, e.g. {ws}: the value changes type or the "
                                "statement is mis-parsed on reload", witness=ws[0]))
        rest = e["s1_" + which + "_rest"]
        res.oblige(rule, f"{e['encoder']}: every other bare string is returned unchanged by {reader}", ok=not rest)
        if rest:
            res.add(Finding(rule, f"{e['encoder']}.encode_string", "other",
                            f"bare strings such as {rest} are not returned unchanged by {reader}", witness=rest[0]))
        res.samples.append({"encoder": e["encoder"], "bare_language_states": e["bare_states"],
                            "bare_samples": e["bare_samples"], "functions_evaluated": e["visited"][:12]})
    res.floor(f"{rule} obligations", sum(len(e["s1_" + which]) for e in an["encoders"] if e.get("default_pairing", True)), 28)


def rule_s2(repo, res, an):
    an = dict(an, encoders=[e for e in an["encoders"] if e.get("default_pairing", True)])
    for e in an["encoders"]:
        for m, per in e["s2"].items():
            what = "parameter name" if m == "encode_assignment" else "block name"
            for cname, ws in per.items():
                ok = not ws
                res.oblige("S2", f"{e['encoder']}.{m}: no {what} of class '{cname}' reaches the output", ok=ok)
                if not ok:
                    res.add(Finding("S2", f"{e['encoder']}.{m}", cname,
                                    f"{e['encoder']}.{m} emits a {what} without checking it: text of class '{cname}' "
                                    f"(e.g. {ws}) is written as-is although {e['decoder']}/{e['grammar']} does not read it "
                                    "back as a parameter name, so the dumped text does not reload to the module",
                                    witness=ws[0]))


def rule_k1(repo, res, an):
    an = dict(an, encoders=[e for e in an["encoders"] if e.get("default_pairing", True)])
    """ODL/PDS3 parameter names: [^]identifier[:identifier], at most 30 characters."""
    for e in an["encoders"]:
        if e["encoder"] not in repo.subclasses("ODLEncoder"):
            continue
        ws = e["k1"]["encode_assignment"]
        res.oblige("K1", f"{e['encoder']}.encode_assignment accepts only [^]IDENT[:IDENT] keys of at most 30 characters", ok=not ws)
        if ws:
            res.add(Finding("K1", f"{e['encoder']}.encode_assignment", "key language",
                            f"{e['encoder']}.encode_assignment lets through keys such as {ws} that are not ODL identifiers "
                            "of at most 30 characters", witness=ws[0]))


def rule_g2(repo, res, an, directions=("token-only", "decoder-only")):
    for r in an["readers"]:
        cfg = f"{r['decoder']}/{r['grammar']}"
        for cname, ws in (r["g2_token_only_by_class"].items() if "token-only" in directions else ()):
            res.oblige("G2", f"{cfg}: Token.is_unquoted_string ∩ decoder class '{cname}' = ∅", ok=not ws)
            if ws:
                res.add(Finding("G2", "Token.is_unquoted_string", f"{cfg}: {cname}",
                                f"with {cfg}, Token.is_unquoted_string() is true for text the decoder classifies as "
                                f"'{cname}', e.g. {ws}: the public token predicate and the decoder disagree", witness=ws[0]))
        if "decoder-only" not in directions:
            continue
        ws = r["g2_decoder_only"]
        res.oblige("G2", f"{cfg}: every string the decoder returns through decode_unquoted_string satisfies Token.is_unquoted_string", ok=not ws)
        if ws:
            res.add(Finding("G2", "Token.is_unquoted_string", f"{cfg}: decoder-only",
                            f"with {cfg}, the decoder returns {ws} as unquoted strings but Token.is_unquoted_string() is false",
                            witness=ws[0]))
    res.floor("G2 pairings", len(an["readers"]), 5)


def rule_n1(repo, res, an):
    for r in an["readers"]:
        cfg = f"{r['decoder']}/{r['grammar']}"
        for cname, ws in r["n1"].items():
            res.oblige("N1", f"{cfg}: decode_decimal accepts no '{cname}' spelling", ok=not ws)
            if ws:
                res.add(Finding("N1", f"{r['decoder']}.decode_decimal", cname,
                                f"{r['decoder']}.decode_decimal hands the token text to int()/real_cls() unguarded, so "
                                f"spellings outside the dialect's numeric grammar are numbers: {ws} ({cname})",
                                witness=ws[0]))


def rule_tb8(repo, res, an):
    for r in an["readers"]:
        cfg = f"{r['decoder']}/{r['grammar']}"
        a, b = r["tb8_full_not_triggered"], r["tb8_trigger_not_completable"]
        res.oblige("TB8", f"{cfg}: every based integer the decoder accepts starts with a lexer trigger (nondecimal_pre_re)", ok=not a)
        res.oblige("TB8", f"{cfg}: every lexer trigger can be completed to a based integer", ok=not b)
        if a:
            res.add(Finding("TB8", f"grammar.{r['grammar']}", "decoder ⊄ lexer trigger",
                            f"{cfg}: based integers such as {a} are accepted by the decoder but do not start with a match "
                            "of nondecimal_pre_re, so the lexer splits them at '#'", witness=a[0]))
        if b:
            res.add(Finding("TB8", f"grammar.{r['grammar']}", "lexer trigger ⊄ decoder prefixes",
                            f"{cfg}: the lexer keeps '#' inside a lexeme after {b} but no based integer of the decoder "
                            "starts that way", witness=b[0]))


def rule_nondec_spec(repo, res, an):
    for r in an["readers"]:
        cfg = f"{r['decoder']}/{r['grammar']}"
        d = r["nondec_spec"]
        what = {"pvl": "radix 2, 8 or 16 with an optional sign in front (PVL)", "odl": "radix 2 to 16 with an optional sign after "
                "the first '#' (ODL)", "omni": "both the PVL and the ODL forms"}[d["family"]]
        res.oblige("NONDEC-SPEC", f"{cfg}: every based integer of the specification -- {what} -- is a based integer for the "
                                  "decoder (language inclusion)", ok=not d["missing"])
        if d["missing"]:
            res.add(Finding("NONDEC-SPEC", f"grammar.{r['grammar']}", "specified based integers not accepted",
                            f"{cfg}: based integers the dialect permits, e.g. {d['missing']}, are not accepted by "
                            f"{r['decoder']}.decode_non_decimal (they load as text or are refused)", witness=d["missing"][0]))


def rule_o2(repo, res, an):
    an = dict(an, encoders=[e for e in an["encoders"] if e.get("default_pairing", True)])
    """O2: the permissive reader deletes `P` = dash + line end (+ white space)
    from the whole document before lexing.  No encoder may be able to emit a
    bare value ending in a first character of P directly before a line end."""
    for e in an["encoders"]:
        enc = e["encoder"]
        if e.get("o2_pattern") is None:
            res.oblige("O2", f"{enc}: the permissive reader performs no whole-document rewrite", ok=True)
            continue
        clash = e["o2_clash"]
        # can the value be followed directly by a line end?  yes unless a statement delimiter is always written
        opts = lang.encoder_options(repo, enc)
        init_params = set()
        for c in repo.mro(enc):
            if not c.startswith("ext:") and "__init__" in repo.classes[c].methods:
                init_params = {a.arg for a in repo.classes[c].methods["__init__"].args.args}
                break
        delim_default = opts.get("end_delimiter")
        configurable = "end_delimiter" in init_params
        exposed = bool(clash) and (delim_default is False or configurable)
        by_default = bool(clash) and delim_default is False
        res.oblige("O2", f"{enc}: no bare value ending in {e['o2_first']} can directly precede a line end", ok=not exposed,
                   detail=f"clash={clash} end_delimiter default={delim_default} configurable={configurable}")
        if exposed:
            res.add(Finding("O2", f"{enc}.encode_string", "dash before line end" + (" (default options)" if by_default else " (end_delimiter=False)"),
                            f"{enc} writes strings ending in {clash} without quotes (e.g. {e['o2_witness']}) and "
                            + ("by default" if by_default else "when constructed with end_delimiter=False")
                            + f" no delimiter separates the value from the line end; the default loader first deletes "
                            f"{e['o2_pattern']!r} from the whole text, gluing the value to the next statement",
                            witness=(e["o2_witness"] or [None])[0]))


def rule_o1(repo, res, an):
    """O1: every comment opener and every character the permissive grammar adds
    to reserved_characters is, for each encoder grammar, reserved, or outside
    its character set -- otherwise a bare string of that encoder is cut or
    commented out by the permissive reader."""
    omni = tables.grammar_instance(repo, "OmniGrammar")
    for enc in lang.ENCODERS:
        gcls, dcls = lang.encoder_pairing(repo, enc)
        g = tables.grammar_instance(repo, gcls)
        allowed = set([e for e in an["encoders"] if e["encoder"] == enc and e.get("default_pairing", True)][0]["bare_alphabet"])
        own_openers = {p[0] for p in g.comments}
        for pair in omni.comments:
            op = pair[0]
            if op in own_openers:
                continue
            ok = all((ch in g.reserved_characters) or (ch not in allowed) for ch in op[:1])
            res.oblige("O1", f"{enc}: Omni comment opener {op!r} cannot occur in a bare string of {gcls}", ok=ok)
            if not ok:
                res.add(Finding("O1", f"grammar.{gcls}", f"comment opener {op!r}",
                                f"{op!r} opens a comment for the permissive reader, is not reserved in {gcls} and can "
                                f"occur in a string {enc} writes without quotes, which the default loader then cuts"))
        for ch in omni.reserved_characters:
            if ch in g.reserved_characters:
                continue
            ok = ch not in allowed
            res.oblige("O1", f"{enc}: character {ch!r} reserved by OmniGrammar cannot occur in a bare string of {gcls}", ok=ok)
            if not ok:
                res.add(Finding("O1", f"grammar.{gcls}", f"reserved character {ch!r}",
                                f"{ch!r} is reserved by OmniGrammar, unreserved in {gcls}, and can occur in a string "
                                f"{enc} writes without quotes: the default loader splits that string"))


def rule_lex1(repo, res, an, kinds=("decimal number", "based integer", "date/time")):
    """LEX1: the lexer never ends a lexeme inside a single value (see vsa.lexlang)."""
    for r in an["readers"]:
        cfg = f"{r['decoder']}/{r['grammar']}"
        lx = r["lex1"]
        res.samples.append({"LEX1": cfg, "atoms_of_the_lexer_decision": lx["atoms"], "continue_dfa_states": lx["continue_states"],
                            "yield_dfa_states": lx["yield_states"], "token_default_decoder": lx["default_token_decoder"]})
        for kind in kinds:
            cl = [c for c in lx["classes"] if c["kind"] == kind]
            res.oblige("LEX1", f"{cfg}: every {kind} the decoder accepts is lexed as one token", ok=not cl,
                       detail="; ".join(f"{c['witness']!r} -> {c['tokens']}" for c in cl))
            for c in cl:
                res.add(Finding("LEX1", "lexer.lex_continue", f"{cfg}: {kind} split between {c['between'][0]} and {c['between'][1]}",
                                f"with {cfg} the lexer ends a lexeme between {c['between'][0]} and {c['between'][1]} inside a "
                                f"{kind}: {c['witness']!r} is lexed as {c['tokens']} although the decoder accepts it as one value "
                                "(the end-of-lexeme decision -- lex_continue() and the yield condition of lexer() -- has no "
                                "exception for this spelling)", witness=c["witness"], where="pvl/lexer.py"))
    res.floor("LEX1 pairings", len(an["readers"]), 5)


def rule_dash(repo, res, an):
    """DASH: for the ODL-family decoders, the dash-continuation removal of decode_quoted_string ("the dash, the line
    end, and any leading whitespace on the next line") removes "-" followed by any format effector of the grammar and
    any run of the grammar's white space -- in particular a CR LF line end and the indentation after it (language
    inclusion on the pattern of the re.sub call)."""
    n = 0
    for r in an["readers"]:
        d = r.get("dash")
        if d is None:
            continue
        n += 1
        cfg = f"{r['decoder']}/{r['grammar']}"
        ok = not d["not_removed"]
        res.oblige("DASH", f"{cfg}: decode_quoted_string removes '-' + format effector + any white-space run ({d['patterns']})", ok=ok)
        if not ok:
            res.add(Finding("DASH", f"{r['decoder']}.decode_quoted_string", f"{cfg}: continuation not removed",
                            f"with {cfg}, the dash-continuation removal {d['patterns']} leaves {d['not_removed']} in place: a string "
                            "hyphenated across a line end (CR LF, or a blank continuation line) keeps part of the line end and is folded "
                            "to a blank inside the word", witness=d["not_removed"][0], where="pvl/decoder.py"))
        if d.get("conditional"):
            res.oblige("DASH", f"{cfg}: the dash-continuation removal does not hang on a test of the text", ok=False)
            res.add(Finding("DASH", f"{r['decoder']}.decode_quoted_string", f"{cfg}: removal is conditional",
                            f"with {cfg}, the dash-continuation removal runs only when `{d['conditional']}` holds: a pre-test on the text that "
                            "knows fewer line ends than the removal pattern (CR LF, CR, FF, VT) leaves the continuation in the string",
                            where="pvl/decoder.py"))
    res.floor("ODL-family decoders with a dash-continuation removal", n, 2)


def rule_fold(repo, res, an):
    """FOLD: inside quoted strings the ODL-family decoders fold and strip white space of the grammar only (space, tab
    and the format effectors).  Every other character -- including the characters Python's str.split()/strip() also
    treat as white space (FS/GS/RS/US, NEL, NBSP, ...) -- is content and comes back unchanged."""
    n = 0
    for r in an["readers"]:
        if r.get("fold") is None:
            continue
        n += 1
        cfg = f"{r['decoder']}/{r['grammar']}"
        ok = not r["fold"]
        res.oblige("FOLD", f"{cfg}: decode_quoted_string folds/strips only the grammar's white space", ok=ok)
        if not ok:
            res.add(Finding("FOLD", f"{r['decoder']}.decode_quoted_string", f"{cfg}: folds more than the grammar's white space",
                            f"with {cfg}: " + "; ".join(r["fold"]) + " -- such characters are legal content of a string in this dialect and "
                            "are turned into a blank (or dropped at the ends) on load", where="pvl/decoder.py"))
    res.floor("ODL-family decoders with white-space folding", n, 2)


def rule_kw_excl(repo, res, an):
    """KW-EXCL: decode_unquoted_string refuses every begin/end block keyword of the grammar's aggregation_keywords
    table and every END statement, in any letter case (language intersection per pairing).  A keyword that is
    accepted as a value is swallowed by the statement before it: `b =` followed by `GROUP = g` reads GROUP as the
    value of b."""
    for r in an["readers"]:
        cfg = f"{r['decoder']}/{r['grammar']}"
        w = r["kw_excl"]["accepted"]
        res.oblige("KW-EXCL", f"{cfg}: no block keyword / END statement ({len(r['kw_excl']['keywords'])}) is accepted as an unquoted string", ok=not w)
        if w:
            res.add(Finding("KW-EXCL", f"{r['decoder']}.decode_unquoted_string", f"{cfg}: accepts block keywords",
                            f"with {cfg}, decode_unquoted_string accepts {w} although they are block keywords / END statements of the "
                            "grammar: a value position swallows the keyword that starts the next statement (a missing value is not "
                            "recognised, a block is not opened)", witness=w[0], where="pvl/decoder.py"))


def rule_g1_lang(repo, res, an):
    """G1: Token.is_decimal / is_non_decimal / is_datetime / is_quoted_string / is_simple_value hold exactly for the
    texts the decoder method of the same class accepts (does not raise ValueError), and is_numeric is the union of
    the two numeric ones -- per pairing, by language equality."""
    for r in an["readers"]:
        cfg = f"{r['decoder']}/{r['grammar']}"
        for pred, d in r["g1"].items():
            ok = not d["extra"] and not d["missing"]
            res.oblige("G1", f"{cfg}: Token.{pred} == ({d['decoder']} accepts)", ok=ok)
            if not ok:
                w = d["extra"] or d["missing"]
                res.add(Finding("G1", f"Token.{pred}", f"{cfg}: differs from {d['decoder']}",
                                f"with {cfg}, Token.{pred}() is {'true' if d['extra'] else 'false'} for {w} while {d['decoder']} "
                                f"{'rejects' if d['extra'] else 'accepts'} them: the public predicate and the decoder classify the "
                                "same text differently", witness=w[0], where="pvl/token.py"))


def rule_lookahead_lang(repo, res, an):
    """LEX-LOOKAHEAD (language form): whenever the look-ahead character is outside the dialect's character set the
    lexer ends the lexeme there (the text x = lexeme + next is in the yield language of the model): END directly
    followed by binary data is returned as END, and the parser asks for nothing more."""
    for r in an["readers"]:
        cfg = f"{r['decoder']}/{r['grammar']}"
        w = r["lex1"]["lookahead_not_ended"]
        res.oblige("LEX-LOOKAHEAD", f"{cfg}: a lexeme is ended before any character outside the character set", ok=not w)
        if w:
            res.add(Finding("LEX-LOOKAHEAD", "lexer.lexer", f"{cfg}: lexeme not ended before a disallowed character",
                            f"with {cfg} the lexer keeps accumulating when the next character is outside the dialect's set, e.g. "
                            f"after {[x[:-1] for x in w]} followed by {[x[-1] for x in w]}: the end-of-lexeme decision does not test "
                            "the look-ahead character (END directly followed by binary data raises instead of returning the label)",
                            witness=w[0], where="pvl/lexer.py"))


def rule_wsc_lang(repo, res, an):
    """WSC-LANG: Token.is_comment holds exactly for the texts that start with the opener and end with the closer of
    one and the same pair of grammar.comments, and Token.is_space exactly for the non-empty runs of the grammar's
    white-space characters -- per pairing, by language equality (is_WSC, which the parser's skip helpers consult,
    returns True on these two; its shape is rule WSC)."""
    for r in an["readers"]:
        cfg = f"{r['decoder']}/{r['grammar']}"
        w = r["wsc"]
        for pred, extra, missing in (("is_comment", "comment_extra", "comment_missing"), ("is_space", "space_extra", "space_missing")):
            ok = not w[extra] and not w[missing]
            res.oblige("WSC-LANG", f"{cfg}: Token.{pred} holds exactly for the {'comments' if pred == 'is_comment' else 'white space'} of the grammar", ok=ok)
            if w[extra]:
                res.add(Finding("WSC-LANG", f"Token.{pred}", f"{cfg}: accepts more",
                                f"with {cfg}, Token.{pred}() is true for {w[extra]}, which is neither a comment of the grammar "
                                "(opener and closer of one pair) nor white space: the parser's skip helpers discard such a "
                                "token silently, so text that is not a comment disappears from the label", witness=w[extra][0],
                                where="pvl/token.py"))
            if pred == "is_space":
                if "is_wsc_error" in w:
                    raise AnalysisError(f"WSC-LANG: Token.is_WSC is not in the evaluator's vocabulary: {w['is_wsc_error']}")
                ok2 = not w.get("is_wsc_misses")
                res.oblige("WSC-LANG", f"{cfg}: Token.is_WSC is true (at least) for every comment and every white-space run", ok=ok2)
                if not ok2:
                    res.add(Finding("WSC-LANG", "Token.is_WSC", f"{cfg}: misses comments or white space",
                                    f"with {cfg}, Token.is_WSC() does not return True for {w['is_wsc_misses']}: the parser's skip helpers "
                                    "stop at such a token and it is taken for a significant token", witness=w["is_wsc_misses"][0],
                                    where="pvl/token.py"))
            if w[missing]:
                res.add(Finding("WSC-LANG", f"Token.{pred}", f"{cfg}: accepts less",
                                f"with {cfg}, Token.{pred}() is false for {w[missing]}, a comment or white space of the grammar: "
                                "the skip helpers stop at it and the parser takes it for a significant token", witness=w[missing][0],
                                where="pvl/token.py"))


def rule_q1(repo, res, an):
    """Q1: what the encoders write as a quoted string (quote + text without that quote + quote, including the empty
    text) is a quoted string for every bundled decoder; and decode_quoted_string returns exactly the text between
    the quotes (value[1:-1])."""
    import ast
    for r in an["readers"]:
        cfg = f"{r['decoder']}/{r['grammar']}"
        for q, ws in r["q1"].items():
            res.oblige("Q1", f"{cfg}: every {q}...{q} text is accepted by decode_quoted_string", ok=not ws)
            if ws:
                res.add(Finding("Q1", f"{r['decoder']}.decode_quoted_string", f"{cfg}: {q}-quoted",
                                f"with {cfg}, decode_quoted_string rejects {ws}, texts of the form quote + content + quote that "
                                "the encoders write for strings: a quoted string is not read back as a string", witness=ws[0]))
    fn = repo.method("PVLDecoder", "decode_quoted_string")
    rets = [x for x in ast.walk(fn) if isinstance(x, ast.Return) and x.value is not None]
    ok = False
    for x in rets:
        for sub in ast.walk(x.value):
            if isinstance(sub, ast.Subscript) and isinstance(sub.slice, ast.Slice) and norm(sub.slice.lower or ast.Constant(value=0)) == "1" \
                    and sub.slice.upper is not None and norm(sub.slice.upper) == "-1" and sub.slice.step is None:
                ok = True
    res.oblige("Q1", "PVLDecoder.decode_quoted_string returns value[1:-1] (exactly the text between the quotes)", ok=ok)
    if not ok:
        res.add(Finding("Q1", "PVLDecoder.decode_quoted_string", "value[1:-1]",
                        "decode_quoted_string no longer returns exactly the text between the two quote characters",
                        where=f"pvl/decoder.py:{fn.lineno}"))
