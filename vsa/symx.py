"""Outcome enumeration of a small function: which value it returns on which combination of "this call raised that".

A path-forking abstract interpreter over constants (True / False / None / strings / numbers, tuples of them, and
UNKNOWN).  Calls to private functions of the same module (or methods of the same class) are interpreted in place;
every other call selected by *interesting* forks into "returns normally" and "raises <C>" for each exception class
a handler on the dynamic stack of ``try`` statements names, plus one class no handler names ($OTHER) -- so each
``except`` clause is entered from each call it can guard.  Nothing is executed; no solver.

Used by the rules on pvl_validate.pvl_flavor (verdict flags per raising call) where the previous rule matched the
statement order of the function.
"""
import ast

from .core import AnalysisError, norm

UNKNOWN = ("$unknown",)
MAX_PATHS = 4000
OTHER = "$OTHER"


class Out:
    def __init__(self, kind, value, events):
        self.kind, self.value, self.events = kind, value, list(events)      # kind: return | raise

    def __repr__(self):
        return f"{self.kind} {self.value!r} after {self.events}"


class _Ret(Exception):
    def __init__(self, v):
        self.v = v


class _Exc(Exception):
    def __init__(self, cls):
        self.cls = cls


class SymX:
    def __init__(self, repo, module, interesting, cls=None, terms=False):
        from .tokproto import ExcLattice
        self.repo, self.module, self.interesting, self.cls = repo, module, interesting, cls
        self.cur_module = module
        self.terms = terms          # term mode: non-constant values are expression terms over the parameters ($name)
        self.lat = ExcLattice(repo)
        self.paths = 0

    # ------------------------------------------------------------------ values
    def ev(self, e, env):
        v = self.ev0(e, env)
        if v is UNKNOWN and self.terms:
            return self.term(e, env)
        return v

    def term(self, e, env):
        """expression term over the parameters: ('t', text): the expression with every local name replaced by its
        current value (itself a term or a constant) and every package-level function name qualified by its module"""
        if isinstance(e, ast.Lambda):
            return ("lam", e, dict(env))
        from .inline import clone
        me = self

        class Sub(ast.NodeTransformer):
            def visit_Name(self, n):
                if n.id in env:
                    return ast.Name(id=_atom(show(env[n.id])), ctx=ast.Load())
                r = me.resolve_fn(n.id, env.get("$module", me.module))
                if r is not None:
                    return ast.Name(id=f"{r[0]}.{n.id}", ctx=ast.Load())
                return n

            def visit_Lambda(self, n):
                return ast.Name(id="<lambda>", ctx=ast.Load())

            def visit_Call(self, n):
                args = []
                for a in n.args:
                    if isinstance(a, ast.Starred) and isinstance(a.value, ast.Name) and isinstance(env.get(a.value.id), tuple) \
                            and env[a.value.id][:1] == ("tuple",):
                        args += [ast.Name(id=_atom(show(x)), ctx=ast.Load()) for x in env[a.value.id][1:]]      # *args spelled out
                    else:
                        args.append(a)
                n.args = args
                self.generic_visit(n)
                if isinstance(n.func, ast.Name) and n.func.id in ("dict", "list", "tuple") and not n.args and not n.keywords:
                    return {"dict": ast.Dict(keys=[], values=[]), "list": ast.List(elts=[], ctx=ast.Load()),
                            "tuple": ast.Tuple(elts=[], ctx=ast.Load())}[n.func.id]       # the empty literal it builds
                return n

            def visit_comprehension(self, n):
                return n
        return ("t", ast.unparse(Sub().visit(clone(e))))

    def resolve_fn(self, name, module):
        """a name used in *module* that denotes a function of the package -> (module, FunctionDef) or None"""
        m = self.repo.module(module)
        if name in m.functions:
            return module, m.functions[name]
        if name in m.imports:
            mod, orig = m.imports[name]
            tgt = None
            if mod in (self.repo.PKG, "."):
                tgt = "__init__"
            elif mod.startswith("." ) or mod.startswith(self.repo.PKG + "."):
                tgt = mod.lstrip(".").split(".")[-1]
            if tgt and tgt in self.repo.modules and orig in self.repo.module(tgt).functions:
                return tgt, self.repo.module(tgt).functions[orig]
        return None

    def ev0(self, e, env):
        if isinstance(e, ast.Constant):
            return e.value
        if isinstance(e, ast.Name):
            return env.get(e.id, UNKNOWN)
        if isinstance(e, ast.Tuple):
            return ("tuple",) + tuple(self.ev(x, env) for x in e.elts)
        if isinstance(e, ast.UnaryOp) and isinstance(e.op, ast.Not):
            v = self.ev(e.operand, env)
            return UNKNOWN if (v is UNKNOWN or is_term(v)) else (not v)
        if isinstance(e, ast.Compare) and len(e.ops) == 1:
            a, b = self.ev(e.left, env), self.ev(e.comparators[0], env)
            if a is UNKNOWN or b is UNKNOWN or is_term(a) or is_term(b):
                return UNKNOWN
            op = e.ops[0]
            try:
                return {ast.Is: lambda: a is b, ast.IsNot: lambda: a is not b, ast.Eq: lambda: a == b, ast.NotEq: lambda: a != b,
                        ast.Lt: lambda: a < b, ast.LtE: lambda: a <= b, ast.Gt: lambda: a > b, ast.GtE: lambda: a >= b}[type(op)]()
            except (KeyError, TypeError):
                return UNKNOWN
        if isinstance(e, ast.BoolOp):
            vals = [self.ev(v, env) for v in e.values]
            if any(v is UNKNOWN or is_term(v) for v in vals):
                return UNKNOWN
            r = vals[0]
            for v in vals[1:]:
                r = (r and v) if isinstance(e.op, ast.And) else (r or v)
            return r
        if isinstance(e, ast.IfExp):
            t = self.ev(e.test, env)
            if t is UNKNOWN or is_term(t):
                return UNKNOWN
            return self.ev(e.body if t else e.orelse, env)
        return UNKNOWN

    # ------------------------------------------------------------------ calls inside expressions
    def calls_in(self, e):
        """Call nodes of an expression in evaluation order (inner first)"""
        out = []

        def walk(n):
            if isinstance(n, (ast.Lambda, ast.GeneratorExp, ast.ListComp, ast.DictComp, ast.SetComp)):
                return
            for ch in ast.iter_child_nodes(n):
                walk(ch)
            if isinstance(n, ast.Call):
                out.append(n)
        walk(e)
        return out

    def local_fn(self, call, env=None):
        f = call.func
        if self.terms and env is not None and isinstance(f, ast.Name) and is_term(env.get(f.id)) and env[f.id][0] == "t" and self.cls:
            # a parameter that holds a bound method of the object under analysis: function(*args) with function = self._x
            txt = env[f.id][1]
            if txt.startswith("$self.") and txt[6:].isidentifier():
                c, fn = self.repo.resolve_method(self.cls, txt[6:])
                if fn is not None and txt[6:].startswith("_"):
                    static = "staticmethod" in self.repo.classes[c].decorators.get(txt[6:], [])
                    return fn, not static, self.repo.classes[c].module.name
        if self.terms:
            if isinstance(f, ast.Name) and f.id.startswith("_"):
                r = self.resolve_fn(f.id, self.cur_module)
                if r is not None:
                    return r[1], False, r[0]
            # a private method of the object under analysis (resolved through the MRO; static methods take no self)
            if isinstance(f, ast.Attribute) and isinstance(f.value, ast.Name) and f.value.id == "self" and self.cls \
                    and f.attr.startswith("_") and not f.attr.startswith("__"):
                c, fn = self.repo.resolve_method(self.cls, f.attr)
                if fn is not None:
                    static = "staticmethod" in self.repo.classes[c].decorators.get(f.attr, [])
                    return fn, not static, self.repo.classes[c].module.name
            return None
        if isinstance(f, ast.Name) and f.id in self.repo.module(self.module).functions:
            return self.repo.module(self.module).functions[f.id], False
        if isinstance(f, ast.Attribute) and isinstance(f.value, ast.Name) and f.value.id == "self" and self.cls:
            c, fn = self.repo.resolve_method(self.cls, f.attr)
            if fn is not None:
                return fn, True
        return None

    # ------------------------------------------------------------------ execution: continuation-passing over statement lists
    def run(self, fn, args=None, depth=0):
        """-> list of Out"""
        params = [a.arg for a in fn.args.args] + [a.arg for a in fn.args.kwonlyargs]
        if fn.args.vararg:
            params.append(fn.args.vararg.arg)
        if fn.args.kwarg:
            params.append(fn.args.kwarg.arg)
        env = {p: (("t", "$" + p) if self.terms else UNKNOWN) for p in params}
        env.update(args or {})
        outs = []
        self.exec_block(list(fn.body), env, [], [], outs, lambda env2, ev2: outs.append(Out("return", None, ev2)), depth)
        return outs

    def exec_block(self, stmts, env, events, handlers, outs, k, depth):
        """handlers: stack of (handler list, env-sensitive continuation) frames; k: continuation(env, events)"""
        self.paths += 1
        if self.paths > MAX_PATHS:
            raise AnalysisError("symx: path budget exceeded")
        if not stmts:
            return k(env, events)
        s, rest = stmts[0], stmts[1:]
        nxt = lambda env2, ev2: self.exec_block(rest, env2, ev2, handlers, outs, k, depth)
        if isinstance(s, ast.Expr):
            if isinstance(s.value, ast.Constant):
                return nxt(env, events)
            return self.eval_calls(s.value, env, events, handlers, outs, lambda v, env2, ev2: nxt(env2, ev2), depth)
        if isinstance(s, ast.Assign):
            def after(v, env2, ev2, s=s):
                env3 = dict(env2)
                for t in s.targets:
                    if isinstance(t, ast.Name):
                        env3[t.id] = v
                    elif isinstance(t, ast.Tuple):
                        items = v[1:] if isinstance(v, tuple) and v and v[0] == "tuple" and len(v) - 1 == len(t.elts) else [UNKNOWN] * len(t.elts)
                        for el, iv in zip(t.elts, items):
                            if isinstance(el, ast.Name):
                                env3[el.id] = iv
                return nxt(env3, ev2)
            return self.eval_calls(s.value, env, events, handlers, outs, after, depth)
        if isinstance(s, ast.AugAssign):
            env3 = dict(env)
            if isinstance(s.target, ast.Name):
                env3[s.target.id] = UNKNOWN
            return nxt(env3, events)
        if isinstance(s, ast.Return):
            if s.value is None:
                return self.do_return(None, env, events, handlers, outs)
            return self.eval_calls(s.value, env, events, handlers, outs,
                                   lambda v, env2, ev2: self.do_return(v, env2, ev2, handlers, outs), depth)
        if isinstance(s, ast.Raise):
            if s.exc is None:
                cls = env.get("$handling", "Exception")
            else:
                tgt = s.exc.func if isinstance(s.exc, ast.Call) else s.exc
                cls = norm(tgt).split(".")[-1]
                if isinstance(s.exc, ast.Name) and isinstance(env.get(s.exc.id), tuple) and env[s.exc.id][:1] == ("exc",):
                    cls = env[s.exc.id][1]
            return self.do_raise(cls, env, events, handlers, outs)
        if isinstance(s, ast.If):
            def branch(v, env2, ev2, s=s):
                if v is UNKNOWN or is_term(v):
                    txt = show(v) if is_term(v) else norm(s.test, 50)
                    self.exec_block(list(s.body) + rest, env2, ev2 + [("if", txt, True)], handlers, outs, k, depth)
                    self.exec_block(list(s.orelse) + rest, env2, ev2 + [("if", txt, False)], handlers, outs, k, depth)
                elif v:
                    self.exec_block(list(s.body) + rest, env2, ev2, handlers, outs, k, depth)
                else:
                    self.exec_block(list(s.orelse) + rest, env2, ev2, handlers, outs, k, depth)
            return self.eval_calls(s.test, env, events, handlers, outs, branch, depth)
        if isinstance(s, ast.Try):
            frame = {"try": s, "rest": rest, "k": k, "handlers": handlers}
            inner_k = lambda env2, ev2: self.exec_block(list(s.orelse) + list(s.finalbody) + rest, env2, ev2, handlers, outs, k, depth)
            return self.exec_block(list(s.body), env, events, handlers + [frame], outs, inner_k, depth)
        if isinstance(s, (ast.With, ast.AsyncWith)):
            if self.terms:
                env = dict(env)
                for it in s.items:
                    if isinstance(it.optional_vars, ast.Name):
                        env[it.optional_vars.id] = ("t", "_with_(" + show(self.term(it.context_expr, env)) + ")")
            return self.exec_block(list(s.body) + rest, env, events, handlers, outs, k, depth)
        if isinstance(s, (ast.For, ast.While, ast.AsyncFor)):
            # zero or one iteration, then everything the loop assigns is unknown
            env3 = dict(env)
            for n in ast.walk(s):
                if isinstance(n, ast.Name) and isinstance(n.ctx, ast.Store):
                    env3[n.id] = UNKNOWN
            return nxt(env3, events)
        if isinstance(s, ast.FunctionDef) and self.terms:
            env3 = dict(env)
            env3[s.name] = ("lam", s, env3)
            return nxt(env3, events)
        if isinstance(s, (ast.Pass, ast.Import, ast.ImportFrom, ast.Global, ast.Nonlocal, ast.Assert, ast.Delete, ast.FunctionDef,
                          ast.ClassDef, ast.AnnAssign)):
            return nxt(env, events)
        raise AnalysisError(f"symx: statement {type(s).__name__} not interpreted")

    def do_return(self, v, env, events, handlers, outs):
        # a return leaves all enclosing try frames of THIS function: frames carry the function boundary marker
        for fr in reversed(handlers):
            if "fn_return" in fr:
                return fr["fn_return"](v, env, events)
        outs.append(Out("return", v, events))

    def do_raise(self, cls, env, events, handlers, outs):
        hs = list(handlers)
        while hs:
            fr = hs.pop()
            if "fn_return" in fr:
                env = fr.get("caller_env", env)   # function boundary: the exception propagates to the caller's frames
                continue
            t = fr["try"]
            for h in t.handlers:
                names = None if h.type is None else [self._exc_name(x, env) for x in (h.type.elts if isinstance(h.type, ast.Tuple) else [h.type])]
                if names is None or any(self.matches(cls, n) for n in names):
                    env2 = dict(env)
                    env2["$handling"] = cls
                    if h.name:
                        env2[h.name] = ("exc", cls)
                    return self.exec_block(list(h.body) + list(t.finalbody) + fr["rest"], env2,
                                           events + [("caught", cls, "bare" if names is None else "/".join(names))],
                                           fr["handlers"], outs, fr["k"], 0)
        outs.append(Out("raise", cls, events))

    def _exc_name(self, x, env):
        """class named by a handler's type expression; a local that holds an exception class (a parameter default)"""
        if isinstance(x, ast.Name) and is_term(env.get(x.id)) and env[x.id][0] == "t":
            return env[x.id][1].split(".")[-1]
        return norm(x).split(".")[-1]

    def matches(self, cls, handler):
        if cls == OTHER:
            return handler in ("Exception", "BaseException")
        return self.lat.issub(cls, handler)

    def candidate_classes(self, handlers):
        names = []
        for fr in handlers:
            if "try" not in fr:
                continue
            for h in fr["try"].handlers:
                if h.type is not None:
                    names += [norm(x).split(".")[-1] for x in (h.type.elts if isinstance(h.type, ast.Tuple) else [h.type])]
        out = []
        for n in names + [OTHER]:
            if n not in out:
                out.append(n)
        return out

    def closure_of(self, c, env):
        f = c.func
        if isinstance(f, ast.Name) and isinstance(env.get(f.id), tuple) and env[f.id][:1] == ("lam",):
            return env[f.id]
        return None

    def eval_calls(self, e, env, events, handlers, outs, k, depth):
        """evaluate expression e: interpret local helper calls, fork interesting calls; then k(value, env, events)"""
        self.cur_module = env.get("$module", self.module)
        if self.terms:
            # a conditional expression inside a larger expression: decide it, or fork on its test
            ife = next((n for n in self._walk_noscope(e) if isinstance(n, ast.IfExp)), None)
            if ife is not None and ife is not e:
                def chosen(v, env2, ev2):
                    if v is UNKNOWN or is_term(v):
                        txt = show(v) if is_term(v) else norm(ife.test, 50)
                        self.eval_calls(_swap(e, ife, ife.body), env2, ev2 + [("if", txt, True)], handlers, outs, k, depth)
                        self.eval_calls(_swap(e, ife, ife.orelse), env2, ev2 + [("if", txt, False)], handlers, outs, k, depth)
                    else:
                        self.eval_calls(_swap(e, ife, ife.body if v else ife.orelse), env2, ev2, handlers, outs, k, depth)
                return self.eval_calls(ife.test, env, events, handlers, outs, chosen, depth)
        calls = [c for c in self.calls_in(e) if self.local_fn(c, env) is not None or self.interesting(c) or self.closure_of(c, env)]
        if not calls:
            return k(self.ev(e, env), env, events)
        c = calls[0]

        def resume(v, env2, ev2):
            # replace the call by a fresh name bound to its value and continue with the remaining calls
            name = f"$c{id(c)}"
            env3 = dict(env2)
            env3[name] = v
            e2 = _swap(e, c, ast.Name(id=name, ctx=ast.Load()))
            return self.eval_calls(e2, env3, ev2, handlers, outs, k, depth)
        lf = self.local_fn(c, env)
        clo = self.closure_of(c, env) if lf is None else None
        if (lf is not None or clo is not None) and depth < 8:
            if lf is not None:
                fn, is_method = lf[0], lf[1]
                base = {"$module": lf[2]} if len(lf) > 2 else {}
            else:
                fn, is_method, base = clo[1], False, dict(clo[2])
            params = [a.arg for a in fn.args.args]
            if is_method:
                params = params[1:]
            cenv = dict(base)
            if is_method and "self" in env:
                cenv["self"] = env["self"]
            cenv.update({p: UNKNOWN for p in params})
            actual = []
            for a in c.args:
                if isinstance(a, ast.Starred):
                    v = self.ev(a.value, env)
                    if isinstance(v, tuple) and v[:1] == ("tuple",):
                        actual.extend(v[1:])
                    else:
                        actual.append(UNKNOWN)
                else:
                    actual.append(self.ev(a, env))
            for p, v in zip(params, actual):
                cenv[p] = v
            if getattr(fn.args, "vararg", None) is not None:
                cenv[fn.args.vararg.arg] = ("tuple",) + tuple(actual[len(params):])
            for ka, kd in zip(getattr(fn.args, "kwonlyargs", []), getattr(fn.args, "kw_defaults", [])):
                if ka.arg not in [kw.arg for kw in c.keywords] and kd is not None:
                    cenv[ka.arg] = self.ev(kd, {})
            for kw in c.keywords:
                if kw.arg:
                    cenv[kw.arg] = self.ev(kw.value, env)
            for p, dflt in zip(params[len(params) - len(fn.args.defaults):], fn.args.defaults):
                if cenv.get(p) is UNKNOWN and p not in [kw.arg for kw in c.keywords] and params.index(p) >= len(c.args):
                    cenv[p] = self.ev(dflt, {})
            if fn.args.kwarg and self.terms:
                extra = [kw for kw in c.keywords if kw.arg is None or kw.arg not in params]
                if len(extra) == 1 and extra[0].arg is None:
                    cenv[fn.args.kwarg.arg] = self.ev(extra[0].value, env)      # **kwargs passed through unchanged
                elif extra:
                    cenv[fn.args.kwarg.arg] = ("t", "{" + ", ".join((repr(kw.arg) + ": " if kw.arg else "**") + show(self.ev(kw.value, env))
                                                                      for kw in extra) + "}")
                else:
                    cenv[fn.args.kwarg.arg] = ("t", "{}")
            frame = {"fn_return": lambda v, _env, ev2: resume(v, env, ev2), "caller_env": env}
            if isinstance(fn, ast.Lambda):
                return self.eval_calls(fn.body, cenv, events, handlers + [frame], outs, lambda v, _e, ev2: resume(v, env, ev2), depth + 1)
            return self.exec_block(list(fn.body), cenv, events + [("enter", fn.name)], handlers + [frame], outs,
                                   lambda _env, ev2: resume(None, env, ev2), depth + 1)
        # an interesting external call: returns normally, or raises each candidate class
        tag = norm(c.func, 60)
        val = self.term(c, env) if self.terms else UNKNOWN
        resume(val, env, events + [("ok", tag)])
        for cls in self.candidate_classes(handlers):
            self.do_raise(cls, env, events + [("raises", tag, cls)], handlers, outs)

    @staticmethod
    def _walk_noscope(e):
        todo = [e]
        while todo:
            n = todo.pop(0)
            yield n
            if isinstance(n, (ast.Lambda, ast.GeneratorExp, ast.ListComp, ast.DictComp, ast.SetComp)):
                continue
            todo.extend(ast.iter_child_nodes(n))


def _swap(expr, old, new):
    from .inline import _swap as sw
    return sw(expr, old, new)


def _atom(text):
    """text usable as an operand: parenthesised when it has an operator at bracket depth 0"""
    depth = 0
    for ch in text:
        if ch in "([{":
            depth += 1
        elif ch in ")]}":
            depth -= 1
        elif ch == " " and depth == 0:
            return "(" + text + ")"
    return text


def is_term(v):
    return isinstance(v, tuple) and v[:1] in (("t",), ("lam",))


def show(v):
    if isinstance(v, tuple) and v[:1] == ("t",):
        return v[1]
    if isinstance(v, tuple) and v[:1] == ("tuple",):
        return "(" + ", ".join(show(x) for x in v[1:]) + ")"
    if isinstance(v, tuple) and v[:1] == ("lam",):
        return "<lambda>"
    if v is UNKNOWN:
        return "_unknown_"
    return repr(v)
