"""LEX1 -- language model of the lexer's end-of-lexeme decision (C03).

For one (grammar, decoder) pairing, the set of prefixes at which lexer() ends a lexeme although more characters
follow is a regular language: it is derived from the AST of lex_continue() (language C of prefixes lexeme+next_char
for which accumulation continues) and from the yield condition in lexer() (language Y), both as DFAs over
x = lexeme . next_char.  Obligation: no string the decoder accepts as ONE value (decimal, based integer, date/time
with zone suffix) has a proper prefix in (Y - C) outside the '#...#' preservation state -- otherwise the lexer
splits a single value into two tokens.  Shortest witness on failure.

Hand-modelled (stated, and checked structurally where cheap): lexeme accumulation (no white space inside such
values), and the NONDECIMAL preservation state entered at '#' when nondecimal_pre_re fully matches lexeme + '#'.
"""
import ast

from .core import AnalysisError, norm
from . import strlang as SL, predeval as PE, lang, tables

SIGMA = SL.EVERYTHING
ANY1 = SL.length_eq(1)


def right_quotient(d, k):
    """{x : x.k in L(d)}"""
    acc = set()
    for s in range(len(d.trans)):
        t = s
        for ch in k:
            t = d.trans[t][SL.IDX[SL.rep_of(ch)]]
        if t in d.accept:
            acc.add(s)
    return SL.DFA(d.trans, acc).minimize()


def last_in(cs):
    return SL.last_in(cs)


def penultimate_in(cs):
    return SL.concat(SL.last_in(cs), ANY1)


class LexModel:
    def __init__(self, repo, gcls, dcls):
        self.repo, self.gcls, self.dcls = repo, gcls, dcls
        self.g = tables.grammar_instance(repo, gcls)
        self.allowed = lang.allowed_syms(repo, gcls)
        # Token(..., grammar=g) without a decoder consults Token's default decoder class
        rd0 = lang.Reader(repo, gcls, dcls)
        self.default_dcls = rd0.ctx.token_default_decoder()
        self.readers = {dcls: rd0}
        if self.default_dcls != dcls:
            self.readers[self.default_dcls] = lang.Reader(repo, gcls, self.default_dcls)
        self.atoms = []
        self.bools = {}
        self.uses_continue = False
        self.depth = 0

    # ------------------------------------------------------------ symbols
    def predicate_lang(self, pred, dcls):
        rd = self.readers[dcls]
        return PE.run("Token", pred, rd.ctx)["T"]

    def parts(self, e, sym):
        """string-building expression -> list of symbols / constants"""
        if isinstance(e, ast.BinOp) and isinstance(e.op, ast.Add):
            return self.parts(e.left, sym) + self.parts(e.right, sym)
        if isinstance(e, ast.Name) and e.id in sym:
            return [sym[e.id]]
        if isinstance(e, ast.Constant) and isinstance(e.value, str):
            return [("K", e.value)]
        raise AnalysisError(f"LEX1: string expression `{norm(e)}` not in the lexer-model vocabulary")

    def member(self, e, L, sym):
        """language over x = lexeme.next of `e in L`"""
        ps = self.parts(e, sym)
        shape = tuple(p if isinstance(p, str) else "K" for p in ps)
        if shape == ("LEXEME", "NEXT"):
            return L
        if shape == ("LEXEME", "NEXT", "K"):
            return right_quotient(L, ps[2][1])
        if shape == ("CHAR", "NEXT"):
            return SL.concat(SIGMA, L & SL.length_eq(2))
        if shape == ("LEXEME",):
            return SL.concat(L, ANY1)
        if shape == ("LEXEME", "CHAR"):
            raise AnalysisError("LEX1: lexeme + char is only meaningful before the character is appended")
        raise AnalysisError(f"LEX1: string expression shape {shape} not in the lexer-model vocabulary")

    def table(self, e, sym):
        """concrete table expression over the grammar parameter"""
        if isinstance(e, ast.Constant) and isinstance(e.value, str):
            return (e.value,)
        if isinstance(e, (ast.Tuple, ast.List)) and all(isinstance(x, ast.Constant) for x in e.elts):
            return tuple(x.value for x in e.elts)
        src = norm(e)
        gname = [k for k, v in sym.items() if v == "G"]
        for gn in gname:
            if src.startswith(gn + "."):
                return getattr(self.g, src.split(".", 1)[1])
        if isinstance(e, ast.Call) and isinstance(e.func, ast.Name) and e.func.id == "tuple" and e.args \
                and isinstance(e.args[0], ast.GeneratorExp):
            ge = e.args[0]
            it = self.table(ge.generators[0].iter, sym)
            var = ge.generators[0].target.id
            out = []
            for item in it:
                out.append(eval(compile(ast.Expression(body=ge.elt), "<lex-table>", "eval"), {"__builtins__": {}}, {var: item}))
            return tuple(out)
        raise AnalysisError(f"LEX1: table expression `{src}` not resolvable")

    def cond(self, e, sym):
        """-> DFA over x (language where the condition holds), or True/False"""
        if isinstance(e, ast.BoolOp):
            vals = [self.cond(v, sym) for v in e.values]
            if isinstance(e.op, ast.And):
                r = SIGMA
                for v in vals:
                    if v is False:
                        return False
                    if v is not True:
                        r = r & v
                return r
            r = SL.EMPTY
            for v in vals:
                if v is True:
                    return True
                if v is not False:
                    r = r | v
            return r
        if isinstance(e, ast.UnaryOp) and isinstance(e.op, ast.Not):
            v = self.cond(e.operand, sym)
            return (not v) if isinstance(v, bool) else ~v
        if isinstance(e, ast.Compare) and len(e.ops) == 1:
            op, l, r = e.ops[0], e.left, e.comparators[0]
            self.atoms.append(norm(e, 80))
            # X is None / is not None
            if isinstance(op, (ast.Is, ast.IsNot)) and isinstance(r, ast.Constant) and r.value is None:
                if isinstance(l, ast.Name) and sym.get(l.id) == "NEXT":
                    return isinstance(op, ast.IsNot)            # x always has a next character
                if isinstance(l, ast.Call) and isinstance(l.func, ast.Attribute) and l.func.attr == "fullmatch":
                    rx = self.table(l.func.value, sym)
                    L = SL.rx(rx.pattern) if rx is not None else SL.EMPTY
                    d = self.member(l.args[0], L, sym)
                    return d if isinstance(op, ast.IsNot) else ~d
            if isinstance(op, (ast.Eq, ast.NotEq)):
                # preserve["state"] == / != Preserve.FALSE   (the model is the non-preserving state)
                if "Preserve.FALSE" in norm(r) and "state" in norm(l):
                    return isinstance(op, ast.Eq)
                # char.lower() == "e" / char == "x" / next_char == "x"
                for a, b in ((l, r), (r, l)):
                    if isinstance(b, ast.Constant) and isinstance(b.value, str) and len(b.value) == 1:
                        fold = None
                        base = a
                        if isinstance(a, ast.Call) and isinstance(a.func, ast.Attribute) and a.func.attr in ("lower", "upper", "casefold") and not a.args:
                            fold, base = a.func.attr, a.func.value
                        if isinstance(base, ast.Name) and sym.get(base.id) in ("CHAR", "NEXT"):
                            k = b.value
                            f = (lambda c: c.upper()) if fold == "upper" else ((lambda c: c.lower()) if fold else (lambda c: c))
                            cs = SL.chars_where(lambda c: f(c) == k)
                            d = penultimate_in(cs) if sym[base.id] == "CHAR" else last_in(cs)
                            return d if isinstance(op, ast.Eq) else ~d
            if isinstance(op, (ast.In, ast.NotIn)) and "state" in norm(l) and isinstance(l, ast.Subscript) \
                    and isinstance(l.value, ast.Name) and sym.get(l.value.id) == "PRESERVE":
                # preserve["state"] in (Preserve.A, Preserve.B) -- a module constant is followed
                tab = r
                if isinstance(tab, ast.Name):
                    tab = self.repo.module_constant("lexer", tab.id) or tab
                if isinstance(tab, (ast.Tuple, ast.List, ast.Set)):
                    has_false = any(norm(x) == "Preserve.FALSE" for x in tab.elts)
                    return has_false if isinstance(op, ast.In) else not has_false
            if isinstance(op, (ast.In, ast.NotIn)):
                tab = self.table(r, sym)
                if isinstance(l, ast.Name) and sym.get(l.id) in ("CHAR", "NEXT"):
                    cs = SL.syms([c for c in tab if isinstance(c, str) and len(c) == 1])
                    d = penultimate_in(cs) if sym[l.id] == "CHAR" else last_in(cs)
                    return d if isinstance(op, ast.In) else ~d
                if isinstance(l, ast.Name) and sym.get(l.id) == "LEXEME":
                    d = SL.concat(SL.anyof([str(c) for c in tab]), ANY1)
                    return d if isinstance(op, ast.In) else ~d
            raise AnalysisError(f"LEX1: condition `{norm(e)}` not in the lexer-model vocabulary")
        if isinstance(e, ast.Call):
            self.atoms.append(norm(e, 80))
            f = e.func
            if isinstance(f, ast.Name) and f.id == "lex_continue":
                args = [sym.get(a.id) if isinstance(a, ast.Name) else None for a in e.args]
                if args[:6] != ["CHAR", "NEXT", "LEXEME", "TOKEN", "PRESERVE", "G"] or e.keywords:
                    raise AnalysisError(f"lexer() calls lex_continue with {args}; LEX1 expects (char, next_char, lexeme, tok, preserve, g)")
                self.uses_continue = True
                return self.continue_language()
            if isinstance(f, ast.Name) and f.id == "bool" and len(e.args) == 1 and not e.keywords:
                return self.cond(e.args[0], sym)
            # another helper of lexer.py that is handed the modelled variables: the language of its `return True`
            if isinstance(f, ast.Name) and f.id in self.repo.module("lexer").functions and not e.keywords \
                    and all(isinstance(a, ast.Name) and a.id in sym for a in e.args):
                hfn = self.repo.full_function("lexer", f.id)
                hp = [a.arg for a in hfn.args.args]
                if len(hp) == len(e.args) and self.depth < 6:
                    hsym = {p_: sym[a.id] for p_, a in zip(hp, e.args)}
                    out = {}
                    saved, self.bools = self.bools, {}
                    self.depth += 1
                    try:
                        self.walk(hfn.body, SIGMA, hsym, out)
                    finally:
                        self.depth -= 1
                        self.bools = saved
                    if "Y" in out or "C" in out:
                        raise AnalysisError(f"LEX1: helper {f.id} yields or continues; not in the lexer-model vocabulary")
                    return out.get("T", SL.EMPTY)
            # g.char_allowed(next_char)
            if isinstance(f, ast.Attribute) and f.attr == "char_allowed" and e.args and isinstance(e.args[0], ast.Name):
                which = sym.get(e.args[0].id)
                if which == "NEXT":
                    return last_in(self.allowed)
                if which == "CHAR":
                    return True          # the current character has passed the guard
            # Token(<expr>, grammar=g[, decoder=d]).is_X()
            if isinstance(f, ast.Attribute) and f.attr.startswith("is_") and isinstance(f.value, ast.Call) \
                    and isinstance(f.value.func, ast.Name) and f.value.func.id == "Token":
                t = f.value
                kws = {k.arg: norm(k.value) for k in t.keywords}
                dcls = self.dcls if kws.get("decoder") and sym.get(kws["decoder"]) == "D" else self.default_dcls
                return self.member(t.args[0], self.predicate_lang(f.attr, dcls), sym)
            # tok.is_X() where tok = Token(lexeme, grammar=g, decoder=d)
            if isinstance(f, ast.Attribute) and f.attr.startswith("is_") and isinstance(f.value, ast.Name) and sym.get(f.value.id) == "TOKEN":
                return SL.concat(self.predicate_lang(f.attr, self.dcls), ANY1)
            # s.startswith(<comment openers>, i + 1): the next character starts a comment
            if isinstance(f, ast.Attribute) and f.attr == "startswith" and isinstance(f.value, ast.Name) and sym.get(f.value.id) == "TEXT":
                openers = self.table(e.args[0], sym)
                return last_in(SL.syms([o[0] for o in openers if o]))
            if isinstance(f, ast.Attribute) and f.attr == "endswith" and isinstance(f.value, ast.Name) and sym.get(f.value.id) == "LEXEME":
                closers = self.table(e.args[0], sym)
                return SL.concat(SL.union([SL.endswith(c) for c in closers]), ANY1)
            raise AnalysisError(f"LEX1: call `{norm(e)}` not in the lexer-model vocabulary")
        if isinstance(e, ast.Constant) and isinstance(e.value, bool):
            return e.value
        if isinstance(e, ast.Name) and e.id in self.bools:
            return self.bools[e.id]
        raise AnalysisError(f"LEX1: condition `{norm(e)}` not in the lexer-model vocabulary")

    # ------------------------------------------------------------ functions
    def walk(self, stmts, reach, sym, out):
        """Path walk of a statement list: `reach` is the language of x = lexeme.next for which control arrives.
        Adds to out[kind] the languages that return True ('T'), return False ('F'), `continue` ('C') or arrive
        at a yield ('Y'); returns the language that falls off the end."""
        def lang(c, within):
            return within if c is True else (SL.EMPTY if c is False else within & c)
        for st in stmts:
            if reach.empty():
                break
            if isinstance(st, ast.Expr) and isinstance(st.value, ast.Constant):
                continue
            if isinstance(st, ast.Pass):
                continue
            if any(isinstance(n, (ast.Yield, ast.YieldFrom)) for n in ast.walk(st)) and not isinstance(st, ast.If):
                out["Y"] = out.get("Y", SL.EMPTY) | reach
                return SL.EMPTY                 # what follows the first yield belongs to the next lexeme
            if isinstance(st, ast.If):
                c = self.cond(st.test, sym)
                t = lang(c, reach)
                n1 = self.walk(st.body, t, sym, out)
                n2 = self.walk(st.orelse, reach - t, sym, out)
                reach = n1 | n2
                continue
            if isinstance(st, ast.Continue):
                out["C"] = out.get("C", SL.EMPTY) | reach
                return SL.EMPTY
            if isinstance(st, ast.Return):
                if st.value is None:
                    out["F"] = out.get("F", SL.EMPTY) | reach
                else:
                    t = lang(self.cond(st.value, sym), reach)
                    out["T"] = out.get("T", SL.EMPTY) | t
                    out["F"] = out.get("F", SL.EMPTY) | (reach - t)
                return SL.EMPTY
            if isinstance(st, ast.Assign) and len(st.targets) == 1 and isinstance(st.targets[0], ast.Name):
                name = st.targets[0].id
                v = st.value
                if isinstance(v, (ast.BoolOp, ast.Compare, ast.UnaryOp)) or (isinstance(v, ast.Constant) and isinstance(v.value, bool)) \
                        or (isinstance(v, ast.Name) and v.id in self.bools) or (
                        isinstance(v, ast.Call) and ((isinstance(v.func, ast.Attribute)
                        and (v.func.attr.startswith("is_") or v.func.attr in ("char_allowed", "startswith", "endswith")))
                        or (isinstance(v.func, ast.Name) and (v.func.id in self.repo.module("lexer").functions or v.func.id == "bool")))):
                    # a named condition; assigned on some paths only, it holds where it was assigned true (languages of x
                    # are path conditions, so the value is kept per language of arrival)
                    c = self.cond(v, sym)
                    V = SIGMA if c is True else (SL.EMPTY if c is False else c)
                    old = self.bools.get(name, SL.EMPTY)
                    self.bools[name] = (old - reach) | (reach & V)
                    continue
                if name in sym and sym[name] in ("CHAR", "NEXT", "LEXEME", "TOKEN", "PRESERVE", "G", "D", "TEXT"):
                    raise AnalysisError(f"LEX1: `{norm(st, 60)}` rebinds a modelled variable before the end-of-lexeme decision")
                self.bools.pop(name, None)
                continue
            raise AnalysisError(f"LEX1: statement `{norm(st, 60)}` not in the lexer-model vocabulary")
        return reach

    def continue_language(self):
        """C: x = lexeme.next for which lex_continue() returns True (non-preserving state)."""
        fn = self.repo.full_function("lexer", "lex_continue")
        params = [a.arg for a in fn.args.args]
        if len(params) != 6:
            raise AnalysisError("lex_continue signature changed; LEX1 needs (char, next_char, lexeme, token, preserve, g)")
        sym = {params[0]: "CHAR", params[1]: "NEXT", params[2]: "LEXEME", params[3]: "TOKEN", params[4]: "PRESERVE", params[5]: "G"}
        out = {}
        saved, self.bools = self.bools, {}
        self.walk(fn.body, SIGMA, sym, out)            # falling off the end returns None (falsy)
        self.bools = saved
        if "Y" in out or "C" in out:
            raise AnalysisError("LEX1: lex_continue yields or continues; not in the lexer-model vocabulary")
        return out.get("T", SL.EMPTY)

    def yield_language(self):
        """(Y, uses_continue): x = lexeme.next for which lexer() arrives at the yield of the lexeme, on the paths
        that follow the construction of the Token in the character loop."""
        from . import lexrules
        fn, svar, loop, ivar, charvar = lexrules.main_loop(self.repo)
        sym = {charvar: "CHAR", svar: "TEXT"}
        if ivar:
            sym[ivar] = "INDEX"
        params = [a.arg for a in fn.args.args]
        if len(params) >= 3:
            sym[params[1]] = "G"
            sym[params[2]] = "D"
        tok_assign = None
        for n in ast.walk(loop):
            if isinstance(n, ast.Assign):
                if lexrules._is_call_to(n.value, "_next_char") and isinstance(n.targets[0], ast.Name):
                    sym[n.targets[0].id] = "NEXT"
                if lexrules._is_call_to(n.value, "lex_char") and isinstance(n.targets[0], ast.Tuple):
                    sym[n.targets[0].elts[0].id] = "LEXEME"
                    sym[n.targets[0].elts[1].id] = "PRESERVE"
                if isinstance(n.value, ast.Call) and isinstance(n.value.func, ast.Name) and n.value.func.id == "Token" \
                        and isinstance(n.targets[0], ast.Name):
                    sym[n.targets[0].id] = "TOKEN"
                    tok_assign = n
        # the block that holds the first yield of the loop, from the statement after the Token is built
        def holder(block):
            for i, st in enumerate(block):
                if st is tok_assign:
                    return block[i + 1:]
            for st in block:
                for fld in ("body", "orelse", "finalbody"):
                    sub = getattr(st, fld, None)
                    if isinstance(sub, list) and sub and isinstance(sub[0], ast.stmt):
                        r = holder(sub)
                        if r is not None:
                            return r
            return None
        rest = holder(loop.body) if tok_assign is not None else None
        if not rest or not any(isinstance(y, (ast.Yield, ast.YieldFrom)) for st in rest for y in ast.walk(st)):
            raise AnalysisError("anchor vanished: the yield branch of lexer()")
        self.uses_continue = False
        self.bools = {}
        out = {}
        self.walk(rest, SIGMA, sym, out)
        return out.get("Y", SL.EMPTY), self.uses_continue

    def single_value_language(self):
        rd = self.readers[self.dcls]
        acc = lambda m: PE.accepts(rd.method(m))
        K = acc("decode_decimal") | acc("decode_non_decimal") | acc("decode_datetime")
        alpha = SL.star(self.allowed - SL.syms("".join(self.g.whitespace)))
        return K & alpha & SL.length_gt(0)

    def preserve_prefixes(self):
        """prefixes u after which the lexer is inside the '#...#' preservation state"""
        pre = SL.rx(self.g.nondecimal_pre_re.pattern)
        hash_ = SL.syms("#")
        # lex_char enters the state at a '#' when lexeme + '#' fully matches nondecimal_pre_re
        trig = pre & SL.last_in(hash_)
        return SL.concat(trig, SL.star(SL.ALLSYMS - hash_))

    def bad_language(self):
        C = self.continue_language()
        Y, uses = self.yield_language()
        split = Y
        inside = SL.concat(self.preserve_prefixes(), ANY1)        # u.d with u inside the preservation state
        split = (split - inside) & SL.length_gt(1)
        K = self.single_value_language()
        return SL.concat(split, SIGMA) & K, C, Y


def pre_match_at_hash(pre):
    """strings t ending in '#' such that t fully matches the pre pattern (lex_char tests fullmatch(lexeme + '#'))"""
    return pre & SL.last_in(SL.syms("#"))


def _cls(ch):
    if ch.isdigit():
        return ("a digit", SL.chars_where(lambda c: c.isdigit()))
    if ch.isalpha() and ch.lower() != "e":
        return ("a letter", SL.chars_where(lambda c: c.isalpha() and c.lower() != "e"))
    return (repr(ch), SL.syms([ch]))


def check(repo, gcls, dcls):
    """-> dict with the split classes found: each {between: (c, d), witness, kind}"""
    m = LexModel(repo, gcls, dcls)
    C = m.continue_language()
    Y, uses = m.yield_language()
    split = Y
    inside = SL.concat(m.preserve_prefixes(), ANY1)
    split = (split - inside) & SL.length_gt(1)
    rd = m.readers[dcls]
    acc = lambda name: PE.accepts(rd.method(name))
    alpha = SL.star(m.allowed - SL.syms("".join(m.g.whitespace)))
    # what the encoders write for numbers: str() of int, float and Decimal values (finite ones)
    written = SL.rx(r"-?[0-9]+(\.[0-9]+)?([eE][+-]?[0-9]+)?")
    kinds = {"decimal number": acc("decode_decimal"), "based integer": acc("decode_non_decimal"),
             "date/time": acc("decode_datetime"), "number as str() writes it": acc("decode_decimal") & written}
    classes = []
    for kname, K in kinds.items():
        K = K & alpha & SL.length_gt(0)
        bad = SL.concat(split, SIGMA) & K
        for _ in range(12):
            w = bad.witness()
            if w is None:
                break
            # first split prefix of the witness
            j = None
            for i in range(2, len(w) + 1):
                if split.accepts(w[:i]):
                    j = i
                    break
            if j is None:
                break
            (cn, cs), (dn, ds) = _cls(w[j - 2]), _cls(w[j - 1])
            classes.append({"kind": kname, "between": [cn, dn], "witness": w, "tokens": [w[:j - 1], w[j - 1:]]})
            this = split & penultimate_in(cs) & last_in(ds)
            bad = bad - SL.concat(this, SIGMA)
    # look-ahead: a lexeme is ended (yielded) before a character outside the dialect's character set
    bad_next = last_in(SL.ALLSYMS - m.allowed) & SL.length_gt(1)
    in_set = SL.concat(SL.star(m.allowed) - SL.EPSILON, ANY1)          # the characters before the look-ahead passed the guard
    la = ((bad_next & in_set) - inside) - Y
    return {"lookahead_not_ended": la.witnesses(2), "classes": classes, "continue_states": C.nstates(), "yield_states": Y.nstates(),
            "atoms": sorted(set(m.atoms)), "default_token_decoder": m.default_dcls, "uses_lex_continue": uses}
