"""Small flow-sensitive taint walk over one function (structured control flow, no CFG library).

``sinks(fn, is_source, is_sink, propagates)`` walks the statements of *fn* in order, keeping the set of local
names whose value is (or contains) a source value, and returns for every sink call reached with a tainted
argument the list of path conditions that hold there: ``[(test expr, polarity), ...]``.

* if / else: both arms are walked with the test pushed (True / False); an arm all of whose paths end in
  return / raise / continue / break puts the *negated* test on everything that follows the ``if`` (guard clause);
  the taint sets of the arms that fall through are joined.
* loops: the body is walked twice (a taint made late in the body reaches its top).
* try: body, handlers, orelse, finalbody walked in turn with joined taint.
* an expression is tainted when it mentions a tainted name or contains a source expression (is_source gets every
  sub-expression, calls or not); the result of any call
  that receives a tainted argument (helper, str method, ``format``) is tainted -- text derived from the value.
"""
import ast


NORETURN = set()        # names of functions / methods of the analysed tree that never return normally (configure())


def _always_raises(stmts, depth=0):
    """every path through the statement list ends in raise / <generator>.throw(...) (no return, no fall-through)"""
    if not stmts:
        return False
    for s in stmts:
        for n in ast.walk(s):
            if isinstance(n, ast.Return):
                return False
    last = stmts[-1]
    if isinstance(last, ast.Raise) or _is_throw(last):
        return True
    if isinstance(last, ast.If) and last.orelse:
        return _always_raises(last.body, depth + 1) and _always_raises(last.orelse, depth + 1)
    return False


def configure(repo):
    """collects the helpers of the tree that always raise (send the token back and raise; throw into the generator):
    a call to one of them ends a path like a raise does"""
    NORETURN.clear()
    found = {}
    for m in repo.modules.values():
        for name, fn in m.functions.items():
            found[name] = fn
        for cname, cnode in m.classes.items():
            for n in cnode.body:
                if isinstance(n, ast.FunctionDef):
                    found.setdefault(n.name, n)
    for _ in range(3):
        for name, fn in found.items():
            body = [b for b in fn.body if not (isinstance(b, ast.Expr) and isinstance(b.value, ast.Constant))]
            # overridable hooks (a body that is only `raise X`) are not helpers: subclasses return from them
            if len(body) == 1 and isinstance(body[0], ast.Raise):
                continue
            if name.startswith("_") and not name.startswith("__") and _always_raises(body):
                NORETURN.add(name)


def _is_throw(s):
    """`<generator>.throw(...)` as a statement: the exception comes back out of the call on every path (the lexer
    converts it to LexerError; an exhausted generator re-raises it)"""
    if not (isinstance(s, ast.Expr) and isinstance(s.value, ast.Call)):
        return False
    f = s.value.func
    if isinstance(f, ast.Attribute):
        return f.attr == "throw" or f.attr in NORETURN
    return isinstance(f, ast.Name) and f.id in NORETURN


def _terminates(stmts):
    for s in stmts:
        if isinstance(s, (ast.Return, ast.Raise, ast.Continue, ast.Break)) or _is_throw(s):
            return True
        if isinstance(s, ast.If) and s.orelse and _terminates(s.body) and _terminates(s.orelse):
            return True
    return False


class Taint:
    def __init__(self, is_source, is_sink):
        self.is_source, self.is_sink = is_source, is_sink
        self.hits = []          # (sink call, conds, tainted names at that point)

    NONTEXT = ("len", "isinstance", "issubclass", "bool", "ord", "hash", "id", "type", "hasattr", "callable")

    def tainted(self, e, env):
        """does the value of e carry (text of) a source?  A length, a type test or a comparison does not."""
        if isinstance(e, ast.Compare):
            return False
        if isinstance(e, ast.Call) and isinstance(e.func, ast.Name) and e.func.id in self.NONTEXT:
            return False
        if isinstance(e, ast.Name) and e.id in env:
            return True
        if self.is_source(e):
            return True
        return any(self.tainted(c, env) for c in ast.iter_child_nodes(e) if isinstance(c, (ast.expr, ast.keyword, ast.comprehension, ast.FormattedValue))
                   or isinstance(c, ast.AST) and not isinstance(c, (ast.expr_context, ast.operator, ast.boolop, ast.unaryop, ast.cmpop)))

    def scan_expr(self, e, env, conds):
        for n in ast.walk(e):
            if isinstance(n, ast.Call) and self.is_sink(n):
                args = list(n.args) + [k.value for k in n.keywords]
                if args and self.tainted(args[0], env):
                    self.hits.append((n, list(conds), set(env)))

    def block(self, stmts, env, conds):
        """-> taint set after the block (None when no path falls through)"""
        env = set(env)
        conds = list(conds)
        for s in stmts:
            if isinstance(s, (ast.FunctionDef, ast.AsyncFunctionDef, ast.ClassDef)):
                continue
            if isinstance(s, ast.If):
                self.scan_expr(s.test, env, conds)
                e1 = self.block(s.body, env, conds + [(s.test, True)])
                e2 = self.block(s.orelse, env, conds + [(s.test, False)]) if s.orelse else set(env)
                t1, t2 = _terminates(s.body), bool(s.orelse) and _terminates(s.orelse)
                if t1 and t2:
                    return None
                if t1:
                    conds = conds + [(s.test, False)]
                    env = e2 if e2 is not None else set()
                elif t2:
                    conds = conds + [(s.test, True)]
                    env = e1 if e1 is not None else set()
                else:
                    env = (e1 or set()) | (e2 or set())
                continue
            if isinstance(s, (ast.For, ast.AsyncFor, ast.While)):
                if isinstance(s, ast.While):
                    self.scan_expr(s.test, env, conds)
                else:
                    self.scan_expr(s.iter, env, conds)
                    if self.tainted(s.iter, env):
                        env |= {n.id for n in ast.walk(s.target) if isinstance(n, ast.Name)}
                for _ in range(2):
                    e1 = self.block(s.body, env, conds)
                    env |= (e1 or set())
                e2 = self.block(s.orelse, env, conds)
                env |= (e2 or set())
                continue
            if isinstance(s, ast.Try):
                e1 = self.block(s.body, env, conds)
                acc = set(env) | (e1 or set())
                for h in s.handlers:
                    acc |= (self.block(h.body, acc, conds) or set())
                acc |= (self.block(s.orelse, acc, conds) or set())
                acc |= (self.block(s.finalbody, acc, conds) or set())
                env = acc
                continue
            if isinstance(s, (ast.With, ast.AsyncWith)):
                for it in s.items:
                    self.scan_expr(it.context_expr, env, conds)
                e1 = self.block(s.body, env, conds)
                if e1 is None:
                    return None
                env = e1
                continue
            # simple statements
            for e in ast.iter_child_nodes(s):
                if isinstance(e, ast.expr):
                    self.scan_expr(e, env, conds)
            if isinstance(s, ast.Assign):
                t = self.tainted(s.value, env)
                for tg in s.targets:
                    for n in ast.walk(tg):
                        if isinstance(n, ast.Name):
                            (env.add if t else env.discard)(n.id)
            elif isinstance(s, ast.AugAssign) and isinstance(s.target, ast.Name):
                if self.tainted(s.value, env):
                    env.add(s.target.id)
            elif isinstance(s, ast.AnnAssign) and isinstance(s.target, ast.Name) and s.value is not None:
                (env.add if self.tainted(s.value, env) else env.discard)(s.target.id)
            if isinstance(s, (ast.Return, ast.Raise, ast.Continue, ast.Break)) or _is_throw(s):
                return None
        return env


def sinks(fn, is_source, is_sink):
    t = Taint(is_source, is_sink)
    t.block(fn.body, set(), [])
    return t.hits


def list_elements(fn, var_or_list, before):
    """Element expressions, in order, of a list that the top-level statements of *fn* preceding statement *before*
    build by a display and .append() calls; None when it is built any other way (extend, insert, +=, in a branch)."""
    if isinstance(var_or_list, (ast.List, ast.Tuple)):
        return list(var_or_list.elts)
    if not isinstance(var_or_list, ast.Name):
        return None
    name = var_or_list.id
    elts = None
    for s in fn.body:
        if s is before:
            break
        uses = [n for n in ast.walk(s) if isinstance(n, ast.Name) and n.id == name]
        if not uses:
            continue
        if isinstance(s, ast.Assign) and len(s.targets) == 1 and isinstance(s.targets[0], ast.Name) and s.targets[0].id == name:
            v = s.value
            if isinstance(v, (ast.List, ast.Tuple)):
                elts = list(v.elts)
                continue
            if isinstance(v, ast.Call) and isinstance(v.func, ast.Name) and v.func.id == "list" and not v.args and not v.keywords:
                elts = []
                continue
            return None
        if isinstance(s, ast.Expr) and isinstance(s.value, ast.Call) and isinstance(s.value.func, ast.Attribute) \
                and s.value.func.attr == "append" and isinstance(s.value.func.value, ast.Name) and s.value.func.value.id == name \
                and len(s.value.args) == 1 and elts is not None:
            elts.append(s.value.args[0])
            continue
        return None
    return elts


def taint_before(fn, before, is_source):
    """tainted names after the top-level statements of *fn* that precede statement *before*"""
    t = Taint(is_source, lambda call: False)
    body = []
    for s in fn.body:
        if s is before:
            break
        body.append(s)
    return t, (t.block(body, set(), []) or set())


def conds_map(stmts):
    """{id(statement): path conditions} for every statement, compound ones included (the conditions under which the
    test of an `if` / the header of a loop is evaluated)"""
    rec = {}
    stmts_with_conds(stmts, record=rec)
    return rec


def stmts_with_conds(stmts, conds=(), record=None):
    """[(simple statement, path conditions)] of a statement list (same guard-clause treatment as Taint.block)"""
    out = []
    conds = list(conds)
    for s in stmts:
        if isinstance(s, (ast.FunctionDef, ast.AsyncFunctionDef, ast.ClassDef)):
            continue
        if record is not None:
            record[id(s)] = list(conds)
        if isinstance(s, ast.If):
            out += stmts_with_conds(s.body, conds + [(s.test, True)], record)
            out += stmts_with_conds(s.orelse, conds + [(s.test, False)], record)
            t1, t2 = _terminates(s.body), bool(s.orelse) and _terminates(s.orelse)
            if t1 and t2:
                break
            if t1:
                conds = conds + [(s.test, False)]
            elif t2:
                conds = conds + [(s.test, True)]
            continue
        if isinstance(s, (ast.For, ast.AsyncFor, ast.While)):
            out += stmts_with_conds(s.body, conds, record)
            out += stmts_with_conds(s.orelse, conds, record)
            continue
        if isinstance(s, ast.Try):
            out += stmts_with_conds(s.body, conds, record)
            for h in s.handlers:
                out += stmts_with_conds(h.body, conds + [(h, True)], record)
            out += stmts_with_conds(s.orelse, conds, record)
            out += stmts_with_conds(s.finalbody, conds, record)
            continue
        if isinstance(s, (ast.With, ast.AsyncWith)):
            out += stmts_with_conds(s.body, conds, record)
            continue
        out.append((s, list(conds)))
        if isinstance(s, (ast.Return, ast.Raise, ast.Continue, ast.Break)) or _is_throw(s):
            break
    return out


def holds(conds, pred):
    """does some path condition satisfy pred(test, polarity)?  `not X` is unwrapped; `A and B` held True gives A and B;
    `A or B` held False gives not A and not B"""
    def atoms(test, pol):
        while isinstance(test, ast.UnaryOp) and isinstance(test.op, ast.Not):
            test, pol = test.operand, not pol
        if isinstance(test, ast.BoolOp):
            if (isinstance(test.op, ast.And) and pol) or (isinstance(test.op, ast.Or) and not pol):
                for v in test.values:
                    yield from atoms(v, pol)
                return
        yield test, pol
    for test, pol in conds:
        if not isinstance(test, ast.expr):
            continue
        for t, p in atoms(test, pol):
            if pred(t, p):
                return True
    return False


def always_assigns(stmts, name, value_src):
    """does every normal path through the statement list execute `name = <value_src>` (a must-analysis over
    if/else, try and with; loops count only for what follows them)?"""
    from .core import norm
    for s in stmts:
        if isinstance(s, ast.Assign) and any(norm(t) == name for t in s.targets) and norm(s.value) == value_src:
            return True
        if isinstance(s, ast.If) and s.orelse and always_assigns(s.body, name, value_src) and always_assigns(s.orelse, name, value_src):
            return True
        if isinstance(s, ast.If) and _terminates(s.body) and not s.orelse:
            continue
        if isinstance(s, (ast.With, ast.AsyncWith)) and always_assigns(s.body, name, value_src):
            return True
        if isinstance(s, ast.Try) and (always_assigns(s.finalbody, name, value_src) or
                                       (always_assigns(s.body, name, value_src) and all(always_assigns(h.body, name, value_src) for h in s.handlers))):
            return True
    return False
