"""Thin-helper inlining on the syntax tree.

A *thin helper* is a function or method whose body (docstring aside) is a single
``return <expr>``.  Rules that look for an idiom inside one function (``int(<sign> +
<digits>, base=...)``, a ``for_try_except(ValueError, datetime.strptime, ...)`` call, a
``.format(...)`` of a value) would otherwise lose sight of it the moment a maintainer
moves the expression behind such a helper.  ``inlined(repo, cls, fn)`` returns a copy of
*fn* in which every call to a thin helper -- ``self.h(...)``, ``Class.h(...)``, ``h(...)`` for
a module-level function of the same module -- is replaced by the helper's return expression
with the arguments substituted for the parameters.  Nothing is executed.
"""
import ast
import copy

MAX_DEPTH = 4


def clone(node):
    """Copy of a syntax tree through its grammar fields only (the Repo hangs `_parent` links on nodes, which
    would make copy.deepcopy drag the whole module along)."""
    if isinstance(node, list):
        return [clone(x) for x in node]
    if not isinstance(node, ast.AST):
        return node
    new = type(node)()
    for f in node._fields:
        if hasattr(node, f):
            setattr(new, f, clone(getattr(node, f)))
    for a in node._attributes:
        if hasattr(node, a):
            setattr(new, a, getattr(node, a))
    return new


def thin_return(fn):
    body = [b for b in fn.body if not (isinstance(b, ast.Expr) and isinstance(b.value, ast.Constant))]
    if len(body) == 1 and isinstance(body[0], ast.Return) and body[0].value is not None:
        return body[0].value
    return None


def _binding(fn, call, drop_first):
    a = fn.args
    if a.vararg or a.kwarg or a.kwonlyargs:
        return None
    if any(isinstance(x, ast.Starred) for x in call.args) or any(k.arg is None for k in call.keywords):
        return None
    params = [x.arg for x in a.posonlyargs + a.args]
    if drop_first:
        if not params:
            return None
        params = params[1:]
    if len(call.args) > len(params):
        return None
    binding = dict(zip(params, call.args))
    for k in call.keywords:
        if k.arg not in params or k.arg in binding:
            return None
        binding[k.arg] = k.value
    defaults = dict(zip(params[len(params) - len(a.defaults):], a.defaults)) if a.defaults else {}
    for p in params:
        if p not in binding:
            if p not in defaults:
                return None
            binding[p] = defaults[p]
    return binding


class _Sub(ast.NodeTransformer):
    def __init__(self, binding):
        self.binding = binding

    def visit_Name(self, n):
        if isinstance(n.ctx, ast.Load) and n.id in self.binding:
            return clone(self.binding[n.id])
        return n


def _callee(repo, cls, module, call):
    """(fn, drop_first) of a resolvable helper call, or None"""
    f = call.func
    if isinstance(f, ast.Attribute) and isinstance(f.value, ast.Name):
        owner = None
        if f.value.id == "self" and cls is not None:
            owner = cls
        elif f.value.id in repo.classes:
            owner = f.value.id
        if owner is None:
            return None
        defcls, fn = repo.resolve_method(owner, f.attr)
        if fn is None:
            return None
        decos = repo.classes[defcls].decorators.get(f.attr, [])
        if "classmethod" in decos or "property" in decos:
            return None
        static = "staticmethod" in decos
        if f.value.id != "self" and not static:
            return None             # Class.m(obj, ...) on an instance method: not followed
        return fn, not static
    if isinstance(f, ast.Name) and module is not None:
        fn = repo.module(module).functions.get(f.id)
        if fn is not None:
            return fn, False
    return None


def inline_expr(repo, cls, module, e, depth=0, log=None):
    if depth > MAX_DEPTH:
        return e

    class Inl(ast.NodeTransformer):
        changed = False

        def visit_Call(self, n):
            self.generic_visit(n)
            c = _callee(repo, cls, module, n)
            if c is None:
                return n
            fn, drop = c
            expr = thin_return(fn)
            if expr is None:
                return n
            binding = _binding(fn, n, drop)
            if binding is None:
                return n
            Inl.changed = True
            if log is not None:
                log.append(fn.name)
            new = _Sub(binding).visit(clone(expr))
            return ast.copy_location(new, n)

    Inl.changed = False
    new = Inl().visit(clone(e))
    if not Inl.changed:
        return e
    ast.fix_missing_locations(new)
    return inline_expr(repo, cls, module, new, depth + 1, log)


def _tail_inline(repo, cls, module, stmts, log, depth=0):
    """`return helper(a, b)` where helper is a private function/method of several statements and the arguments are
    plain names/constants/attributes: replaced by the helper's body with the arguments substituted (the helper's
    returns become the caller's).  Only helpers that never rebind their parameters and define no inner scopes."""
    out, changed = [], False
    for st in stmts:
        new = None
        if isinstance(st, ast.Return) and isinstance(st.value, ast.Call) and depth < MAX_DEPTH:
            call = st.value
            c = _callee(repo, cls, module, call)
            fname = call.func.attr if isinstance(call.func, ast.Attribute) else getattr(call.func, "id", "")
            if c is not None and fname.startswith("_") and not fname.startswith("__"):
                hfn, drop = c
                simple = all(isinstance(a, (ast.Name, ast.Constant)) or
                             (isinstance(a, ast.Attribute) and isinstance(a.value, ast.Name)) for a in call.args) and \
                    all(isinstance(k.value, (ast.Name, ast.Constant)) for k in call.keywords)
                binding = _binding(hfn, call, drop) if simple else None
                body = [b for b in hfn.body if not (isinstance(b, ast.Expr) and isinstance(b.value, ast.Constant))]
                stores = {n.id for b in body for n in ast.walk(b) if isinstance(n, ast.Name) and isinstance(n.ctx, ast.Store)}
                inner = any(isinstance(n, (ast.FunctionDef, ast.Lambda, ast.ClassDef, ast.Yield, ast.YieldFrom)) for b in body for n in ast.walk(b))
                ends_ok = bool(body) and isinstance(body[-1], (ast.Return, ast.Raise, ast.Try, ast.If))
                if binding is not None and body and not (stores & set(binding)) and not inner and ends_ok \
                        and thin_return(hfn) is None:
                    new = [_Sub(binding).visit(clone(b)) for b in body]      # statements keep their own positions
                    if log is not None:
                        log.append(hfn.name)
                    new, _ = _tail_inline(repo, cls, module, new, log, depth + 1)
        if new is not None:
            out += new
            changed = True
            continue
        for fld in ("body", "orelse", "finalbody"):
            sub = getattr(st, fld, None)
            if isinstance(sub, list) and sub and isinstance(sub[0], ast.stmt):
                sub2, ch = _tail_inline(repo, cls, module, sub, log, depth)
                if ch:
                    st = copy.copy(st)
                    setattr(st, fld, sub2)
                    changed = True
        if isinstance(st, ast.Try):
            hs = []
            chh = False
            for h in st.handlers:
                b2, ch = _tail_inline(repo, cls, module, h.body, log, depth)
                if ch:
                    h = copy.copy(h)
                    h.body = b2
                    chh = True
                hs.append(h)
            if chh:
                st = copy.copy(st)
                st.handlers = hs
                changed = True
        out.append(st)
    return out, changed


def inlined(repo, cls, fn, module=None, log=None):
    """copy of FunctionDef *fn* (a method of *cls*, or a function of *module*) with thin-helper calls inlined"""
    if not any(isinstance(n, ast.Call) for n in ast.walk(fn)):
        return fn
    new = copy.copy(fn)
    body = []
    changed = False
    for st in fn.body:
        st2 = inline_expr(repo, cls, module, st, log=log)
        changed = changed or (st2 is not st)
        body.append(st2)
    body2, ch2 = _tail_inline(repo, cls, module, body, log)
    if ch2:
        body, changed = body2, True
    if not changed:
        return fn
    new.body = body
    ast.fix_missing_locations(new)
    set_parents(new, getattr(fn, "_parent", None))
    return new


def set_parents(root, parent=None):
    """the `_parent` links the Repo puts on parsed trees, for a rebuilt tree"""
    root._parent = parent
    for n in ast.walk(root):
        for ch in ast.iter_child_nodes(n):
            ch._parent = n


def closure(repo, cls, fn, module=None, _seen=None):
    """*fn* and the private helpers it calls (methods of its class reached as self._h(...) / Cls._h(...), private
    functions of its module), transitively -- the unit a maintainer may spread one piece of logic over.
    -> list of (owner class or None, FunctionDef)"""
    seen = _seen if _seen is not None else {}
    if id(fn) in seen:
        return []
    seen[id(fn)] = True
    out = [(cls, fn)]
    for n in ast.walk(fn):
        if not isinstance(n, ast.Call):
            continue
        f = n.func
        if isinstance(f, ast.Attribute) and isinstance(f.value, ast.Name) and f.attr.startswith("_") and not f.attr.startswith("__"):
            owner = cls if f.value.id == "self" else (f.value.id if f.value.id in repo.classes else None)
            if owner is None:
                continue
            dc, h = repo.resolve_method(owner, f.attr)
            if h is not None:
                out += closure(repo, dc, h, module=repo.classes[dc].module.name, _seen=seen)
        elif isinstance(f, ast.Name) and f.id.startswith("_") and module is not None:
            h = repo.module(module).functions.get(f.id)
            if h is not None:
                out += closure(repo, None, h, module=module, _seen=seen)
    return out
