"""Thin-helper inlining on the syntax tree.

A *thin helper* is a function or method whose body (docstring aside) is a single
``return <expr>``.  Rules that look for an idiom inside one function (``int(<sign> +
<digits>, base=...)``, a ``for_try_except(ValueError, datetime.strptime, ...)`` call, a
``.format(...)`` of a value) would otherwise lose sight of it the moment a maintainer
moves the expression behind such a helper.  ``inlined(repo, cls, fn)`` returns a copy of
*fn* in which every call to a thin helper -- ``self.h(...)``, ``Class.h(...)``, ``h(...)`` for
a module-level function of the same module -- is replaced by the helper's return expression
with the arguments substituted for the parameters.  Nothing is executed.
"""
import ast
import copy

MAX_DEPTH = 4


def clone(node):
    """Copy of a syntax tree through its grammar fields only (the Repo hangs `_parent` links on nodes, which
    would make copy.deepcopy drag the whole module along)."""
    if isinstance(node, list):
        return [clone(x) for x in node]
    if not isinstance(node, ast.AST):
        return node
    new = type(node)()
    for f in node._fields:
        if hasattr(node, f):
            setattr(new, f, clone(getattr(node, f)))
    for a in node._attributes:
        if hasattr(node, a):
            setattr(new, a, getattr(node, a))
    return new


def thin_return(fn):
    body = [b for b in fn.body if not (isinstance(b, ast.Expr) and isinstance(b.value, ast.Constant))]
    if len(body) == 1 and isinstance(body[0], ast.Return) and body[0].value is not None:
        return body[0].value
    return None


def _binding(fn, call, drop_first):
    a = fn.args
    if a.vararg or a.kwarg or a.kwonlyargs:
        return None
    if any(isinstance(x, ast.Starred) for x in call.args) or any(k.arg is None for k in call.keywords):
        return None
    params = [x.arg for x in a.posonlyargs + a.args]
    if drop_first:
        if not params:
            return None
        params = params[1:]
    if len(call.args) > len(params):
        return None
    binding = dict(zip(params, call.args))
    for k in call.keywords:
        if k.arg not in params or k.arg in binding:
            return None
        binding[k.arg] = k.value
    defaults = dict(zip(params[len(params) - len(a.defaults):], a.defaults)) if a.defaults else {}
    for p in params:
        if p not in binding:
            if p not in defaults:
                return None
            binding[p] = defaults[p]
    return binding


class _Sub(ast.NodeTransformer):
    def __init__(self, binding):
        self.binding = binding

    def visit_Name(self, n):
        if isinstance(n.ctx, ast.Load) and n.id in self.binding:
            return clone(self.binding[n.id])
        return n


def _callee(repo, cls, module, call):
    """(fn, drop_first) of a resolvable helper call, or None"""
    f = call.func
    if isinstance(f, ast.Attribute) and isinstance(f.value, ast.Name):
        owner = None
        if f.value.id == "self" and cls is not None:
            owner = cls
        elif f.value.id in repo.classes:
            owner = f.value.id
        if owner is None:
            return None
        defcls, fn = repo.resolve_method(owner, f.attr)
        if fn is None:
            return None
        decos = repo.classes[defcls].decorators.get(f.attr, [])
        if "classmethod" in decos or "property" in decos:
            return None
        static = "staticmethod" in decos
        if f.value.id != "self" and not static:
            return None             # Class.m(obj, ...) on an instance method: not followed
        return fn, not static
    if isinstance(f, ast.Name) and module is not None:
        fn = repo.module(module).functions.get(f.id)
        if fn is not None:
            return fn, False
    return None


def inline_expr(repo, cls, module, e, depth=0, log=None):
    if depth > MAX_DEPTH:
        return e

    class Inl(ast.NodeTransformer):
        changed = False

        def visit_Call(self, n):
            self.generic_visit(n)
            c = _callee(repo, cls, module, n)
            if c is None:
                return n
            fn, drop = c
            expr = thin_return(fn)
            if expr is None:
                return n
            binding = _binding(fn, n, drop)
            if binding is None:
                return n
            Inl.changed = True
            if log is not None:
                log.append(fn.name)
            new = _Sub(binding).visit(clone(expr))
            return ast.copy_location(new, n)

    Inl.changed = False
    new = Inl().visit(clone(e))
    if not Inl.changed:
        return e
    ast.fix_missing_locations(new)
    return inline_expr(repo, cls, module, new, depth + 1, log)


def inlined(repo, cls, fn, module=None, log=None):
    """copy of FunctionDef *fn* (a method of *cls*, or a function of *module*) with thin-helper calls inlined"""
    if not any(isinstance(n, ast.Call) for n in ast.walk(fn)):
        return fn
    new = copy.copy(fn)
    body = []
    changed = False
    for st in fn.body:
        st2 = inline_expr(repo, cls, module, st, log=log)
        changed = changed or (st2 is not st)
        body.append(st2)
    if not changed:
        return fn
    new.body = body
    set_parents(new, getattr(fn, "_parent", None))
    return new


def set_parents(root, parent=None):
    """the `_parent` links the Repo puts on parsed trees, for a rebuilt tree"""
    root._parent = parent
    for n in ast.walk(root):
        for ch in ast.iter_child_nodes(n):
            ch._parent = n
