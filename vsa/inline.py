"""Thin-helper inlining on the syntax tree.

A *thin helper* is a function or method whose body (docstring aside) is a single
``return <expr>``.  Rules that look for an idiom inside one function (``int(<sign> +
<digits>, base=...)``, a ``for_try_except(ValueError, datetime.strptime, ...)`` call, a
``.format(...)`` of a value) would otherwise lose sight of it the moment a maintainer
moves the expression behind such a helper.  ``inlined(repo, cls, fn)`` returns a copy of
*fn* in which every call to a thin helper -- ``self.h(...)``, ``Class.h(...)``, ``h(...)`` for
a module-level function of the same module -- is replaced by the helper's return expression
with the arguments substituted for the parameters.  Nothing is executed.
"""
import ast
import copy

MAX_DEPTH = 4
# helpers that are anchors of rules in their own right (the bounded look-around of the lexer): always left as calls
NO_INLINE = {"_prev_char", "_next_char"}


def clone(node):
    """Copy of a syntax tree through its grammar fields only (the Repo hangs `_parent` links on nodes, which
    would make copy.deepcopy drag the whole module along)."""
    if isinstance(node, list):
        return [clone(x) for x in node]
    if not isinstance(node, ast.AST):
        return node
    new = type(node)()
    for f in node._fields:
        if hasattr(node, f):
            setattr(new, f, clone(getattr(node, f)))
    for a in node._attributes:
        if hasattr(node, a):
            setattr(new, a, getattr(node, a))
    return new


def thin_return(fn):
    body = [b for b in fn.body if not (isinstance(b, ast.Expr) and isinstance(b.value, ast.Constant))]
    if len(body) == 1 and isinstance(body[0], ast.Return) and body[0].value is not None:
        return body[0].value
    return None


def _binding(fn, call, drop_first):
    a = fn.args
    if a.vararg or a.kwarg or a.kwonlyargs:
        return None
    if any(isinstance(x, ast.Starred) for x in call.args) or any(k.arg is None for k in call.keywords):
        return None
    params = [x.arg for x in a.posonlyargs + a.args]
    if drop_first:
        if not params:
            return None
        params = params[1:]
    if len(call.args) > len(params):
        return None
    binding = dict(zip(params, call.args))
    for k in call.keywords:
        if k.arg not in params or k.arg in binding:
            return None
        binding[k.arg] = k.value
    defaults = dict(zip(params[len(params) - len(a.defaults):], a.defaults)) if a.defaults else {}
    for p in params:
        if p not in binding:
            if p not in defaults:
                return None
            binding[p] = defaults[p]
    return binding


class _Sub(ast.NodeTransformer):
    def __init__(self, binding):
        self.binding = binding

    def visit_Name(self, n):
        if isinstance(n.ctx, ast.Load) and n.id in self.binding:
            return clone(self.binding[n.id])
        return n


def _callee(repo, cls, module, call, public=True):
    """(fn, drop_first) of a resolvable helper call, or None"""
    f = call.func
    nm = f.attr if isinstance(f, ast.Attribute) else getattr(f, "id", "")
    if nm in NO_INLINE:
        return None
    if not public:
        if not nm.startswith("_") or nm.startswith("__"):
            return None
    if isinstance(f, ast.Attribute) and isinstance(f.value, ast.Name):
        owner = None
        if f.value.id == "self" and cls is not None:
            owner = cls
        elif f.value.id in repo.classes:
            owner = f.value.id
        if owner is None:
            return None
        defcls, fn = repo.resolve_method(owner, f.attr)
        if fn is None:
            return None
        decos = repo.classes[defcls].decorators.get(f.attr, [])
        if "classmethod" in decos or "property" in decos:
            return None
        static = "staticmethod" in decos
        if f.value.id != "self" and not static:
            return None             # Class.m(obj, ...) on an instance method: not followed
        return fn, not static
    if isinstance(f, ast.Name) and module is not None:
        fn = repo.module(module).functions.get(f.id)
        if fn is not None:
            return fn, False
    return None


def inline_expr(repo, cls, module, e, depth=0, log=None, public=False):
    if depth > MAX_DEPTH:
        return e

    class Inl(ast.NodeTransformer):
        changed = False

        def visit_Call(self, n):
            self.generic_visit(n)
            c = _callee(repo, cls, module, n, public=public)
            if c is None:
                return n
            fn, drop = c
            expr = thin_return(fn)
            if expr is None:
                return n
            binding = _binding(fn, n, drop)
            if binding is None:
                return n
            Inl.changed = True
            if log is not None:
                log.append(fn.name)
            new = _Sub(binding).visit(clone(expr))
            return ast.copy_location(new, n)

    Inl.changed = False
    new = Inl().visit(clone(e))
    if not Inl.changed:
        return e
    ast.fix_missing_locations(new)
    return inline_expr(repo, cls, module, new, depth + 1, log, public=public)


_tail_counter = [0]


def _tail_inline(repo, cls, module, stmts, log, depth=0):
    """`return helper(a, b)` where helper is a private function/method of several statements and the arguments are
    plain names/constants/attributes: replaced by the helper's body with the arguments substituted (the helper's
    returns become the caller's).  Only helpers that never rebind their parameters and define no inner scopes."""
    out, changed = [], False
    for st in stmts:
        new = None
        if isinstance(st, ast.Return) and isinstance(st.value, ast.Call) and depth < MAX_DEPTH:
            call = st.value
            c = _callee(repo, cls, module, call)
            fname = call.func.attr if isinstance(call.func, ast.Attribute) else getattr(call.func, "id", "")
            if c is not None and fname.startswith("_") and not fname.startswith("__"):
                hfn, drop = c
                is_simple = lambda a: isinstance(a, (ast.Name, ast.Constant)) or (isinstance(a, ast.Attribute) and isinstance(a.value, ast.Name))
                binding = _binding(hfn, call, drop) if not any(isinstance(a, ast.Starred) for a in call.args) else None
                pre = []
                if binding is not None:
                    # an argument that is not a plain name is evaluated once, before the body, into a fresh local
                    # (arguments are evaluated left to right before the callee runs; defaults are constants)
                    _tail_counter[0] += 1
                    passed = [id(a) for a in call.args] + [id(k.value) for k in call.keywords]
                    for pname in list(binding):
                        a = binding[pname]
                        if id(a) in passed and not is_simple(a):
                            tmp = f"{pname}__{hfn.name}{_tail_counter[0]}"
                            pre.append(ast.copy_location(ast.Assign(targets=[ast.Name(id=tmp, ctx=ast.Store())], value=a), st))
                            binding[pname] = ast.Name(id=tmp, ctx=ast.Load())
                body = [b for b in hfn.body if not (isinstance(b, ast.Expr) and isinstance(b.value, ast.Constant))]
                stores = {n.id for b in body for n in ast.walk(b) if isinstance(n, ast.Name) and isinstance(n.ctx, ast.Store)}
                inner = any(isinstance(n, (ast.FunctionDef, ast.Lambda, ast.ClassDef, ast.Yield, ast.YieldFrom)) for b in body for n in ast.walk(b))
                ends_ok = bool(body) and isinstance(body[-1], (ast.Return, ast.Raise, ast.Try, ast.If))
                argnames = {n.id for v_ in (binding or {}).values() for n in ast.walk(v_) if isinstance(n, ast.Name)} if binding else set()
                if binding is not None and body and not (stores & set(binding)) and not (stores & argnames) and not inner and ends_ok \
                        and thin_return(hfn) is None:
                    new = pre + [_Sub(binding).visit(clone(b)) for b in body]      # statements keep their own positions
                    if log is not None:
                        log.append(hfn.name)
                    new, _ = _tail_inline(repo, cls, module, new, log, depth + 1)
        if new is not None:
            out += new
            changed = True
            continue
        for fld in ("body", "orelse", "finalbody"):
            sub = getattr(st, fld, None)
            if isinstance(sub, list) and sub and isinstance(sub[0], ast.stmt):
                sub2, ch = _tail_inline(repo, cls, module, sub, log, depth)
                if ch:
                    st = copy.copy(st)
                    setattr(st, fld, sub2)
                    changed = True
        if isinstance(st, ast.Try):
            hs = []
            chh = False
            for h in st.handlers:
                b2, ch = _tail_inline(repo, cls, module, h.body, log, depth)
                if ch:
                    h = copy.copy(h)
                    h.body = b2
                    chh = True
                hs.append(h)
            if chh:
                st = copy.copy(st)
                st.handlers = hs
                changed = True
        out.append(st)
    return out, changed


def inlined(repo, cls, fn, module=None, log=None, public=False):
    """copy of FunctionDef *fn* (a method of *cls*, or a function of *module*) with thin-helper calls inlined"""
    if not any(isinstance(n, ast.Call) for n in ast.walk(fn)):
        return fn
    new = copy.copy(fn)
    body = []
    changed = False
    for st in fn.body:
        st2 = inline_expr(repo, cls, module, st, log=log, public=public)
        changed = changed or (st2 is not st)
        body.append(st2)
    body2, ch2 = _tail_inline(repo, cls, module, body, log)
    if ch2:
        body, changed = body2, True
    if not changed:
        return fn
    new.body = body
    ast.fix_missing_locations(new)
    set_parents(new, getattr(fn, "_parent", None))
    return new


def set_parents(root, parent=None):
    """the `_parent` links the Repo puts on parsed trees, for a rebuilt tree"""
    root._parent = parent
    for n in ast.walk(root):
        for ch in ast.iter_child_nodes(n):
            ch._parent = n


def closure(repo, cls, fn, module=None, _seen=None):
    """*fn* and the private helpers it calls (methods of its class reached as self._h(...) / Cls._h(...), private
    functions of its module), transitively -- the unit a maintainer may spread one piece of logic over.
    -> list of (owner class or None, FunctionDef)"""
    seen = _seen if _seen is not None else {}
    if id(fn) in seen:
        return []
    seen[id(fn)] = True
    out = [(cls, fn)]
    for n in ast.walk(fn):
        if not isinstance(n, ast.Call):
            continue
        f = n.func
        if isinstance(f, ast.Attribute) and isinstance(f.value, ast.Name) and f.attr.startswith("_") and not f.attr.startswith("__"):
            owner = cls if f.value.id == "self" else (f.value.id if f.value.id in repo.classes else None)
            if owner is None:
                continue
            dc, h = repo.resolve_method(owner, f.attr)
            if h is not None:
                out += closure(repo, dc, h, module=repo.classes[dc].module.name, _seen=seen)
        elif isinstance(f, ast.Name) and f.id.startswith("_") and module is not None:
            h = repo.module(module).functions.get(f.id)
            if h is not None:
                out += closure(repo, None, h, module=module, _seen=seen)
    return out


# ---------------------------------------------------------------------------------------------------------------
# full inlining of private helpers (return elimination by continuation)
# ---------------------------------------------------------------------------------------------------------------
_uid = [0]


class _NoInline(Exception):
    pass


def _has_return(stmts):
    for s in stmts:
        for n in ast.walk(s):
            if isinstance(n, ast.Return):
                return True
            if isinstance(n, (ast.FunctionDef, ast.AsyncFunctionDef, ast.Lambda, ast.ClassDef)):
                break
    return False


def _ends(stmts):
    """every path through stmts ends in raise/return/continue/break"""
    from .flow import _terminates
    return _terminates(stmts)


def _elim(stmts, k, on_return):
    """statement list with `return e` replaced by on_return(e) (a list of statements) and the continuation k appended
    at every fall-through end; raises _NoInline when a return sits inside a loop / try / with."""
    if not stmts:
        return list(k)
    s, rest = stmts[0], stmts[1:]
    if isinstance(s, ast.Return):
        return on_return(s.value, s)
    if isinstance(s, ast.If) and (_has_return(s.body) or _has_return(s.orelse)):
        tail = _elim(rest, k, on_return)
        new = ast.If(test=s.test, body=_elim(s.body, tail, on_return), orelse=_elim(s.orelse, tail, on_return))
        ast.copy_location(new, s)
        if not new.body:
            new.body = [ast.copy_location(ast.Pass(), s)]
        return [new]
    if _has_return([s]):
        raise _NoInline("return inside a loop / try / with")
    return [s] + _elim(rest, k, on_return)


def _rename_locals(fn, body, suffix, keep=()):
    """clone of body with the helper's parameters and locals renamed (so that they cannot clash with the caller's)"""
    names = {a.arg for a in fn.args.posonlyargs + fn.args.args + fn.args.kwonlyargs}
    if fn.args.vararg:
        names.add(fn.args.vararg.arg)
    if fn.args.kwarg:
        names.add(fn.args.kwarg.arg)
    for b in body:
        for n in ast.walk(b):
            if isinstance(n, ast.Name) and isinstance(n.ctx, (ast.Store, ast.Del)):
                names.add(n.id)
            if isinstance(n, ast.ExceptHandler) and n.name:
                names.add(n.name)
    names -= set(keep)
    names.discard("self")

    class R(ast.NodeTransformer):
        def visit_Name(self, n):
            if n.id in names:
                return ast.copy_location(ast.Name(id=n.id + suffix, ctx=n.ctx), n)
            return n

        def visit_ExceptHandler(self, n):
            self.generic_visit(n)
            if n.name in names:
                n.name = n.name + suffix
            return n

        def visit_FunctionDef(self, n):
            return n

        def visit_Lambda(self, n):
            return n
    return [R().visit(clone(b)) for b in body], names


def _inline_call_stmts(repo, cls, module, call, result_target, log):
    """statements that stand for `result_target = call` (result_target None: call for effect); None when the callee is
    not a private helper that can be read in place"""
    c = _callee(repo, cls, module, call)
    fname = call.func.attr if isinstance(call.func, ast.Attribute) else getattr(call.func, "id", "")
    if c is None or not fname.startswith("_") or fname.startswith("__"):
        return None
    hfn, drop = c
    if any(isinstance(n, (ast.Yield, ast.YieldFrom, ast.Await)) for n in ast.walk(hfn)):
        return None
    binding = _binding(hfn, call, drop)
    if binding is None:
        return None
    body = [b for b in hfn.body if not (isinstance(b, ast.Expr) and isinstance(b.value, ast.Constant))]
    if not body:
        return None
    _uid[0] += 1
    suffix = f"__{hfn.name.strip('_')}{_uid[0]}"
    stored = {n.id for b in body for n in ast.walk(b) if isinstance(n, ast.Name) and isinstance(n.ctx, (ast.Store, ast.Del))}
    # a parameter that the helper never rebinds and that receives a plain name / attribute / constant is read as that
    # argument; any other argument is bound to a (renamed) local first
    direct = {p_: arg for p_, arg in binding.items() if p_ not in stored and (
        isinstance(arg, (ast.Name, ast.Constant)) or (isinstance(arg, ast.Attribute) and isinstance(arg.value, ast.Name)))}
    body, names = _rename_locals(hfn, body, suffix, keep=tuple(direct))
    if direct:
        body = [_Sub(direct).visit(b) for b in body]
    pre = []
    for p_, arg in binding.items():
        if p_ in direct:
            continue
        a = ast.Assign(targets=[ast.Name(id=p_ + suffix, ctx=ast.Store())], value=clone(arg))
        pre.append(ast.copy_location(a, call))

    def on_return(value, node):
        if result_target is None:
            if value is None:
                return []
            e = ast.Expr(value=value)
            return [ast.copy_location(e, node)]
        v = value if value is not None else ast.Constant(value=None)
        a = ast.Assign(targets=[clone(result_target)], value=v)
        return [ast.copy_location(a, node)]
    try:
        new = _elim(body, [], on_return)
    except _NoInline:
        return None
    if result_target is not None and not _ends(body):
        # falling off the end returns None
        pass
    if log is not None:
        log.append(hfn.name)
    out = pre + new
    for s_ in out:
        ast.fix_missing_locations(s_)
    return out


def _first_helper_call(repo, cls, module, e):
    """a private-helper call that is evaluated unconditionally in expression e (not in the right operand of and/or, an
    arm of a conditional expression, a comprehension or a lambda) and whose own arguments hold no such call; the
    innermost-leftmost one first.  Hoisting it in front of the statement reorders it with respect to sibling
    sub-expressions, which does not matter to rules that read the program (nothing is executed)."""
    def is_helper(c):
        cal = _callee(repo, cls, module, c)
        fname = c.func.attr if isinstance(c.func, ast.Attribute) else getattr(c.func, "id", "")
        return cal is not None and fname.startswith("_") and not fname.startswith("__")

    def walk(n):
        if isinstance(n, (ast.Lambda, ast.ListComp, ast.SetComp, ast.DictComp, ast.GeneratorExp)):
            return None
        if isinstance(n, ast.BoolOp):
            return walk(n.values[0])
        if isinstance(n, ast.IfExp):
            return walk(n.test)
        for ch in ast.iter_child_nodes(n):
            if isinstance(ch, (ast.expr, ast.keyword)):
                r = walk(ch.value if isinstance(ch, ast.keyword) else ch)
                if r is not None:
                    return r
        if isinstance(n, ast.Call) and is_helper(n):
            return n
        return None
    return walk(e)


def _replace_node(tree, old, new):
    class R(ast.NodeTransformer):
        def visit(self, n):
            if n is old:
                return new
            return super().visit(n)
    return R().visit(tree)


def _inline_block(repo, cls, module, stmts, log, depth):
    out, changed = [], False
    for st in stmts:
        rep = None
        if depth < MAX_DEPTH:
            if isinstance(st, ast.Expr) and isinstance(st.value, ast.Call):
                rep = _inline_call_stmts(repo, cls, module, st.value, None, log)
            elif isinstance(st, ast.Assign) and len(st.targets) == 1 and isinstance(st.value, ast.Call) \
                    and isinstance(st.targets[0], (ast.Name, ast.Attribute, ast.Tuple)):
                rep = _inline_call_stmts(repo, cls, module, st.value, st.targets[0], log)
            if rep is None and isinstance(st, (ast.If, ast.Assign, ast.Return, ast.Expr, ast.AugAssign)):
                # a helper call that is the first thing evaluated in the statement's expression: hoisted into a temporary
                fld = "test" if isinstance(st, ast.If) else "value"
                e = getattr(st, fld, None)
                if e is not None:
                    hc = _first_helper_call(repo, cls, module, e)
                    if hc is not None and not (isinstance(st, ast.Return) and hc is e):
                        _uid[0] += 1
                        tmp = ast.Name(id=f"__h{_uid[0]}", ctx=ast.Store())
                        pre = _inline_call_stmts(repo, cls, module, hc, tmp, log)
                        if pre is not None:
                            st2 = copy.copy(st)
                            load = ast.copy_location(ast.Name(id=tmp.id, ctx=ast.Load()), hc)
                            setattr(st2, fld, _swap(e, hc, load))
                            rep = pre + [st2]
        if rep is not None:
            rep2, _ = _inline_block(repo, cls, module, rep, log, depth + 1)
            out += rep2
            changed = True
            continue
        st2 = st
        for fld in ("body", "orelse", "finalbody"):
            sub = getattr(st, fld, None)
            if isinstance(sub, list) and sub and isinstance(sub[0], ast.stmt):
                sub2, ch = _inline_block(repo, cls, module, sub, log, depth)
                if ch:
                    if st2 is st:
                        st2 = copy.copy(st)
                    setattr(st2, fld, sub2)
                    changed = True
        if isinstance(st, ast.Try):
            hs, chh = [], False
            for h in st.handlers:
                b2, ch = _inline_block(repo, cls, module, h.body, log, depth)
                if ch:
                    h = copy.copy(h)
                    h.body = b2
                    chh = True
                hs.append(h)
            if chh:
                if st2 is st:
                    st2 = copy.copy(st)
                st2.handlers = hs
                changed = True
        out.append(st2)
    return out, changed


def _swap(expr, old, new):
    """clone of expr with node `old` (by identity) replaced by `new`"""
    if expr is old:
        return new
    if isinstance(expr, list):
        return [_swap(x, old, new) for x in expr]
    if not isinstance(expr, ast.AST):
        return expr
    out = type(expr)()
    for f in expr._fields:
        if hasattr(expr, f):
            setattr(out, f, _swap(getattr(expr, f), old, new))
    for a in expr._attributes:
        if hasattr(expr, a):
            setattr(out, a, getattr(expr, a))
    return out


def inline_all(repo, cls, fn, module=None, log=None, public=False):
    """*fn* with every call to a private helper (of its class or module) read in place, whatever the helper's shape:
    thin helpers as expressions, tail calls as bodies, and calls in statement / assignment / leading-condition
    position through return elimination (the helper's locals renamed apart).  Helpers with a return inside a loop or
    try are left as calls."""
    cur = inlined(repo, cls, fn, module=module, log=log, public=public)
    body, changed = _inline_block(repo, cls, module, cur.body, log, 0)
    if not changed:
        return cur
    new = copy.copy(cur)
    new.body = body
    ast.fix_missing_locations(new)
    # thin helpers / tail calls that became visible after inlining
    new2 = inlined(repo, cls, new, module=module, log=log, public=public)
    set_parents(new2, getattr(fn, "_parent", None))
    return new2


def uncomprehend(fn):
    """copy of *fn* in which a statement `T = [elt for v in it if c]` (one generator) is written as the loop it
    abbreviates: `T = []` / `for v in it: if c: T.append(elt)` -- for rules that read per-iteration statements"""
    changed = False

    def block(stmts):
        nonlocal changed
        out = []
        for st in stmts:
            if isinstance(st, ast.Assign) and len(st.targets) == 1 and isinstance(st.targets[0], ast.Name) \
                    and isinstance(st.value, ast.ListComp) and len(st.value.generators) == 1 and not st.value.generators[0].is_async:
                g = st.value.generators[0]
                name = st.targets[0].id
                init = ast.copy_location(ast.Assign(targets=[ast.Name(id=name, ctx=ast.Store())], value=ast.List(elts=[], ctx=ast.Load())), st)
                app = ast.Expr(value=ast.Call(func=ast.Attribute(value=ast.Name(id=name, ctx=ast.Load()), attr="append", ctx=ast.Load()),
                                              args=[st.value.elt], keywords=[]))
                body = [ast.copy_location(app, st)]
                for c in reversed(g.ifs):
                    body = [ast.copy_location(ast.If(test=c, body=body, orelse=[]), st)]
                loop = ast.copy_location(ast.For(target=g.target, iter=g.iter, body=body, orelse=[]), st)
                out += [init, loop]
                changed = True
                continue
            st2 = st
            for fld in ("body", "orelse", "finalbody"):
                sub = getattr(st, fld, None)
                if isinstance(sub, list) and sub and isinstance(sub[0], ast.stmt):
                    sub2 = block(sub)
                    if sub2 is not sub and any(a is not b for a, b in zip(sub2, sub)) or len(sub2) != len(sub):
                        if st2 is st:
                            st2 = copy.copy(st)
                        setattr(st2, fld, sub2)
            out.append(st2)
        return out
    body = block(fn.body)
    if not changed:
        return fn
    new = copy.copy(fn)
    new.body = body
    ast.fix_missing_locations(new)
    set_parents(new, getattr(fn, "_parent", None))
    return new
