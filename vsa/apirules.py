"""Rules on the public entry points of pvl/__init__.py and pvl/new.py
(F1 forwarding, F2 byte-wise decoding, V1 sibling diff)."""
import ast

from .core import Finding, AnalysisError, norm


def _kw(call):
    return {k.arg: k.value for k in call.keywords}


def _has_starstar(call, name="kwargs"):
    return any(k.arg is None and isinstance(k.value, ast.Name) and k.value.id == name for k in call.keywords)


def _returns(fn):
    out = []

    def walk(n):
        for c in ast.iter_child_nodes(n):
            if isinstance(c, (ast.FunctionDef, ast.Lambda, ast.ClassDef)):
                continue
            if isinstance(c, ast.Return):
                out.append(c)
            walk(c)
    walk(fn)
    return out


def forwards(call, names):
    """keyword X=X for each name, plus **kwargs"""
    kw = _kw(call)
    missing = [n for n in names if not (isinstance(kw.get(n), ast.Name) and kw[n].id == n)]
    return missing


def rule_f1(repo, res, modname):
    """F1 on the outcome terms of the entry points (vsa.entryrules)"""
    from .entryrules import rule_f1 as f1
    return f1(repo, res, modname)


def rule_f1_shape(repo, res, modname, extra_ctor_kwargs=()):
    """load/loadu/loads reach parser.parse with parser/grammar/decoder/**kwargs
    forwarded; dump writes exactly dumps(module, **kwargs); dumps returns
    encoder.encode(module)."""
    mod = repo.module(modname)
    F = lambda what, anchor, msg, node: res.add(Finding("F1", f"{modname}.{what}", anchor, msg,
                                                         where=f"pvl/{modname}.py:{getattr(node, 'lineno', '?')}"))
    # load / loadu -> loads(...)
    for name in ("load", "loadu"):
        fn = mod.functions.get(name)
        if fn is None:
            raise AnalysisError(f"anchor vanished: pvl/{modname}.py:{name}")
        rets = _returns(fn)
        res.floor(f"{modname}.{name} returns", len(rets), 1)
        for r in rets:
            c = r.value
            ok = isinstance(c, ast.Call) and isinstance(c.func, ast.Name) and c.func.id == "loads"
            missing = forwards(c, ("parser", "grammar", "decoder")) if ok else ["loads(...)"]
            if ok and not _has_starstar(c):
                missing.append("**kwargs")
            res.oblige("F1", f"{modname}.{name}: returns loads(text, parser=parser, grammar=grammar, decoder=decoder, **kwargs)",
                       ok=not missing)
            if missing:
                F(name, "return loads(...)", f"{modname}.{name} does not forward {', '.join(missing)} to loads(): the "
                  "file/stream/URL entry point and the string entry point use different parser configurations", r)
    # loads
    fn = mod.functions.get("loads")
    if fn is None:
        raise AnalysisError(f"anchor vanished: pvl/{modname}.py:loads")
    svar = fn.args.args[0].arg
    ctor = [n for n in ast.walk(fn) if isinstance(n, ast.Assign) and isinstance(n.value, ast.Call)
            and isinstance(n.targets[0], ast.Name) and n.targets[0].id == "parser"]
    ok = len(ctor) == 1
    if ok:
        c = ctor[0].value
        missing = forwards(c, ("grammar", "decoder"))
        if not _has_starstar(c):
            missing.append("**kwargs")
        if norm(c.func) != "OmniParser":
            missing.append("default parser class OmniParser")
        # guarded by `if parser is None`
        p = getattr(ctor[0], "_parent", None)
        if not (isinstance(p, ast.If) and norm(p.test) == "parser is None" and ctor[0] in p.body):
            missing.append("guard `if parser is None`")
        res.oblige("F1", f"{modname}.loads: default parser built with grammar=grammar, decoder=decoder, **kwargs", ok=not missing)
        if missing:
            F("loads", "parser = OmniParser(...)", f"{modname}.loads: {', '.join(missing)} missing when building the "
              "default parser", ctor[0])
    else:
        res.oblige("F1", f"{modname}.loads builds the default parser once", ok=False)
        F("loads", "parser = OmniParser(...)", "loads() no longer builds its default parser in one place", fn)
    rets = _returns(fn)
    for r in rets:
        okr = isinstance(r.value, ast.Call) and norm(r.value.func) == "parser.parse" and len(r.value.args) == 1 \
            and isinstance(r.value.args[0], ast.Name) and r.value.args[0].id == svar
        res.oblige("F1", f"{modname}.loads: returns parser.parse({svar})", ok=okr)
        if not okr:
            F("loads", "return parser.parse(s)", "loads() does not return parser.parse(<its text argument>)", r)
    # bytes are decoded before parsing
    dec = [n for n in ast.walk(fn) if isinstance(n, ast.If) and "isinstance" in norm(n.test) and "bytes" in norm(n.test)]
    okd = any(any(isinstance(b, ast.Assign) and norm(b) == f"{svar} = {svar}.decode()" for b in n.body) for n in dec)
    res.oblige("F1", f"{modname}.loads: a bytes argument is decoded to str before parsing", ok=okd)
    if not okd:
        F("loads", "bytes decoding", "loads() no longer decodes a bytes argument before parsing: str and bytes "
          "entry points disagree", fn)
    # dump
    fn = mod.functions.get("dump")
    if fn is None:
        raise AnalysisError(f"anchor vanished: pvl/{modname}.py:dump")
    mvar = fn.args.args[0].arg
    rets = _returns(fn)
    res.floor(f"{modname}.dump returns", len(rets), 3)
    for r in rets:
        c = r.value
        ok = isinstance(c, ast.Call) and isinstance(c.func, ast.Attribute) and c.func.attr in ("write", "write_text") \
            and len(c.args) == 1 and not c.keywords
        form = None
        if ok:
            a = c.args[0]
            enc = False
            if isinstance(a, ast.Call) and isinstance(a.func, ast.Attribute) and a.func.attr == "encode" and not a.args:
                enc = True
                a = a.func.value
            ok = isinstance(a, ast.Call) and isinstance(a.func, ast.Name) and a.func.id == "dumps" and len(a.args) == 1 \
                and isinstance(a.args[0], ast.Name) and a.args[0].id == mvar and _has_starstar(a) and \
                all(k.arg is None for k in a.keywords)
            form = "bytes" if enc else "text"
            if ok and c.func.attr == "write":
                # text for text streams, the encoded form for everything else: polarity of the enclosing TextIOBase test
                p = getattr(r, "_parent", None)
                ok = isinstance(p, ast.If) and "TextIOBase" in norm(p.test)
                if ok:
                    negated = isinstance(p.test, ast.UnaryOp) and isinstance(p.test.op, ast.Not)
                    is_text_branch = (r in p.body) != negated
                    ok = is_text_branch != enc
        res.oblige("F1", f"{modname}.dump `{norm(r, 70)}` writes exactly dumps({mvar}, **kwargs) ({form})", ok=ok)
        if not ok:
            F("dump", norm(r, 70), f"{modname}.dump has a return that does not write exactly dumps({mvar}, **kwargs) "
              "(text for paths and text streams, its .encode() for binary streams) and return the writer's count", r)
    # dumps
    fn = mod.functions.get("dumps")
    if fn is None:
        raise AnalysisError(f"anchor vanished: pvl/{modname}.py:dumps")
    mvar = fn.args.args[0].arg
    ctor = [n for n in ast.walk(fn) if isinstance(n, ast.Assign) and isinstance(n.value, ast.Call)
            and isinstance(n.targets[0], ast.Name) and n.targets[0].id == "encoder"]
    ok = len(ctor) == 1
    missing = []
    if ok:
        c = ctor[0].value
        missing = forwards(c, ("grammar", "decoder"))
        if not _has_starstar(c):
            missing.append("**kwargs")
        if norm(c.func) != "PDSLabelEncoder":
            missing.append("default encoder class PDSLabelEncoder")
    res.oblige("F1", f"{modname}.dumps: default encoder PDSLabelEncoder(grammar=grammar, decoder=decoder, **kwargs)",
               ok=ok and not missing)
    if not ok or missing:
        F("dumps", "encoder = PDSLabelEncoder(...)", f"{modname}.dumps: {', '.join(missing) or 'default encoder construction'} "
          "missing", fn)
    for r in _returns(fn):
        okr = isinstance(r.value, ast.Call) and norm(r.value.func) == "encoder.encode" and len(r.value.args) == 1 \
            and isinstance(r.value.args[0], ast.Name) and r.value.args[0].id == mvar
        res.oblige("F1", f"{modname}.dumps: returns encoder.encode({mvar})", ok=okr)
        if not okr:
            F("dumps", "return encoder.encode(module)", "dumps() does not return encoder.encode(<its module argument>)", r)


def rule_f2(repo, res):
    """F2: decode_by_char must not call bytes.decode() on the result of a
    one-byte read: a single byte cannot carry a multi-byte character, so a
    binary stream and a bytes object disagree on any non-ASCII label."""
    fn = repo.full_function("__init__", "decode_by_char")
    # names bound to single-byte reads: for X in iter(lambda: f.read(1), ...) / X = f.read(1)
    onebyte = set()
    for n in ast.walk(fn):
        if isinstance(n, ast.For) and isinstance(n.target, ast.Name):
            src = norm(n.iter, 200)
            # iter(lambda: f.read(1), b"") / iter(partial(f.read, 1), b"")
            if ".read(1)" in src or ("partial(" in src and ".read, 1)" in src):
                onebyte.add(n.target.id)
        if isinstance(n, ast.Assign) and isinstance(n.targets[0], ast.Name) and ".read(1)" in norm(n.value):
            onebyte.add(n.targets[0].id)
    res.floor("one-byte reads in decode_by_char", len(onebyte), 1)
    sites = [n for n in ast.walk(fn) if isinstance(n, ast.Call) and isinstance(n.func, ast.Attribute)
             and n.func.attr == "decode"]
    res.floor("decode calls in decode_by_char", len(sites), 1)
    for c in sites:
        bad = isinstance(c.func.value, ast.Name) and c.func.value.id in onebyte
        res.oblige("F2", f"decode_by_char `{norm(c)}` does not decode a single byte in isolation", ok=not bad)
        if bad:
            res.add(Finding("F2", "__init__.decode_by_char", norm(c),
                            f"`{norm(c)}` decodes the result of a one-byte read in isolation: any multi-byte UTF-8 "
                            "character raises UnicodeDecodeError there and is taken for the end of the label, so a "
                            "binary stream (or URL) gives a different result from the same bytes passed to loads()",
                            where=f"pvl/__init__.py:{c.lineno}"))


def rule_f2b(repo, res):
    """F2b: the end-of-stream test of decode_by_char must look at what read() returned, not at decoded text: an
    incremental decoder returns '' for the lead byte(s) of a multi-byte character, which is not the end of the
    stream."""
    fn = repo.full_function("__init__", "decode_by_char")
    loops = [n for n in ast.walk(fn) if isinstance(n, (ast.For, ast.While))]
    res.floor("read loops in decode_by_char", len(loops), 1)
    for lp in loops:
        # names (re)assigned from a .decode(...) call inside the loop
        decoded = set()
        for n in ast.walk(lp):
            if isinstance(n, ast.Assign) and isinstance(n.value, ast.Call) and isinstance(n.value.func, ast.Attribute) \
                    and n.value.func.attr == "decode":
                for t in n.targets:
                    if isinstance(t, ast.Name):
                        decoded.add(t.id)
        breaks = [n for n in ast.walk(lp) if isinstance(n, (ast.Break, ast.Return))]
        for b in breaks:
            conds = []
            a = b
            while a is not None and a is not lp:
                p_ = getattr(a, "_parent", None)
                if isinstance(p_, ast.If):
                    conds.append(p_.test)
                a = p_
            names = {x.id for c in conds for x in ast.walk(c) if isinstance(x, ast.Name)}
            calls = [x for c in conds for x in ast.walk(c) if isinstance(x, ast.Call) and isinstance(x.func, ast.Attribute) and x.func.attr == "decode"]
            # guarded by isinstance(elem, str)?  (a str element comes from a text stream and is never decoded)
            str_guard = any("isinstance" in norm(c) and "str" in norm(c) and not norm(c).startswith("not ") for c in conds)
            bad = bool((names & decoded) or calls) and not str_guard
            res.oblige("F2", f"decode_by_char: `{norm(conds[0], 50) if conds else 'unconditional'}` -> {type(b).__name__.lower()} "
                             "does not take decoded text '' for the end of the stream", ok=not bad)
            if bad:
                res.add(Finding("F2", "__init__.decode_by_char", "end-of-stream test on decoded text",
                                "decode_by_char leaves its read loop when the *decoded* text is empty; an incremental "
                                "decoder returns '' for the first byte(s) of a multi-byte character, so the label is cut "
                                "at the first non-ASCII character when read from a binary stream or URL",
                                where=f"pvl/__init__.py:{b.lineno}"))


def rule_f3(repo, res):
    """F3: get_text_from re-reads an already-open stream (binary fall-back) from the position the stream had when
    it was handed in: every <stream>.seek(x) gets an x that derives from <stream>.tell() taken before the read
    (taint walk).  A constant offset re-reads from somewhere else, so a stream positioned past a header gives one
    text through the text path and another through the binary fall-back."""
    from . import flow
    for mod in ("__init__",):
        fn = repo.full_function(mod, "get_text_from")
        stream = fn.args.args[0].arg
        is_tell = lambda e: isinstance(e, ast.Call) and isinstance(e.func, ast.Attribute) and e.func.attr == "tell" \
            and norm(e.func.value) == stream
        is_seek = lambda c: isinstance(c.func, ast.Attribute) and c.func.attr == "seek" and norm(c.func.value) == stream
        seeks = [n for n in ast.walk(fn) if isinstance(n, ast.Call) and is_seek(n)]
        hits = {id(c) for c, _, _ in flow.sinks(fn, is_tell, is_seek)}
        res.floor("seek calls on the stream in get_text_from", len(seeks), 1)
        for c in seeks:
            ok = id(c) in hits and len(c.args) == 1 and not c.keywords
            res.oblige("F3", f"get_text_from `{norm(c)}` returns to the position saved by {stream}.tell()", ok=ok)
            if not ok:
                res.add(Finding("F3", "__init__.get_text_from", "seek target",
                                f"`{norm(c)}` does not return to the position the stream had before the read (a value of "
                                f"{stream}.tell()): a stream handed in at an offset is re-read from another place on the binary "
                                "fall-back path, so text and binary streams over the same bytes give different modules",
                                where=f"pvl/__init__.py:{c.lineno}"))


def rule_f5(repo, res):
    """F5: the character-by-character fall-back reads *bytes*.  decode_by_char stops at the first undecodable element
    of a stream it reads one unit at a time; that finds the end of the label only on a byte stream -- a text stream
    decodes a whole buffered chunk for each read(1), so the UnicodeDecodeError arrives before any character of the
    label is returned.  Every argument of decode_by_char in the package is therefore a byte-level stream: opened in
    the same function with mode "rb", the response of urlopen, or -- for a stream the caller opened -- its `.buffer`
    (`getattr(stream, "buffer", stream)`).  A bare parameter handed on inside an `except UnicodeDecodeError` handler
    is exactly the case where the stream is a text stream (only a text stream's read() raises it)."""
    n = 0
    for mname in ("__init__", "new", "pvl_translate", "pvl_validate"):
        if mname not in repo.modules:
            continue
        mod = repo.module(mname)
        for fname, fn in mod.functions.items():
            params = {a.arg for a in fn.args.posonlyargs + fn.args.args + fn.args.kwonlyargs}
            for call in [x for x in ast.walk(fn) if isinstance(x, ast.Call) and norm(x.func).split(".")[-1] == "decode_by_char" and x.args]:
                n += 1
                a = call.args[0]
                kind = None
                if isinstance(a, ast.Name):
                    # bound by `with open(.., mode="rb") as f` / `with urlopen(..) as resp` / f = open(.., "rb")
                    for w in ast.walk(fn):
                        items = w.items if isinstance(w, (ast.With, ast.AsyncWith)) else []
                        for it in items:
                            if isinstance(it.optional_vars, ast.Name) and it.optional_vars.id == a.id and isinstance(it.context_expr, ast.Call):
                                src = norm(it.context_expr, 200)
                                if norm(it.context_expr.func).split(".")[-1] == "urlopen":
                                    kind = "response of urlopen"
                                elif norm(it.context_expr.func).split(".")[-1] == "open" and ("'rb'" in src or '"rb"' in src):
                                    kind = "opened here in binary mode"
                        if isinstance(w, ast.Assign) and any(isinstance(t, ast.Name) and t.id == a.id for t in w.targets) \
                                and isinstance(w.value, ast.Call) and norm(w.value.func).split(".")[-1] == "open" and "rb" in norm(w.value, 200):
                            kind = "opened here in binary mode"
                    if kind is None and a.id in params:
                        # a stream of the caller: is this call inside a handler of UnicodeDecodeError / UnicodeError?
                        x = call
                        in_handler = False
                        while x is not None and x is not fn:
                            if isinstance(x, ast.ExceptHandler) and x.type is not None and "Unicode" in norm(x.type):
                                in_handler = True
                            x = getattr(x, "_parent", None)
                        kind = "TEXT?" if in_handler else "caller's stream"
                elif isinstance(a, ast.Attribute) and a.attr == "buffer":
                    kind = "the byte buffer of the stream"
                elif isinstance(a, ast.Call) and norm(a.func) == "getattr" and len(a.args) == 3 and isinstance(a.args[1], ast.Constant) \
                        and a.args[1].value == "buffer":
                    kind = "the byte buffer of the stream when it has one"
                elif isinstance(a, ast.Call) and norm(a.func).split(".")[-1] == "open" and "rb" in norm(a, 200):
                    kind = "opened here in binary mode"
                ok = kind != "TEXT?"
                if kind is None:
                    res.notes.append(f"F5: the kind of `{norm(a, 60)}` in {mname}.{fname} is not decided (not a parameter in a Unicode handler)")
                res.oblige("F5", f"{mname}.{fname}: `{norm(call, 70)}` reads a byte-level stream ({kind or 'not a stream of the caller whose read() failed'})", ok=ok)
                if not ok:
                    msg = (f"{mname}.{fname} hands `{norm(a, 60)}` -- a stream whose read() has just raised UnicodeDecodeError, i.e. a "
                           "text stream -- to decode_by_char: a text stream decodes a whole buffered chunk for each read(1), so the "
                           "fall-back returns nothing (or a cut label) for a file with an undecodable tail, while the same file given "
                           "as a path or a binary stream loads") if kind == "TEXT?" else \
                        f"{mname}.{fname} hands `{norm(a, 60)}` to decode_by_char and it is not a byte-level stream the rule knows"
                    res.add(Finding("F5", f"{mname}.{fname}", f"`{norm(call, 70)}`", msg, where=f"pvl/{mname}.py:{call.lineno}"))
    res.floor("calls of decode_by_char", n, 2)


def rule_f2c(repo, res):
    """F2c: decode_by_char never lets a UnicodeError out: it is the fall-back for files whose tail cannot be decoded, and
    returns what could be decoded.  Every call that can raise one -- `<decoder>.decode(...)`, `<bytes>.decode(...)`,
    `str(<bytes>, ...)` -- lies in the *body* of a try statement that has a handler for UnicodeError / UnicodeDecodeError
    (or a broader one); the else / finally clauses and the code after the try are not covered by that handler (a final
    flush `decode(b"", final=True)` placed there raises "unexpected end of data" for a text cut inside a character)."""
    fn = repo.full_function("__init__", "decode_by_char")
    calls = [n for n in ast.walk(fn) if isinstance(n, ast.Call) and isinstance(n.func, ast.Attribute) and n.func.attr == "decode"]
    res.floor("decode calls in decode_by_char", len(calls), 1)
    for c in calls:
        covered = False
        x = c
        while x is not None and x is not fn:
            p = getattr(x, "_parent", None)
            if isinstance(p, ast.Try) and x in p.body and any(
                    h.type is None or any(k in norm(h.type) for k in ("UnicodeError", "UnicodeDecodeError", "ValueError", "Exception"))
                    for h in p.handlers):
                covered = True
            x = p
        res.oblige("F2c", f"decode_by_char `{norm(c, 50)}` lies in a try body with a handler for UnicodeError", ok=covered)
        if not covered:
            res.add(Finding("F2c", "__init__.decode_by_char", f"`{norm(c, 50)}` outside the guarded body",
                            f"decode_by_char calls `{norm(c, 60)}` where no handler for UnicodeError covers it (an else / finally clause, "
                            "or after the try): for a file that ends inside a multi-byte character the fall-back raises "
                            "UnicodeDecodeError instead of returning the decodable text, and pvl_validate / pvl_translate die on a file "
                            "the library's own prefix decoding would load", where=f"pvl/__init__.py:{c.lineno}"))


def rule_re_flag_pos(repo, res):
    """RE-FLAG-POS: a regex flag is never passed in the position of a count: the fourth positional argument of
    re.sub / re.subn is `count` and the third of re.split is `maxsplit`; `re.sub(p, r, s, re.MULTILINE)` silently limits
    the substitution to 8 occurrences (the flag's integer value) instead of changing how the pattern matches."""
    n = 0
    FLAGS = {"re.MULTILINE", "re.M", "re.IGNORECASE", "re.I", "re.DOTALL", "re.S", "re.ASCII", "re.A", "re.VERBOSE", "re.X", "re.UNICODE", "re.U", "re.LOCALE", "re.L"}

    def is_flag(e):
        if norm(e) in FLAGS:
            return True
        if isinstance(e, ast.BinOp) and isinstance(e.op, ast.BitOr):
            return is_flag(e.left) or is_flag(e.right)
        return False
    for mname, mod in repo.modules.items():
        for call in [x for x in ast.walk(mod.tree) if isinstance(x, ast.Call) and norm(x.func) in ("re.sub", "re.subn", "re.split")]:
            n += 1
            pos = 3 if norm(call.func) in ("re.sub", "re.subn") else 2
            bad = len(call.args) > pos and is_flag(call.args[pos])
            res.oblige("RE-FLAG-POS", f"{mname}: `{norm(call, 60)}` passes no flag in the count / maxsplit position", ok=not bad)
            if bad:
                res.add(Finding("RE-FLAG-POS", f"{mname}", f"`{norm(call, 60)}`",
                                f"pvl/{mname}.py calls `{norm(call, 80)}`: `{norm(call.args[pos])}` is taken for the "
                                f"{'count' if pos == 3 else 'maxsplit'} argument, so only that many occurrences are handled and the rest of "
                                "the text is left as it was (dash continuations beyond the eighth are not joined)",
                                where=f"pvl/{mname}.py:{call.lineno}"))
    res.floor("re.sub / re.subn / re.split calls in the package", n, 2)


def rule_f2d(repo, res):
    """F2d: decode_by_char returns the decoded text as it is: no replace / strip / translate / case method is applied to
    the decoded pieces (a per-piece `replace("\\r", "\\n")` turns every CR LF into two line ends: every line number after the
    first line of a CR LF label read from a byte stream is wrong)."""
    fn = repo.full_function("__init__", "decode_by_char")
    bad = [x for x in ast.walk(fn) if isinstance(x, ast.Call) and isinstance(x.func, ast.Attribute)
           and x.func.attr in ("replace", "strip", "lstrip", "rstrip", "translate", "lower", "upper", "expandtabs", "splitlines")]
    res.oblige("F2d", "decode_by_char applies no text-changing method to what it decodes", ok=not bad)
    for x in bad:
        res.add(Finding("F2d", "__init__.decode_by_char", f"`{norm(x, 50)}`",
                        f"decode_by_char changes the decoded text with `{norm(x, 60)}`: the byte-stream entry points then hand the parser "
                        "another text than the path and string entry points (line ends doubled or dropped: wrong line numbers, values of "
                        "multi-line strings changed)", where=f"pvl/__init__.py:{x.lineno}"))
