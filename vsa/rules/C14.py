"""C14 -- date and time values keep their type, instant and time-zone meaning."""
from .. import tablerules, timerules


def run(repo, res, tier):
    res.explanation = (
        "TB6: per-grammar tables (default zone UTC for PVL/ISIS/PDS3/Omni and none for ODL; leap-second patterns exactly "
        "in the PVL family; date/time/datetime format tables are the product of the date and time forms with optional "
        "Z). Reader structure: trial order date/time/datetime with .date()/.time(), Z -> UTC, default zone only when "
        "none; ODL offset built from the hour/minute groups with sign; PDS3 resolves past the ODL offset code and "
        "rejects sub-millisecond precision; leap-second guard. Writer: R1 each effective encode_time (through its "
        "super() chain) consumes hour, minute, second, microsecond and the zone of its argument; R2 the writer can "
        "emit both signs the reader's offset pattern accepts; R3 a fraction after '.' is %f or zero-padded; R4 the "
        "language of zone suffixes the ODL encoder writes (f-string templates) is included in the language of the "
        "ODL decoder's offset pattern (DFA inclusion, witness). Not decided: calendar arithmetic, which spellings "
        "strptime admits.")
    tablerules.rule_tb6(repo, res)
    timerules.rule_decode_side(repo, res)
    timerules.rule_r(repo, res)
    from .. import langrules
    langrules.rule_lex1(repo, res, langrules.analyse(repo), kinds=("date/time",))
    # every text a time writer can return is a time for its own reader (all return paths, as languages)
    from .. import timerules as _tr
    _tr.rule_time_lang(repo, res)
    # the dialect's rules for times live in the decoder (and grammar) the caller chose: the file entry points hand both on
    from .. import entryrules as _er14
    _er14.rule_f1(repo, res, "__init__")
    # a date-time (or an instance of a subclass of datetime) is written as a date-time: the dispatch of encode_datetype tests
    # membership (isinstance), the subclass before its superclass
    from .. import encrules as _enc14
    _enc14.rule_d1(repo, res)
    # "rejects" means the refusal reaches the caller: a LexerError the decoder's refusal turns into is not caught and dropped
    # by a broader handler on its way out of the parser (token-protocol interpreter, rule T2)
    from .. import parserules as _pr14
    _an14 = _pr14.analyse(repo)
    _pr14.add_rule(res, _an14, "T2")
    # the leap-second tables are found where the decoder looks for them
    from .. import tablerules as _tb14
    _tb14.rule_getattr_name(repo, res)
    _tb14.rule_time_frags(repo, res)
