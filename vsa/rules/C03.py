"""C03 -- well-formed text decodes to the values the dialect grammar assigns."""
from .. import tablerules, langrules, parserules, effects, decrules, hookrules


def run(repo, res, tier):
    res.explanation = (
        "Table- and language-level agreement inside the reader, for all five grammar classes (tables resolved by "
        "loading pvl/grammar.py in isolation): TB1 derived keyword tables agree with their sources after inheritance; "
        "TB2 every literal the parser compares a token with is a reserved character (collected from the parser's "
        "AST); TB4 quotes/units delimiters reserved, whitespace tables; TB5 preferred keywords pair up in the keyword "
        "tables; TB8 lexer/decoder agreement on based integers (DFA inclusion both ways, with witness); N1 no "
        "spelling outside the numeric grammar is accepted by decode_decimal (language of int()/float() models); "
        "LEX1 the lexer's end-of-lexeme decision (DFAs derived from the ASTs of lex_continue and the yield condition) never "
        "splits a decimal, based integer or date/time the decoder accepts as one value; "
        "AGG aggregation_cls builds the group class exactly under a test on group_keywords and the object class exactly under a test on object_keywords; T6 a comment/white-space run is skipped before every significant token read. "
        "Not decided: the denotation of each spelling (values are not computed), lexeme boundaries next to + # -.")
    tablerules.rule_tb1(repo, res)
    effects.rule_e4(repo, res)
    decrules.rule_gd1(repo, res)
    decrules.rule_n2(repo, res)
    tablerules.rule_tb2_tb4(repo, res)
    tablerules.rule_tb5(repo, res)
    from .. import pairrules
    pairrules.rule_pair(repo, res)
    from .. import hookrules as _hk
    _hk.rule_token_init(repo, res)
    hookrules.rule_aggcls(repo, res, rule="AGG")
    an = langrules.analyse(repo)
    langrules.rule_tb8(repo, res, an)
    langrules.rule_nondec_spec(repo, res, an)
    langrules.rule_kw_excl(repo, res, an)
    langrules.rule_dash(repo, res, an)
    langrules.rule_fold(repo, res, an)
    effects.rule_shared_class_state(repo, res)
    effects.rule_memo(repo, res)
    langrules.rule_lex1(repo, res, an)
    langrules.rule_q1(repo, res, an)
    langrules.rule_n1(repo, res, an)
    pan = parserules.analyse(repo)
    t6 = parserules.add_rule(res, pan, "T6")
    t8 = parserules.add_rule(res, pan, "T8")
    for s in parserules.event_sites(pan, "next"):
        res.oblige("T6", s, ok=not any(f"{f.function} `{f.anchor}`" == s for f in t6))
    # a real number of the decoder's real_cls followed by units is a quantity for the strict ODL parser too
    from .. import hookrules as _hk2
    _hk2.rule_h2(repo, res)
    # values of the caller's substitute classes keep their class inside sets and sequences: no per-element conversion
    from .. import hookrules as _hk4
    _hk4.rule_h4(repo, res)
    # the lexer's preservation states follow the grammar's tables: what opens and closes a quoted string, a units
    # expression and a based integer, and everything between is kept verbatim (explicit-state, per grammar)
    from .. import lexsim as _ls9
    _ls9.rule_preserve_kind(repo, res)
    # the lexer works with the parser's own grammar and decoder
    from .. import hookrules as _hkla
    _hkla.rule_lexer_args(repo, res)
    # the entry points hand the caller's text to the parser as it is (no trimming, cutting or re-encoding on the way)
    from .. import entryrules as _er3
    _er3.rule_f1(repo, res, "__init__")
    from .. import tablerules as _tb3
    _tb3.rule_tb_char(repo, res)
    # OBJECT blocks become object containers and GROUP blocks group containers also through the pvl.new loaders: the
    # container classes they hand to the parser are the module / group / object classes of that family, each under its own keyword
    if "new" in repo.modules:
        from .. import hookrules as _hkv3
        _hkv3.rule_v1(repo, res)
    # a parameter or block name is what the decoder takes for an unquoted string: the token predicate does not refuse any of those
    # (the other direction -- the predicate accepts more than the decoder -- is C17's)
    from .. import langrules as _lr3
    _lr3.rule_g2(repo, res, _lr3.analyse(repo), directions=("decoder-only",))
    from .. import apirules as _ap3
    _ap3.rule_re_flag_pos(repo, res)
    from .. import hookrules as _hkpa
    _hkpa.rule_parse_append(repo, res)
