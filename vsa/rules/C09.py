"""C09 -- file, stream and string entry points agree; nothing after END matters."""
from .. import parserules, lexrules, apirules


def run(repo, res, tier):
    an = parserules.analyse(repo)
    parserules.common_stats(res, an)
    res.explanation = (
        "T7: from the point where is_end_statement() holds to the return of parse(), no event pulls a token (all "
        "paths, five pairings; token-protocol interpreter). LAZY: lexer() is a generator and reads its text only "
        "through bounded look-around forms. F1: load/loadu/loads (pvl and pvl.new) forward parser/grammar/decoder/"
        "**kwargs and reach parser.parse with the caller's text; every return of dump() writes exactly "
        "dumps(module, **kwargs) or its .encode() for binary targets; dumps returns encoder.encode(module). "
        "F2: decode_by_char does not decode one-byte reads in isolation. Not decided: buffering-dependent "
        "fall-backs, equality of modules.")
    t7 = parserules.add_rule(res, an, "T7")
    bad = {f"{f.function} `{f.anchor}`" for f in t7}
    for s in parserules.event_sites(an, "next") + parserules.event_sites(an, "for_tokens"):
        res.oblige("T7", s + " is not reached after END", ok=s not in bad)
    lexrules.rule_lazy(repo, res)
    lexrules.rule_lookahead(repo, res)
    from .. import langrules
    langrules.rule_lookahead_lang(repo, res, langrules.analyse(repo))
    # CR LF labels read through binary entry points keep their CR: the dash-continuation removal covers every line end
    langrules.rule_dash(repo, res, langrules.analyse(repo))
    langrules.rule_dash_doc(repo, res)
    apirules.rule_f1(repo, res, "__init__")
    if "new" in repo.modules:
        apirules.rule_f1(repo, res, "new")
    apirules.rule_f2(repo, res)
    apirules.rule_f2b(repo, res)
    apirules.rule_f3(repo, res)
    # what follows END is ignored because a character outside the dialect's set ends the END lexeme: the character
    # tables themselves (bytes of attached image data must not become part of the token)
    from . import common as _c
    _c.rule_i1(repo, res)
    # the same file gives the same text whether a path, an open file or a stream is handed over (the command-line
    # tools hand over open files, the library functions usually paths)
    from .. import entryrules as _er
    _er.rule_f4(repo, res)

    # the by-character fall-back for files with an undecodable tail reads bytes, also for an already-open text stream
    from .. import apirules as _ap5
    _ap5.rule_f5(repo, res)
    # the entry points forward parser / grammar / decoder in the callee's order
    from .. import hookrules as _hkao
    _hkao.rule_arg_order(repo, res)
    # nothing after END matters: the repair hook hands END back to the production that recognises it
    _hkao.rule_hook_peek(repo, res)
    _ap5.rule_f2c(repo, res)
    _ap5.rule_f2d(repo, res)
    # END is recognised as END whatever decoder the caller chose: no decoder takes a block keyword or END for a value
    from .. import langrules as _lr9
    _lr9.rule_kw_excl(repo, res, _lr9.analyse(repo))
