"""C08 -- missing values are tolerated by the default loader and located exactly."""
from .. import effects, parserules


def run(repo, res, tier):
    res.explanation = (
        "E1: who-may-construct EmptyValueAtLine (permissive parser only), def-use of the line number (the same value "
        "goes to the placeholder and to self.errors on every path; it is linecount(self.doc, position of the preceding "
        "'=')), and parse() assigns sorted(self.errors) to the module it returns. E2: for the strict parser classes "
        "the two empty-value hooks resolve (MRO) to bodies that raise on every path, and ParseError from running out "
        "of tokens after '=' is not caught. E3: self.doc and the lexed text are one object; a whole-document regex "
        "rewrite before lexing must not remove line feeds (regex syntax tree). E7: the placeholder's constructor stores the line number on the instance it returns. E8: the position handed to _empty_value is a token position or the found '=' plus a constant that keeps the '=' inside the search. E-STATE: self.errors is fresh per "
        "parse() call. T4: the permissive hook makes progress (no spin). F1: the text the parser numbers is the caller's (outcome terms of the entry points). Not decided: that the recorded number is "
        "right for every neighbourhood; order of statements.")
    effects.rule_e1(repo, res)
    effects.rule_e2(repo, res)
    effects.rule_e3(repo, res)
    effects.rule_e4(repo, res)
    effects.rule_e5(repo, res)
    effects.rule_e6(repo, res)
    effects.rule_e7(repo, res)
    effects.rule_e8(repo, res)
    from .. import hookrules
    hookrules.rule_hook_tail(repo, res)
    from .. import langrules
    langrules.rule_kw_excl(repo, res, langrules.analyse(repo))
    effects.rule_estate(repo, res, families=("PVLParser",), floor=2)
    # the recorded line numbers count lines of the caller's text: the entry points hand it to the parser unchanged
    from .. import entryrules
    entryrules.rule_f1(repo, res, "__init__")
    an = parserules.analyse(repo)
    t4 = parserules.add_rule(res, an, "T4")
    t4keys = {f"{f.function} `{f.anchor}`" for f in t4}
    for w in parserules.event_sites(an, "while"):
        res.oblige("T4", w, ok=w not in t4keys, detail="the empty-value repair hook consumes a token on every cycle")
    # the token in front of which an empty value is supplied: reserved keywords and statement delimiters only
    from .. import langrules as _lr5
    _lr5.rule_hook_lang(repo, res, _lr5.analyse(repo))
    # the name the repair hook gives the next statement is the text that stood in the label
    from .. import hookrules as _hk8
    _hk8.rule_token_src(repo, res)
    # token positions index the parser's own copy of the text (self.doc): the lexer does not work on a rewritten one
    from .. import lexrules as _lx8
    _lx8.rule_lex_text(repo, res)
    # the repair hook edits the module through pop() / append(): both representations of the container stay in step
    from .. import multidict as _md8
    _md8.rule_m2(repo, res)
    # consecutive missing values: progress made by the repair hook keeps the module loop going
    hookrules.rule_hook_flag(repo, res)
    # the whole-document rewrite that produces self.doc handles every occurrence (no flag in the count position)
    from .. import apirules as _ap8
    _ap8.rule_re_flag_pos(repo, res)
    _ap8.rule_f2d(repo, res)
