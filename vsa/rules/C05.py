"""C05 -- ill-formed text is rejected, never silently truncated.

Decides the parser's own error-signalling contract on all paths (DESIGN 3/C05):
T1 push-back, T2 LexerError pass-through, T5 single push-back, T8 fall-through,
L-YIELD (every yield of the lexer sits inside the ValueError->LexerError try).
"""
import ast

from ..core import Finding, norm, AnalysisError
from .. import parserules
from . import common


def run(repo, res, tier):
    an = parserules.analyse(repo, lexer_escapes=common.lexer_escapes(repo))
    parserules.common_stats(res, an)
    res.explanation = (
        "Abstract interpretation of the token-stream protocol over every path of every parser function "
        "(states: pushed-back/fresh/exhausted/dead generator, bounds on consumed tokens per enclosing try, "
        "exception class), for the five bundled parser/decoder/grammar pairings, following calls into decoder "
        "and Token methods. Rules: T1 (a production that fails with a plain ValueError after consuming tokens "
        "lets the caller continue => statements silently dropped), T2 (a handler can swallow LexerError), "
        "T2P (a catch-all handler takes a ParseError and carries on), T5 (send into an occupied push-back slot), T8 (value-returning production can fall off its end), "
        "T9 (must-pass-through: a block production returns only after its end statement was parsed), "
        "L-YIELD (every lexer yield is inside the try that converts a thrown ValueError to LexerError). "
        "UNITS-LANG (the language of units tokens parse_units accepts, by DFA pre-images of strip/slice/partition, is "
        "<delim> text-without-delimiters <delim> and the units text handed on is that interior without surrounding "
        "white space). Decides the error-signalling contract, not completeness of the grammar.")
    res.assumptions = ["generator protocol of next/send/throw (frozen table, DESIGN 2.5)",
                       "library may-raise table (DESIGN 2.4)"]
    t1 = parserules.add_rule(res, an, "T1")
    common.triage_aggregation_cls(repo, res, t1)
    t1 = [f for f in t1 if f in res.findings]
    t2 = parserules.add_rule(res, an, "T2")
    t2p = parserules.add_rule(res, an, "T2P")
    t2pkeys = {(f.function, f.anchor) for f in t2p}
    t2s = parserules.add_rule(res, an, "T2S")
    t2skeys = {(f.function, f.anchor) for f in t2s}
    t5 = parserules.add_rule(res, an, "T5")
    t8 = parserules.add_rule(res, an, "T8")
    t9 = parserules.add_rule(res, an, "T9")
    blocks = parserules.event_sites(an, "block_exits")
    res.floor("block productions", len(blocks), 1)
    for b in blocks:
        res.oblige("T9", f"{b}: every return is preceded by a successful parse_end_aggregation on its path",
                   ok=not any(f.function == b for f in t9))
    hs = parserules.handlers(an)
    t2keys = {(f.function, f.anchor) for f in t2}
    t1handlers = set()
    for f in t1:
        t1handlers |= set(f.extra.get("handler", []))
    for (fn, h), caught in sorted(hs.items()):
        can = any(x in h for x in ("ValueError", "Exception", "<bare>", "BaseException"))
        if can:
            res.oblige("T2", f"{fn} except {h}", ok=(fn, f"except {h}") not in t2keys,
                       detail="caught: " + ",".join(sorted(caught)), nontrivial="LexerError" in caught or True)
        if any(x in h for x in ("Exception", "<bare>", "BaseException")):
            res.oblige("T2P", f"{fn} except {h}: a ParseError caught here is not carried on from", ok=(fn, f"except {h}") not in t2pkeys)
        if "StopIteration" in caught or any(x in h for x in ("StopIteration", "Exception", "<bare>", "BaseException")):
            res.oblige("T2S", f"{fn} except {h}: running out of tokens inside an open block is not carried on from", ok=(fn, f"except {h}") not in t2skeys)
        if "ValueError" in caught:
            res.oblige("T1", f"{fn} except {h}", ok=f"{fn} except {h}" not in t1handlers,
                       detail="plain ValueError caught here; consumed tokens must have been sent back")
    t5sites = {f.anchor for f in t5}
    for site in parserules.event_sites(an, "send"):
        res.oblige("T5", site, ok=not any(a in site for a in t5sites))
    t8fns = {f.function for f in t8}
    tf = set()
    for r in an["results"]:
        tf |= set(r["token_fns"])
    for fn in sorted(tf):
        res.oblige("T8", fn, ok=fn not in t8fns)
    common.lexer_yield_rule(repo, res)
    from .. import pairrules
    pairrules.rule_pair(repo, res)
    from .. import effects
    effects.rule_e5(repo, res)
    # the tokens the skip helpers discard silently are exactly the grammar's comments and white space: a predicate
    # that accepts more makes statements disappear without an error
    from .. import langrules
    langrules.rule_wsc_lang(repo, res, langrules.analyse(repo))
    # an error the parser's own `except ValueError` clauses can swallow: QuantityError (units refused by the caller's
    # quantity class) must stay outside that family, or a value loses its units without any error
    from .. import hookrules
    hookrules.rule_h3(repo, res)
    # the units token the parser accepts: exactly <delimiter> text-without-delimiters <delimiter>, handed on unshortened
    langrules.rule_units_lang(repo, res, langrules.analyse(repo))
    # text after a comment delimiter of another kind inside a comment must not be swallowed (or released) silently
    from .. import lexsim
    lexsim.rule_comment_kind(repo, res)
    # the token in front of which an empty value is supplied: reserved keywords and statement delimiters only
    from .. import langrules as _lr5
    _lr5.rule_hook_lang(repo, res, _lr5.analyse(repo))
    # a character outside the dialect's set is ill-formed text: the accepted set of char_allowed is exactly the dialect's
    common.rule_i1(repo, res)
