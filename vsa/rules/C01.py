"""C01 -- dump then strict load in the same dialect returns the original module."""
from .. import timerules, langrules, encrules


def run(repo, res, tier):
    res.explanation = (
        "Four necessary conditions of the round trip, each decided for all inputs of its kind: S1 the language of "
        "strings each encoder writes without quotes (DFA derived from the ASTs of encode_string/needs_quotes/"
        "is_identifier/is_symbol/Token.is_unquoted_string, restricted to the grammar's character set from the "
        "interval analysis of char_allowed) is included in the language its own strict reader returns unchanged "
        "(checked per reader class with shortest witnesses); S2 the same for parameter and block names (language of "
        "keys that pass encode_assignment / encode_aggregation_block vs Token.is_parameter_name); W1 no text with "
        "significant white space reaches textwrap.wrap (taint of quoted text through encode_assignment; wrap flags); "
        "LEX1 number texts as str() writes them and date/times are lexed as one token (language model of the end-of-lexeme decision); D1 isinstance dispatch (subclass before superclass, a branch per loader type, numbers via str()). "
        "TB1/TB5: the block keywords of each grammar are a begin/end pair of its own tables and no begin keyword names both a group and an object. R1-R4: the writer of temporal values consumes every field, can write both offset signs, pads fractions, and writes only zone suffixes its reader accepts. Not decided: equality of values, float text exactness, option combinations as such.")
    res.assumptions = ["int()/float()/strptime acceptance models", "dateutil absent"]
    an = langrules.analyse(repo)
    langrules.rule_s1(repo, res, an, "own")
    langrules.rule_snum(repo, res, an, which=("own",))
    langrules.rule_s2(repo, res, an)
    langrules.rule_q1(repo, res, an)
    langrules.rule_fold(repo, res, an)
    # the text str() gives a number (1E+3 for Decimal, 1e-07 for float) and the zone-offset times the ODL encoder
    # writes must be lexed as one token, or the value is not read back
    langrules.rule_lex1(repo, res, an, kinds=("number as str() writes it", "date/time"))
    encrules.rule_w1(repo, res, which=("quoted", "flags"))
    encrules.rule_d1(repo, res)
    timerules.rule_r(repo, res)
    # every text a time writer can return is a time for its own reader (all return paths, as languages)
    from .. import timerules as _tr
    _tr.rule_time_lang(repo, res)
    # the block keywords a writer emits are paired by its own reader and select one container class: a begin keyword
    # listed for both groups and objects makes the reader return the wrong kind of block
    from .. import tablerules
    tablerules.rule_tb1(repo, res)
    tablerules.rule_tb5(repo, res)
    # the strict reader lexes the text as written: no whole-document rewrite in PVLParser.parse or in the lexer
    from .. import hookrules as _hk1, lexrules as _lx1
    _hk1.rule_lexer_args(repo, res)
    _lx1.rule_lex_text(repo, res)
    # values with units are read back with the decoder's own real class (no float/numbers.Real test that ignores real_cls)
    from .. import hookrules as _hk1b
    _hk1b.rule_h2(repo, res)
    # dump to a stream, then load from where the label starts: the stream is re-read from the position it had
    from .. import apirules as _ap1
    _ap1.rule_f3(repo, res)
    _hk1.rule_parse_append(repo, res)
    from .. import encrules as _enc1q
    _enc1q.rule_quote_free(repo, res)
