"""C10 -- multi-dict list view and mapping view agree after any operation history."""
from .. import multidict


def run(repo, res, tier):
    res.explanation = (
        "M1 provider table: every operation/accessor named in the property is resolved through the MRO of "
        "OrderedMultiDict and its subclasses (dict precedes the ABC mix-ins); a name dict provides must be defined "
        "by pvl because dict's C code touches only the dict storage; borrowed mix-ins are checked (on the library "
        "source) to use only overridden primitives. M2 paired writes: on every normal path of every method, the "
        "item list is written iff the dict storage is written (or the work is delegated to another mutator), with "
        "storage-list aliases followed; M2-REP: storage values are lists; M2-KEY: both writes use the same key. "
        "M3: views reach the container only through self._mapping's interface; accessors read the item list. "
        "M4: structural necessary conditions of the documented list semantics (first value on lookup, replace-first/"
        "drop-later on assignment, last pair on pop(), consecutive indices on insert, index +1/+0 for insert_after/"
        "insert_before, pairwise equality). Not decided: values themselves.")
    multidict.rule_m1(repo, res)
    multidict.rule_m2(repo, res)
    multidict.rule_m3(repo, res)
    multidict.rule_m4(repo, res)
    multidict.rule_is_value(repo, res)
    # a container built from / converted to another keeps every pair: no key-by-key re-lookup (first value only)
    from .. import hookrules as _hk
    _hk.rule_reindex(repo, res)
    _hk.rule_v5(repo, res)
    multidict.rule_none_sentinel(repo, res)
    # copying is one of the operations of a history: a copy that shares its item list with the original makes the views of
    # both disagree after the next mutation
    multidict.rule_p1(repo, res)
    multidict.rule_p2(repo, res)
    multidict.rule_p10(repo, res)
    _hk.rule_mut_default(repo, res, modules=("collections",))
    multidict.rule_pair_kind(repo, res)
