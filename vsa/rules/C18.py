"""C18 -- type-customisation hooks apply uniformly at every depth."""
from .. import hookrules


def run(repo, res, tier):
    res.explanation = (
        "H1 who-constructs: no method of the decoder and parser class families calls float, Decimal, Quantity or a pvl "
        "container class directly -- only self.real_cls, self.quantity_cls, self.modcls/grpcls/objcls; the hooks are "
        "stored by the constructors, forwarded by subclass constructors, and used where values are made "
        "(decode_decimal tries int() first and hands str(value) to real_cls; parse_value and parse_units go through "
        "self.decoder, so nested values take the same path). H2: no isinstance(value, float) on decoded values in "
        "parser/encoder that ignores the decoder's real_cls. Not decided: that the substitute classes themselves "
        "behave.")
    hookrules.rule_h1(repo, res)
    hookrules.rule_h2(repo, res)
    hookrules.rule_h3(repo, res)
    # a substitute class given to one parser/decoder must not be remembered for (or by) another instance
    from .. import effects as _eff
    _eff.rule_shared_class_state(repo, res)
    _eff.rule_memo(repo, res)
    hookrules.rule_no_hardcoded_containers(repo, res)
    # values of the caller's substitute classes keep their class inside sets and sequences: no per-element conversion
    from .. import hookrules as _hk4
    _hk4.rule_h4(repo, res)
    _hk4.rule_h5(repo, res)
    # group_class and object_class are told apart by the begin keyword: a keyword listed for both kinds in a grammar
    # hands objects to the group hook (TB5); the derived table must cover both (TB1)
    from .. import tablerules
    tablerules.rule_tb1(repo, res)
    tablerules.rule_tb5(repo, res)
    # every value is built from the text at hand by the caller's classes: a decoder or parser that remembers values it
    # made earlier (a per-instance memo of quantities or numbers) hands out an object made from another spelling
    _eff.rule_estate(repo, res, families=("PVLDecoder", "PVLParser"))
    # the hooks a constructor forwards reach the base class under their own names
    from .. import hookrules as _hkao
    _hkao.rule_arg_order(repo, res)
    # the substitute classes reach the parser for every text (no shortcut around the parser in the entry points), and a
    # reader built from a decoder alone works with that decoder's grammar
    from .. import entryrules as _er18, hookrules as _hk18
    _er18.rule_f1(repo, res, "__init__")
    _hk18.rule_ctor_default(repo, res)
    _hk18.rule_hook_call(repo, res)
