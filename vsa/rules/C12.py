"""C12 -- encoder output obeys the surface rules of its dialect."""
from .. import encrules, langrules, tablerules


def run(repo, res, tier):
    res.explanation = (
        "Structural part of the surface rules, on the encoder classes resolved through the MRO: CFG fixed PDS3 "
        "configuration and dialect defaults (constructor signatures and super().__init__ arguments); DELIM every use "
        "of grammar.delimiters is control-dependent on self.end_delimiter; BLOCK begin/end keywords come from one "
        "preferred-keyword tuple chosen by container class, end statement carries the name when aggregation_end "
        "(TB5 ties the tuples to the keyword tables); INDENT levels and alignment width; END final END line (+ line "
        "end for ODL/PDS3); SWEEP the character-set sweep covers the returned text; TAB PDS3 tab replacement; UNITS "
        "units only after numbers; UPPER/K1 ODL keys are upper-cased identifiers of at most 30 characters (language "
        "check on the key guard); W1/W1-SYMBOL wrapping (flags; a quoted symbol string must not reach textwrap); S2 "
        "block names. Not decided: alignment of '=' and indentation arithmetic for particular modules.")
    encrules.rule_c12_config(repo, res)
    encrules.rule_c12_structure(repo, res)
    encrules.rule_level_forwarding(repo, res)
    encrules.rule_align(repo, res)
    tablerules.rule_tb5(repo, res)
    # the final character sweep asks the grammar object: its answer must not be shared between grammar classes
    from .. import effects as _eff
    _eff.rule_shared_class_state(repo, res)
    _eff.rule_memo(repo, res)
    encrules.rule_w1(repo, res, which=("symbol", "flags"))
    an = langrules.analyse(repo)
    langrules.rule_k1(repo, res, an)
    langrules.rule_s2(repo, res, an)
    # the alignment width and every statement are computed from the pairs themselves: a key-by-key re-lookup gives a
    # repeated name the value (and so the kind: block or assignment) of its first occurrence
    from .. import hookrules as _hk12
    _hk12.rule_reindex(repo, res)
    # the dialect's grammar is the encoder's own, whatever decoder the caller hands over
    from .. import hookrules as _hk12b
    _hk12b.rule_ctor_default(repo, res)
    # the final character sweep asks grammar.char_allowed: its accepted set is the dialect's character set (interval analysis)
    from . import common as _c12
    _c12.rule_i1(repo, res)
