"""C20 -- command-line tools are faithful front-ends of the library."""
from .. import hookrules


def run(repo, res, tier):
    res.explanation = (
        "TB9 dispatch tables read from the AST: pvl_translate.formats maps PDS3/ODL/ISIS/PVL to PVLWriter(<that "
        "dialect's encoder>()) and JSON to JSONWriter(); each pvl_validate.dialects row builds parser, decoder and "
        "encoder of its dialect around one shared grammar object and one shared decoder object. F1 forwarding chain "
        "pvl_translate.main -> pvl.load -> formats[fmt].dump -> pvl.dump(..., encoder=self.encoder) with no handler "
        "in between. L1 verdict flags in pvl_flavor: loads/encodes set to True immediately after the respective "
        "call, handlers round the dump never touch `loads` and catch ValueError, a catch-all reports instead of "
        "aborting, one result per file, report printed on every path, report columns map the verdict pair. "
        "IO-KIND: the kind of object arg_parser produces for infile/outfile (argparse.FileType mode vs path) is one every "
        "writer's dump can use (json.dump needs an open writable file). Not decided: report layout arithmetic.")
    hookrules.rule_tb9(repo, res)
    hookrules.rule_io_kind(repo, res)
    hookrules.rule_l1(repo, res)
    # the same file gives the same text whether a path, an open file or a stream is handed over (the command-line
    # tools hand over open files, the library functions usually paths)
    from .. import entryrules as _er
    _er.rule_f4(repo, res)
    # every dialect that was evaluated is in the report: cells and column widths have the same length
    from .. import hookrules as _hkz
    _hkz.rule_zip_len(repo, res)

    # the by-character fall-back for files with an undecodable tail reads bytes, also for an already-open text stream
    from .. import apirules as _ap5
    _ap5.rule_f5(repo, res)
    _hkz.rule_writer_fwd(repo, res)
    # what the tool writes is what dump() writes: the write forms of pvl.dump (text for text streams, bytes otherwise, to the
    # stream itself)
    from .. import apirules as _ap20
    _ap20.rule_f1(repo, res, "__init__")
    _ap5.rule_f2c(repo, res)
    # pvl_validate and pvl_translate keep one encoder per dialect for all files of a run: no per-call state on the encoders
    from .. import effects as _eff20
    _eff20.rule_estate(repo, res, families=("PVLEncoder",))
