"""C13 -- dumping is repeatable and does not damage its argument."""
from .. import encrules, effects


def run(repo, res, tier):
    res.explanation = (
        "A1: parameter-mutation effects of every encoder method (names derived from parameters by iteration, "
        ".items(), unpacking; subscript/attribute stores, deletions and mutator calls on them). The only permitted "
        "site is the PDS3 `module[k] = self.objcls(v)`; its real effect is taken from the effect of "
        "OrderedMultiDict.__setitem__ (replace first, delete later items with the key), which exceeds the permitted "
        "effect. A2: no encoder method reachable from encode() writes instance state (E-STATE on the encoder "
        "family) nor module/class-level state (E-GLOBAL on encoder.py). Not decided: value-level repeatability "
        "(e.g. iteration order of sets).")
    encrules.rule_a1(repo, res)
    # the one permitted in-place change, module[k] = objcls(v), is 'replace the first pair named k' only while the
    # container's two representations agree (key membership is decided on the dict storage, the pairs live in the
    # list): a mutator that leaves them out of step turns the conversion into an append -- the dump adds an item
    from .. import multidict
    multidict.rule_m2(repo, res)
    effects.rule_estate(repo, res, families=("PVLEncoder",))
    effects.rule_shared_class_state(repo, res)
    effects.rule_globals(repo, res, modules=("encoder", "__init__", "new"), floor=20)
    # the permitted in-place conversion goes through item assignment: its documented effect (replace the first pair with
    # that key, drop the later pairs *with that key*) is part of what "does not damage its argument" rests on
    multidict.rule_m4(repo, res)
    effects.rule_iter_mut(repo, res)
