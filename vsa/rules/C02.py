"""C02 -- the default loader reads back everything any bundled encoder writes."""
from .. import timerules, langrules


def run(repo, res, tier):
    res.explanation = (
        "S1-OMNI: for each of the four encoders, the language of strings encode_string writes without quotes (DFA "
        "derived from the encoder's own predicates) is intersected with each non-string class of the permissive "
        "reader OmniDecoder/OmniGrammar (keyword, quoted, based integer, decimal, date/time incl. zone suffix, "
        "not-a-value, parser keywords/delimiters, empty) -- a non-empty intersection is a value that re-reads as "
        "another type, reported with a shortest witness. O1: every comment opener / reserved character the permissive "
        "grammar adds is reserved or outside the character set of each encoder grammar. O2: the first-character set "
        "of the whole-document dash-continuation rewrite (regex syntax tree) vs the last characters of bare strings, "
        "and whether a delimiter always separates a value from the line end. R1-R4: the writer of temporal values consumes every field, can write both offset signs, pads fractions, and writes only zone suffixes its reader accepts. Not decided: equality of the reloaded "
        "module.")
    res.assumptions = ["dateutil is absent from the interpreter that runs pvl"]
    an = langrules.analyse(repo)
    langrules.rule_s1(repo, res, an, "omni")
    langrules.rule_snum(repo, res, an, which=("omni",))
    langrules.rule_o1(repo, res, an)
    langrules.rule_o2(repo, res, an)
    langrules.rule_fold(repo, res, an)
    langrules.rule_lex1(repo, res, an, kinds=("number as str() writes it", "date/time"))
    timerules.rule_r(repo, res)
    # a line broken after a hyphen or inside a long token: the default loader's dash-continuation rewrite deletes the
    # dash and the line end (the wrap flags of PVLEncoder.format)
    from .. import encrules
    encrules.rule_w1(repo, res, which=("flags",))
    # the lexer's character step: total at the ends of the text, keeps every character that is not grammar white space
    from .. import lexsim as _ls
    _ls.rule_comment_kind(repo, res)
    # units expressions: the PVL/ISIS writers put any units text between the delimiters, so the default reader takes every
    # delimiter-free interior -- the empty one included
    from .. import langrules as _lr2
    _lr2.rule_units_lang(repo, res, _lr2.analyse(repo))
    from .. import encrules as _enc2
    _enc2.rule_quote_free(repo, res)
