"""C15 -- strict dialects enforce their character set; the default accepts all."""
from ..core import Finding
from .. import interval, tables, lexrules, parserules
from . import common


def run(repo, res, tier):
    res.explanation = (
        "I1: interval abstract interpretation of each grammar class's char_allowed (through the MRO) gives the "
        "exact accepted set over all 1,114,112 code points, compared with the sets in the property statement. "
        "I2: in lexer(), the char_allowed(char) guard with a LexerError raise dominates lex_char and every yield "
        "of the character loop. I3: pos/lineno/colno of LexerError derive from one position and one doc "
        "(def-use + linear forms of firstpos/linecount), and each construction site in lexer() passes (pos, lexeme) "
        "that satisfy firstpos's contract. T2: no parser handler can swallow a LexerError (token-protocol engine). "
        "Not decided: that line/column arithmetic is right for every text (values are not computed).")
    res.assumptions = ["precondition of char_allowed: a single character", "str.encode('ascii') succeeds iff ord <= 127"]
    common.rule_i1(repo, res)
    from .. import effects as _eff
    _eff.rule_shared_class_state(repo, res, families=("PVLGrammar",))
    guard_info = lexrules.rule_i2(repo, res)
    lexrules.rule_i3(repo, res, guard_info)
    lexrules.rule_lookahead(repo, res)
    from .. import langrules as _lr
    _lr.rule_lookahead_lang(repo, res, _lr.analyse(repo))
    # the permissive reader returns every character unchanged inside strings: only the grammar's white space is folded
    _lr.rule_fold(repo, res, _lr.analyse(repo))
    common.lexer_yield_rule(repo, res)
    an = parserules.analyse(repo)
    t2 = parserules.add_rule(res, an, "T2")
    t2keys = {(f.function, f.anchor) for f in t2}
    for (fn, h), caught in sorted(parserules.handlers(an).items()):
        if any(x in h for x in ("ValueError", "Exception", "<bare>", "BaseException")):
            res.oblige("T2", f"{fn} except {h}", ok=(fn, f"except {h}") not in t2keys)
    # the lexer's character step: total at the ends of the text, keeps every character that is not grammar white space
    from .. import lexsim as _ls
    _ls.rule_comment_kind(repo, res)
    # inside quotes every character is kept as it is
    from .. import lexsim as _ls9
    _ls9.rule_preserve_kind(repo, res)
    # the lexer works with the parser's own grammar and decoder
    from .. import hookrules as _hkla
    _hkla.rule_lexer_args(repo, res)
    # pos / lineno / colno of a LexerError are positions in the caller's text; the entry points hand the text on as it is
    from .. import lexrules as _lx15, entryrules as _er15
    _lx15.rule_lex_text(repo, res)
    _er15.rule_f1(repo, res, "__init__")
    # ... also through the pvl.new entry points; and a parser given only a decoder enforces that decoder's grammar
    if "new" in repo.modules:
        _er15.rule_f1(repo, res, "new")
    from .. import hookrules as _hk15
    _hk15.rule_ctor_default(repo, res)
    # a byte stream is read to its end (or to the first undecodable byte), not to the first multi-byte character: otherwise
    # the lexer never sees the characters it has to refuse
    from .. import apirules as _ap15
    _ap15.rule_f2(repo, res)
    _ap15.rule_f2b(repo, res)
    _hk15.rule_parse_raise(repo, res)
