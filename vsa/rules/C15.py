"""C15 -- strict dialects enforce their character set; the default accepts all."""
from ..core import Finding
from .. import interval, tables, lexrules, parserules
from . import common


def run(repo, res, tier):
    res.explanation = (
        "I1: interval abstract interpretation of each grammar class's char_allowed (through the MRO) gives the "
        "exact accepted set over all 1,114,112 code points, compared with the sets in the property statement. "
        "I2: in lexer(), the char_allowed(char) guard with a LexerError raise dominates lex_char and every yield "
        "of the character loop. I3: pos/lineno/colno of LexerError derive from one position and one doc "
        "(def-use + linear forms of firstpos/linecount), and each construction site in lexer() passes (pos, lexeme) "
        "that satisfy firstpos's contract. T2: no parser handler can swallow a LexerError (token-protocol engine). "
        "Not decided: that line/column arithmetic is right for every text (values are not computed).")
    res.assumptions = ["precondition of char_allowed: a single character", "str.encode('ascii') succeeds iff ord <= 127"]
    n = 0
    for c in tables.grammar_classes(repo):
        ca = interval.CharAllowed(repo, c)
        t, f, e = ca.accepted()
        n += 1
        exp = interval.EXPECTED.get(c)
        res.samples.append({"grammar": c, "accepted": repr(t), "raises": repr(e), "resolved_through": ca.visited})
        if exp is None:
            res.notes.append(f"{c}: no expected set in the property statement; accepted {t!r}")
            continue
        ok = (t == exp) and not e
        res.oblige("I1", f"{c}.char_allowed accepts exactly {exp!r}", ok=ok, detail=f"accepted {t!r}")
        if not ok:
            extra_ = t - exp
            missing = exp - t
            w = extra_.sample() if extra_ else missing.sample()
            res.add(Finding("I1", f"{c}.char_allowed", "accepted set",
                            f"{c}.char_allowed accepts {t!r} but the dialect's character set is {exp!r}"
                            + (f"; wrongly accepted: {extra_!r}" if extra_ else "")
                            + (f"; wrongly rejected: {missing!r}" if missing else "")
                            + (f"; raises for {e!r}" if e else ""),
                            witness=None if w is None else f"U+{w:04X}"))
    res.floor("grammar classes with char_allowed", n, 5)
    res.stat("evaluations", 1114112 * n, add=False)
    guard_info = lexrules.rule_i2(repo, res)
    lexrules.rule_i3(repo, res, guard_info)
    lexrules.rule_lookahead(repo, res)
    from .. import langrules as _lr
    _lr.rule_lookahead_lang(repo, res, _lr.analyse(repo))
    common.lexer_yield_rule(repo, res)
    an = parserules.analyse(repo)
    t2 = parserules.add_rule(res, an, "T2")
    t2keys = {(f.function, f.anchor) for f in t2}
    for (fn, h), caught in sorted(parserules.handlers(an).items()):
        if any(x in h for x in ("ValueError", "Exception", "<bare>", "BaseException")):
            res.oblige("T2", f"{fn} except {h}", ok=(fn, f"except {h}") not in t2keys)
