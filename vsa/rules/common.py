"""Rules shared by several properties."""
import ast

from ..core import Finding, norm, AnalysisError, handler_name


def lexer_escapes(repo):
    """Exception classes other than LexerError that can escape the lexer
    generator (filled in by the lexer analysis; see lexrules)."""
    return ()


def lexer_yield_rule(repo, res):
    """L-YIELD: every ``yield`` of the lexer generator is lexically inside a
    ``try`` with a handler that catches ValueError and raises LexerError --
    that is what turns ``tokens.throw(ValueError, ...)`` into a LexerError."""
    fn = repo.full_function("lexer", "lexer")
    yields = [n for n in ast.walk(fn) if isinstance(n, (ast.Yield, ast.YieldFrom))]
    res.floor("lexer yields", len(yields), 1)
    for y in yields:
        ok = False
        n = y
        while n is not fn and n is not None:
            p = getattr(n, "_parent", None)
            if isinstance(p, ast.Try) and n in p.body:
                for h in p.handlers:
                    names = [norm(t).split(".")[-1] for t in (h.type.elts if isinstance(h.type, ast.Tuple) else [h.type])] if h.type is not None else ["BaseException"]
                    if any(x in ("ValueError", "Exception", "BaseException") for x in names):
                        raises = [r for r in ast.walk(h) if isinstance(r, ast.Raise) and r.exc is not None]
                        if any("LexerError" in norm(r.exc) for r in raises):
                            ok = True
                        break
                    if "LexerError" in names:
                        continue
            n = p
        anchor = norm(getattr(y, "_parent", y))
        res.oblige("L-YIELD", f"lexer `{anchor}`", ok=ok)
        if not ok:
            res.add(Finding("L-YIELD", "lexer.lexer", anchor,
                            f"`{anchor}` in lexer() is not inside a try whose ValueError handler raises LexerError: "
                            "a ValueError thrown into the generator by the parser surfaces as a plain ValueError "
                            "that the try-each-production loop swallows",
                            where=f"pvl/lexer.py:{y.lineno}"))


def triage_aggregation_cls(repo, res, t1_findings):
    """The plain ValueError at the end of aggregation_cls() is raised after the
    begin statement was consumed.  It is infeasible iff every begin keyword the
    token predicate accepts (aggregation_keywords) is also in group_keywords or
    object_keywords -- rule TB1.  The triage is conditional on TB1."""
    from .. import tables
    bad = [c for c in tables.grammar_classes(repo) if tables.tb1(repo, c)]
    for f in list(t1_findings):
        if f.function.endswith(".aggregation_cls") and f.anchor.startswith("raise ValueError"):
            if not bad:
                res.triage(f, "infeasible because TB1 holds for every grammar class: a token accepted by "
                              "is_begin_aggregation() (aggregation_keywords) is always found in group_keywords or "
                              "object_keywords, so aggregation_cls() cannot reach its final raise")
            else:
                f.message += f" -- feasible because rule TB1 fails for {', '.join(bad)} (derived keyword tables are stale)"


def triage_tb3(repo, res):
    """NotImplementedError in lex_multichar_comments is infeasible iff TB3 holds."""
    from .. import tables
    problems = tables.tb3(repo)
    for f in list(res.findings):
        if f.key == tables.TB3_TRIAGE_KEY or f.key.startswith(tables.TB3_TRIAGE_KEY.rstrip("*")):
            if not problems:
                res.triage(f, "infeasible because TB3 holds: every multi-character comment pair of every grammar "
                              "class is in lex_multichar_comments.allowed_pairs")
            else:
                f.message += f" -- feasible because TB3 fails: {problems}"


def triage_enum(repo, res):
    """A plain ValueError behind an exhaustive ladder over the lexer's Enum-valued preservation state is infeasible
    (vsa.enumproof decides that from the source: closed set of stored members, every member excluded on the path)."""
    from .. import enumproof
    proven = {fname for fname, _ in enumproof.infeasible_raises(repo)}
    proven |= {repo.public_owner("lexer", None, fname)[1] for fname in proven}      # the name the engine reports it under
    for f in list(res.findings):
        if f.rule in ("T3", "T1") and f.function in proven and "raise ValueError" in f.key:
            res.triage(f, f"infeasible: every dict the lexer builds stores a member of the Preserve enum under 'state' and "
                          f"the tests on the path to this raise in {f.function} exclude every member (enumproof)")


def token_wsc_rule(repo, res):
    """(superseded: is_WSC / is_comment / is_space are decided on their languages, rule WSC-LANG in vsa.langrules)"""
    repo.method("Token", "is_WSC")
    # (the language of is_comment / is_space against the grammar tables is rule WSC-LANG, vsa.langrules)


def rule_i1(repo, res):
    """I1: interval abstract interpretation of each grammar class's char_allowed (through the MRO): the accepted
    set over all 1,114,112 code points equals the dialect's character set given in the statement of C15."""
    from .. import interval, tables
    n = 0
    for c in tables.grammar_classes(repo):
        ca = interval.CharAllowed(repo, c)
        t, f, e = ca.accepted()
        n += 1
        exp = interval.EXPECTED.get(c)
        res.samples.append({"grammar": c, "accepted": repr(t), "raises": repr(e), "resolved_through": ca.visited})
        if exp is None:
            res.notes.append(f"{c}: no expected set in the property statement; accepted {t!r}")
            continue
        ok = (t == exp) and not e
        res.oblige("I1", f"{c}.char_allowed accepts exactly {exp!r}", ok=ok, detail=f"accepted {t!r}")
        if not ok:
            extra_ = t - exp
            missing = exp - t
            w = extra_.sample() if extra_ else missing.sample()
            res.add(Finding("I1", f"{c}.char_allowed", "accepted set",
                            f"{c}.char_allowed accepts {t!r} but the dialect's character set is {exp!r}"
                            + (f"; wrongly accepted: {extra_!r}" if extra_ else "")
                            + (f"; wrongly rejected: {missing!r}" if missing else "")
                            + (f"; raises for {e!r}" if e else ""),
                            witness=None if w is None else f"U+{w:04X}"))
    res.floor("grammar classes with char_allowed", n, 5)
    res.stat("evaluations", 1114112 * n, add=False)


def rule_tables_allowed(repo, res):
    """WS-ALLOWED: every character a grammar itself uses to separate or delimit tokens -- its white space, reserved
    characters, quotes, units delimiters, statement delimiters and the characters of its comment delimiters -- is in the
    set its own char_allowed() accepts (interval analysis over all code points).  Otherwise the grammar's own layout
    characters are refused by the lexer: the same label loads with one kind of line end and not with another."""
    from .. import interval, tables
    n = 0
    for c in tables.grammar_classes(repo):
        g = tables.grammar_instance(repo, c)
        t, f, e = interval.CharAllowed(repo, c).accepted()
        groups = (("whitespace", g.whitespace), ("reserved_characters", g.reserved_characters), ("quotes", g.quotes),
                  ("units_delimiters", g.units_delimiters), ("delimiters", g.delimiters),
                  ("comments", [ch for pair in g.comments for d in pair for ch in d]))
        for name, chars in groups:
            bad = sorted({ch for x in chars for ch in x if not any(a <= ord(ch) <= b for a, b in t.ivs)})
            n += 1
            res.oblige("WS-ALLOWED", f"{c}: every character of {name} is accepted by {c}.char_allowed", ok=not bad)
            if bad:
                res.add(Finding("WS-ALLOWED", f"grammar.{c}", f"{name} not allowed",
                                f"{c}.{name} contains {bad} which {c}.char_allowed refuses (accepted set {t!r}): text "
                                "laid out with these characters of the grammar's own tables is rejected by the lexer",
                                witness=bad[0]))
    res.floor("grammar table groups checked against char_allowed", n, 20)
