"""C19 -- pvl.new loaders return the same content as the default loaders."""
from .. import hookrules, apirules


def run(repo, res, tier):
    res.explanation = (
        "V1 sibling diff: pvl.new.load/loadu/loads/dump/dumps have the same normalised AST as pvl's except for the added "
        "container-class keyword arguments (which must name the new-family classes). V2 family discrimination: the "
        "encoders decide GROUP vs OBJECT by isinstance(value, self.grpcls), whose default is the old-family PVLGroup; "
        "on every path on which pvl.new.dumps obtains an encoder the new classes must be in effect. V3: every "
        "container member the parser/encoders call is provided by both families; class relations. F1 forwarding for "
        "pvl.new. Not decided: equality of item sequences.")
    hookrules.rule_v1(repo, res)
    hookrules.rule_v2(repo, res)
    hookrules.rule_v3(repo, res)
    # the parser and the encoders drive both container families through the same operations (append, item
    # assignment, insert, pop); the third-party family has the documented list semantics from its base class, the
    # default family must implement the same (M4) or the two loaders/dumpers diverge
    from .. import multidict
    multidict.rule_m4(repo, res)
    hookrules.rule_no_hardcoded_containers(repo, res)
    hookrules.rule_mapping_iteration(repo, res)
    apirules.rule_f1(repo, res, "new")
    # a container built from / converted to another keeps every pair: no key-by-key re-lookup (first value only)
    from .. import hookrules as _hk
    _hk.rule_reindex(repo, res)
    _hk.rule_v5(repo, res)
    _hk.rule_v6(repo, res)
    # pvl.load and pvl.new.load build their parsers with different container classes in one process: a class choice
    # remembered on the parser/decoder/encoder *class* by one of them is what the other one gets (E-SHARED, MEMO), and
    # the class of a block is chosen from this instance's grpcls/objcls on every path (H1 aggregation_cls)
    from .. import effects as _eff
    _eff.rule_shared_class_state(repo, res)
    _eff.rule_memo(repo, res)
    _hk.rule_aggcls(repo, res)
    _hk.rule_v_eq(repo, res)
    _eff.rule_iter_mut(repo, res)
