"""C16 -- parser, decoder and encoder instances carry no state between calls."""
from .. import effects


def run(repo, res, tier):
    res.explanation = (
        "E-STATE: for the parser, decoder and encoder class families, every instance attribute written outside "
        "__init__ in a method reachable (self./super() call graph through the MRO) from a per-call entry point "
        "(parse, encode, decode*) is assigned a fresh value at the top of the entry point before any call into the "
        "class. E-ALIAS: the parser's mutable error list is copied, not aliased, into the returned module. "
        "E-GLOBAL: no function of parser/decoder/encoder/lexer/token/grammar writes module-level or class-level "
        "state or mutates a default-argument object. Not decided: state kept by user-supplied classes.")
    effects.rule_estate(repo, res, floor=2)
    effects.rule_alias(repo, res)
    effects.rule_shared_class_state(repo, res)
    effects.rule_memo(repo, res)
    effects.rule_globals(repo, res)
    effects.rule_one_shot_iterators(repo, res)
    # a mutable default argument is state shared between calls
    from .. import hookrules as _hk16
    _hk16.rule_mut_default(repo, res)
