"""C04 -- white space and comments never change the meaning of a label."""
from ..core import Finding
from .. import parserules, tables, lexrules, tablerules
from . import common


def run(repo, res, tier):
    an = parserules.analyse(repo)
    parserules.common_stats(res, an)
    res.explanation = (
        "T6: on every path of every parser function (token-protocol abstract interpreter, five pairings) each read "
        "of a significant token -- next(tokens) and the comma loop -- is reached either right after a "
        "white-space/comment skip (parse_WSC_until / parse_statement_delimiter, recognised by their is_WSC loop) or "
        "with a pushed-back token that was already looked at after a skip; so a comment is tolerated at every "
        "grammar position. TB3: every comment pair of every grammar class is one the lexer implements. "
        "PRESERVE: lex_preserve returns lexeme + char on all paths. WSC-SKIP: the skip helpers discard exactly the "
        "tokens for which is_WSC() holds and push back the first other token. Not decided: lexeme boundary "
        "decisions next to + # - (value-level).")
    t6 = parserules.add_rule(res, an, "T6")
    bad = {f"{f.function} `{f.anchor}`" for f in t6}
    for s in parserules.event_sites(an, "next") + parserules.event_sites(an, "for_tokens"):
        res.oblige("T6", s, ok=s not in bad)
    sk = set()
    for r in an["results"]:
        sk |= set(r["skip_helpers"])
    res.floor("skip helpers", len(sk), 2)
    parserules.rule_wsc_skip(repo, res)
    problems = tables.tb3(repo)
    for c in tables.grammar_classes(repo):
        g = tables.grammar_instance(repo, c)
        for pair in g.comments:
            p = [x for x in problems if x[0] == c and tuple(x[1]) == tuple(pair)]
            res.oblige("TB3", f"{c}.comments {tuple(pair)!r} is implemented by the lexer", ok=not p)
            for (_, pr, why) in p:
                res.add(Finding("TB3", f"grammar.{c}", f"comments {tuple(pr)!r}",
                                f"{c}.comments contains {tuple(pr)!r}: {why}"))
    lexrules.rule_preserve(repo, res)
    from .. import hookrules as _hk
    _hk.rule_token_init(repo, res)
    lexrules.rule_preserve_first(repo, res)
    lexrules.rule_preserve_open(repo, res)
    common.token_wsc_rule(repo, res)
    from .. import langrules
    langrules.rule_wsc_lang(repo, res, langrules.analyse(repo))
    # once a comment is open only its own end text changes the preservation state (explicit-state exploration of the
    # character-step function over the delimiter characters of every grammar's comment table)
    from .. import lexsim
    lexsim.rule_comment_kind(repo, res)
    # comment delimiters and white space inside quotes / units are text, not layout
    from .. import lexsim as _ls9
    _ls9.rule_preserve_kind(repo, res)
    # the grammar's own white space / delimiter characters are characters its lexer accepts
    common.rule_tables_allowed(repo, res)
    # the white-space and delimiter tables hold single characters (membership is tested one character at a time)
    tablerules.rule_tb_char(repo, res)
    # line ends are white space: the command-line front end reads a label file with the same line-end translation as the library
    from .. import hookrules as _hk4io
    _hk4io.rule_io_kind(repo, res)
    # every route of get_text_from reads the file with the same line-end translation
    from .. import entryrules as _er4
    _er4.rule_f4(repo, res)
