"""C06 -- loaders terminate and fail only with the documented error types.

T3: no enumerated exception source other than LexerError/ParseError reaches the
exit of <parser>.parse; T4: the parser loops make progress on every cyclic path.
"""
from ..core import Finding
from .. import parserules, decrules
from . import common


def run(repo, res, tier):
    an = parserules.analyse(repo, lexer_escapes=common.lexer_escapes(repo))
    parserules.common_stats(res, an)
    res.explanation = (
        "Exception-propagation and progress analysis on the token-protocol abstract interpreter, entered at "
        "<parser>.parse for the five bundled pairings. T3: every enumerated exception source (generator "
        "exhaustion at each next(tokens), explicit raise statements, library calls fed with label text: int/float/"
        "real_cls/strptime/frozenset/set/date.replace(tzinfo)/quantity_cls) is propagated through all handlers "
        "on all paths; classes other than LexerError/ParseError that reach the exit of parse() are reported with "
        "their origin. T4: on every cyclic path of a `while` loop that pulls tokens, at least one token is "
        "consumed before the back edge (no zero-progress cycle). T8 (a production returns None as a value) is "
        "included because the None surfaces later as a wrong-type failure. Not decided: exceptions outside the "
        "enumerated sources, regex back-tracking cost, recursion depth.")
    res.assumptions = ["enumerated exception sources only (DESIGN 2.4); 'any attribute access may raise' is not modelled",
                       "generator protocol table (DESIGN 2.5)"]
    esc = parserules.escapes(an)
    sites = set()
    for r in an["results"]:
        for k in ("next", "lib", "throw", "for_tokens"):
            sites |= set(r["events"].get(k, []))
    bad_origins = {}
    for (exc, origin), cfgs in sorted(esc.items()):
        if exc in parserules.DOCUMENTED:
            continue
        fn, _, anchor = origin.partition(" `")
        anchor = anchor.rstrip("`")
        res.add(Finding("T3", fn, f"{exc} from {anchor}",
                        f"{exc} raised at {origin} can reach the exit of parse() "
                        f"(configurations: {', '.join(sorted(set(cfgs)))}); loaders document only LexerError and ParseError",
                        extra={"configs": sorted(set(cfgs)), "origin": origin, "exc": exc}))
    common.triage_tb3(repo, res)
    common.triage_enum(repo, res)
    table = {k: v for k, v in __import__("vsa.triage", fromlist=["TABLE"]).TABLE.items()
             if v.get("condition") is None or v["condition"](repo)}      # conditional entries only while their fact holds
    for f in res.findings:
        if f.rule == "T3" and not __import__("vsa.triage", fromlist=["matches"]).matches(f.key, table) \
                and not any(f is tf for tf, _ in res.triaged):
            bad_origins.setdefault(f.extra["origin"], set()).add(f.extra["exc"])
    for s in sorted(sites):
        res.oblige("T3", s, ok=s not in bad_origins and not any(s in o for o in bad_origins),
                   detail="exceptions from this source reaching parse(): " + ",".join(sorted(bad_origins.get(s, []))) or "documented types only")
    for (exc, origin) in esc:
        if origin not in sites:
            res.oblige("T3", origin, ok=exc in parserules.DOCUMENTED or origin not in bad_origins, detail=exc)
    t4 = parserules.add_rule(res, an, "T4")
    t4keys = {f"{f.function} `{f.anchor}`" for f in t4}
    for w in parserules.event_sites(an, "while"):
        res.oblige("T4", w, ok=w not in t4keys, detail="every cyclic path consumes a token")
    res.floor("token-pulling while loops", len(parserules.event_sites(an, "while")), 1)
    t8 = parserules.add_rule(res, an, "T8")
    decrules.rule_gd1(repo, res)
    # ParseError.token is read by OmniParser.parse_assignment_statement as a Token (err.token.pos): a ParseError
    # that carries anything else surfaces as AttributeError, outside the documented types
    from .. import effects
    effects.rule_e5(repo, res)
    decrules.rule_fmt(repo, res)
    # a LexerError built with its arguments in another order than (message, doc, pos, lexeme) raises TypeError inside its
    # own constructor: the loader then fails with an undocumented type exactly where it should report a bad character
    from .. import lexrules as _lx
    _gi = _lx.rule_i2(repo, res)
    _lx.rule_i3(repo, res, _gi)
    # the lexer's character step: total at the ends of the text, keeps every character that is not grammar white space
    from .. import lexsim as _ls
    _ls.rule_comment_kind(repo, res)
    # no IndexError from looking at the first / last character of a text that may be empty
    parserules.rule_idx_guard(repo, res)
    # values forwarded to another function land in the parameter that bears their name (no TypeError from swapped hooks)
    from .. import hookrules as _hkao
    _hkao.rule_arg_order(repo, res)
    # a pattern a dialect switches off (None) is tested before it is used: no AttributeError from the decoders
    from .. import tablerules as _tb6
    _tb6.rule_none_guard(repo, res)
    # the caller's substitute classes are called positionally (no TypeError from a class whose parameters have other names)
    from .. import hookrules as _hk6c
    _hk6c.rule_hook_call(repo, res)
    decrules.rule_real_ops(repo, res)
