"""C11 -- copies of a container are equal, independent and leave the original intact."""
from .. import multidict


def run(repo, res, tier):
    res.explanation = (
        "P1 reduction protocol: OrderedMultiDict is a dict subclass with per-instance state and a different "
        "representation in the dict storage, so copy.copy/copy.deepcopy/pickle (default __reduce_ex__: "
        "cls.__new__ + instance dict + obj[k] = storage value) cannot rebuild it; the class must define its own "
        "reduction returning (type(self), (fresh list of pairs,), ...). P2 no alias: the item list is only ever "
        "assigned fresh lists, never returned; copy() is type(self)(self); the constructor rebuilds both "
        "representations through extend()/append(). Uses the frozen model of the default reduction of dict "
        "subclasses (object.__reduce_ex__, copyreg). Not decided: equality of nested values.")
    res.assumptions = ["default copy/pickle reduction of dict subclasses (copyreg.__reduce_ex__, protocol 2+: "
                       "copyreg.__newobj__, state = __dict__, dictitems = iter(dict.items()))"]
    multidict.rule_p1(repo, res)
    multidict.rule_p2(repo, res)
    multidict.rule_p3(repo, res)
    multidict.rule_p4(repo, res)
    multidict.rule_p5(repo, res)
    multidict.rule_p6(repo, res)
    multidict.rule_p7(repo, res)
    multidict.rule_m2(repo, res)
    multidict.rule_is_value(repo, res)
    multidict.rule_m4_eq(repo, res)
    multidict.rule_p8(repo, res)
    multidict.rule_p9(repo, res)
    multidict.rule_p10(repo, res)
    multidict.rule_ne(repo, res)
