"""C17 -- value classification is total, exclusive and shared by reader and writer."""
import ast

from ..core import Finding, norm
from .. import langrules


DELEGATES = {"is_decimal": "decode_decimal", "is_non_decimal": "decode_non_decimal", "is_datetime": "decode_datetime",
             "is_quoted_string": "decode_quoted_string", "is_simple_value": "decode_simple_value"}


def rule_g1(repo, res):
    """G1 (cascade part): the decoder cascade has the documented order.  The delegation of the Token predicates to
    the decoder is decided by language equality (langrules.rule_g1_lang)."""
    # the decoder cascade: keywords first, then quoted / based / decimal / date-time, then unquoted
    for dcls in repo.subclasses("PVLDecoder"):
        c, fn = repo.resolve_method(dcls, "decode_simple_value")
        from .. import canon
        fn = canon.canon(repo, c, fn, module="decoder")       # a named tuple of attempts is read in place
        # the attempts in the order the source names them (a loop over a tuple of bound methods, the same loop written
        # out, or the tuple handed to for_try_except: in all of them the order of the references is the trial order)
        order = []

        def visit(n):
            if isinstance(n, ast.Attribute) and isinstance(n.value, ast.Name) and n.value.id == "self" and n.attr.startswith("decode_") \
                    and isinstance(n.ctx, ast.Load):
                if n.attr not in order:
                    order.append(n.attr)
            for ch in ast.iter_child_nodes(n):
                visit(ch)
        for st in fn.body:
            visit(st)
        want = ["decode_quoted_string", "decode_non_decimal", "decode_decimal", "decode_datetime"]
        ok = order[:4] == want
        last = fn.body[-1]
        ok_last = isinstance(last, ast.Return) and norm(last.value).startswith("self.decode_unquoted_string(") and order[4:] == ["decode_unquoted_string"]
        order = order[:4]
        res.oblige("G1", f"{dcls}.decode_simple_value ({c}): cascade quoted, based, decimal, date-time, then unquoted", ok=ok and ok_last)
        if not (ok and ok_last):
            res.add(Finding("G1", f"{c}.decode_simple_value", "cascade order",
                            f"{c}.decode_simple_value tries {order} and ends with `{norm(last, 50)}`; the classes are "
                            "exclusive only if tried as quoted, based integer, decimal, date/time and finally unquoted",
                            where=f"pvl/decoder.py:{fn.lineno}"))


def run(repo, res, tier):
    res.explanation = (
        "G1: each Token predicate holds exactly for the texts the decoder method of the same class accepts and "
        "is_numeric is the union of the numeric two (language equality per pairing); the decoder cascade has the documented order. "
        "G2/S1/N1 are decided on automata: a partial evaluator turns the ASTs of Token.is_unquoted_string, "
        "decode_* and the encoders' needs_quotes/is_identifier/is_symbol/encode_string into DFAs over a representative "
        "alphabet (grammar tables resolved, int()/float()/strptime languages from frozen models), and inclusions are "
        "checked with shortest witnesses: G2 Token.is_unquoted_string == the strings the decoder returns through "
        "decode_unquoted_string (5 pairings); S1 what each encoder writes bare is returned unchanged by its own "
        "reader (4 encoders x 8 classes); N1 decode_decimal accepts no spelling outside the numeric grammar. "
        "All strings, not a sample. Not decided: which spellings strptime finally rejects by calendar validity.")
    res.assumptions = ["int()/float() acceptance languages (Python language reference)", "_strptime.TimeRE directive patterns",
                       "dateutil is absent from the interpreter that runs pvl (OmniDecoder falls back to ValueError)"]
    rule_g1(repo, res)
    from .. import effects as _eff
    _eff.rule_memo(repo, res)
    _eff.rule_shared_class_state(repo, res)
    # a classification table kept as a one-shot iterator classifies differently from the second call on
    _eff.rule_one_shot_iterators(repo, res)
    from .. import hookrules as _hk
    _hk.rule_token_init(repo, res)
    an = langrules.analyse(repo)
    langrules.rule_g1_lang(repo, res, an)
    langrules.rule_kw_excl(repo, res, an)
    langrules.rule_g2(repo, res, an)
    langrules.rule_s1(repo, res, an, "own")
    langrules.rule_n1(repo, res, an)
    # one reader, one grammar: a parser built from a decoder alone lexes with that decoder's grammar
    from .. import hookrules as _hk17
    _hk17.rule_ctor_default(repo, res)
    # a bare string stays one token when a long statement is wrapped: textwrap may break at white space only
    from .. import encrules as _enc17
    _enc17.rule_w1(repo, res, which=("flags",))
    _hk17.rule_enc_classify(repo, res)
