"""C17 -- value classification is total, exclusive and shared by reader and writer."""
import ast

from ..core import Finding, norm
from .. import langrules


DELEGATES = {"is_decimal": "decode_decimal", "is_non_decimal": "decode_non_decimal", "is_datetime": "decode_datetime",
             "is_quoted_string": "decode_quoted_string", "is_simple_value": "decode_simple_value"}


def rule_g1(repo, res):
    """G1: the Token predicates are `try: self.decoder.decode_X(self); return True; except ValueError: return False`
    with the matching X; is_numeric is the disjunction of is_decimal and is_non_decimal."""
    for pred, dec in DELEGATES.items():
        fn = repo.method("Token", pred)
        ok = False
        tries = [n for n in fn.body if isinstance(n, ast.Try)]
        if len(tries) == 1:
            t = tries[0]
            calls = [c for b in t.body for c in ast.walk(b) if isinstance(c, ast.Call) and norm(c.func) == f"self.decoder.{dec}"
                     and len(c.args) == 1 and norm(c.args[0]) in ("self", "str(self)")]
            ret_true = any(isinstance(b, ast.Return) and isinstance(b.value, ast.Constant) and b.value.value is True for b in t.body)
            h_ok = any(h.type is not None and norm(h.type) == "ValueError" and
                       any(isinstance(b, ast.Return) and isinstance(b.value, ast.Constant) and b.value.value is False for b in h.body)
                       for h in t.handlers)
            other_calls = [c for b in t.body for c in ast.walk(b) if isinstance(c, ast.Call) and norm(c.func).startswith("self.decoder.")
                           and norm(c.func) != f"self.decoder.{dec}"]
            ok = bool(calls) and ret_true and h_ok and not other_calls
        res.oblige("G1", f"Token.{pred} == (self.decoder.{dec}(self) does not raise ValueError)", ok=ok)
        if not ok:
            res.add(Finding("G1", f"Token.{pred}", f"delegation to {dec}",
                            f"Token.{pred} is no longer `try: self.decoder.{dec}(self); return True / except ValueError: "
                            "return False`: the public predicate and the decoder can classify the same text differently",
                            where=f"pvl/token.py:{fn.lineno}"))
    fn = repo.method("Token", "is_numeric")
    names = {c.func.attr for c in ast.walk(fn) if isinstance(c, ast.Call) and isinstance(c.func, ast.Attribute)
             and isinstance(c.func.value, ast.Name) and c.func.value.id == "self"}
    ok = names == {"is_decimal", "is_non_decimal"}
    # shape: `if a or b: return True; return False`  or `return a or b`
    ors = [n for n in ast.walk(fn) if isinstance(n, ast.BoolOp)]
    ok = ok and len(ors) == 1 and isinstance(ors[0].op, ast.Or)
    res.oblige("G1", "Token.is_numeric == is_decimal() or is_non_decimal()", ok=ok)
    if not ok:
        res.add(Finding("G1", "Token.is_numeric", "disjunction", "Token.is_numeric is no longer the disjunction of "
                        "is_decimal() and is_non_decimal()", where=f"pvl/token.py:{fn.lineno}"))
    # the decoder cascade: keywords first, then quoted / based / decimal / date-time, then unquoted
    for dcls in repo.subclasses("PVLDecoder"):
        c, fn = repo.resolve_method(dcls, "decode_simple_value")
        order = []
        for n in ast.walk(fn):
            if isinstance(n, ast.For) and isinstance(n.iter, (ast.Tuple, ast.List)):
                order = [e.attr for e in n.iter.elts if isinstance(e, ast.Attribute)]
        want = ["decode_quoted_string", "decode_non_decimal", "decode_decimal", "decode_datetime"]
        ok = order == want
        last = fn.body[-1]
        ok_last = isinstance(last, ast.Return) and norm(last.value).startswith("self.decode_unquoted_string(")
        res.oblige("G1", f"{dcls}.decode_simple_value ({c}): cascade quoted, based, decimal, date-time, then unquoted", ok=ok and ok_last)
        if not (ok and ok_last):
            res.add(Finding("G1", f"{c}.decode_simple_value", "cascade order",
                            f"{c}.decode_simple_value tries {order} and ends with `{norm(last, 50)}`; the classes are "
                            "exclusive only if tried as quoted, based integer, decimal, date/time and finally unquoted",
                            where=f"pvl/decoder.py:{fn.lineno}"))


def run(repo, res, tier):
    res.explanation = (
        "G1: the Token predicates delegate to the decoder method of the same class under `except ValueError` "
        "(structural), is_numeric is their disjunction, the decoder cascade has the documented order. "
        "G2/S1/N1 are decided on automata: a partial evaluator turns the ASTs of Token.is_unquoted_string, "
        "decode_* and the encoders' needs_quotes/is_identifier/is_symbol/encode_string into DFAs over a representative "
        "alphabet (grammar tables resolved, int()/float()/strptime languages from frozen models), and inclusions are "
        "checked with shortest witnesses: G2 Token.is_unquoted_string == the strings the decoder returns through "
        "decode_unquoted_string (5 pairings); S1 what each encoder writes bare is returned unchanged by its own "
        "reader (4 encoders x 8 classes); N1 decode_decimal accepts no spelling outside the numeric grammar. "
        "All strings, not a sample. Not decided: which spellings strptime finally rejects by calendar validity.")
    res.assumptions = ["int()/float() acceptance languages (Python language reference)", "_strptime.TimeRE directive patterns",
                       "dateutil is absent from the interpreter that runs pvl (OmniDecoder falls back to ValueError)"]
    rule_g1(repo, res)
    from .. import hookrules as _hk
    _hk.rule_token_init(repo, res)
    an = langrules.analyse(repo)
    langrules.rule_g2(repo, res, an)
    langrules.rule_s1(repo, res, an, "own")
    langrules.rule_n1(repo, res, an)
