"""Token-stream protocol abstract interpreter (DESIGN.md 2.5).

A big-step abstract interpreter over the ASTs of the parser classes.  It
follows calls into the decoder classes and the Token class (may-raise and
value-kind summaries) and treats ``next(tokens)``, ``tokens.send``,
``tokens.throw`` and ``for t in tokens`` as protocol events of the lexer
generator (one-slot push-back).  Nothing is executed.
"""
import ast
import builtins
from dataclasses import dataclass, replace
from collections import defaultdict

from .core import AnalysisError, norm, handler_name

INF = 99
CAP = 3
TRACK = ("TRUE", "FALSE", "NONE", "TOKEN", "BOOL")
SIGNALS = ("ValueError", "StopIteration", "ParseError", "Exception")

EXTRA_PARENTS = {
    "InvalidOperation": "ArithmeticError",   # decimal.InvalidOperation
    "QuantityError": "Exception",
    "ParseError": "Exception",
    "LexerError": "ValueError",
}


def builtin_parent(name):
    obj = getattr(builtins, name, None)
    if isinstance(obj, type) and issubclass(obj, BaseException):
        b = obj.__mro__[1]
        return b.__name__ if b is not object else None
    return None


class ExcLattice:
    def __init__(self, repo):
        self.parents = dict(EXTRA_PARENTS)
        # the repo's own exception classes, read from the AST
        if "exceptions" in repo.modules:
            for cname, cnode in repo.modules["exceptions"].classes.items():
                if cnode.bases:
                    self.parents[cname] = ast.unparse(cnode.bases[0]).split(".")[-1]

    def parent(self, e):
        if e in self.parents:
            return self.parents[e]
        return builtin_parent(e)

    def issub(self, e, base):
        seen = 0
        while e is not None and seen < 20:
            if e == base:
                return True
            e = self.parent(e)
            seen += 1
        return False


@dataclass(frozen=True)
class St:
    stream: str = "FRESH"     # PB FRESH EXHAUSTED DEAD NA
    lo: int = 0
    hi: int = 0
    loop_lo: int = 0
    skipped: bool = False
    after_end: bool = False
    env: tuple = ()
    marks: tuple = ()

    def get(self, k):
        for a, b in self.env:
            if a == k:
                return b
        return None

    def set(self, k, v):
        env = tuple((a, b) for a, b in self.env if a != k)
        if v is not None:
            env = tuple(sorted(env + ((k, v),), key=lambda p: p[0]))
        return replace(self, env=env)

    def add(self, dlo, dhi):
        def a(lo, hi):
            nlo = max(-3, min(CAP, lo + dlo))
            nhi = INF if (hi == INF or dhi == INF or hi + dhi > CAP) else max(-3, hi + dhi)
            return nlo, nhi
        lo, hi = a(self.lo, self.hi)
        return replace(self, lo=lo, hi=hi, loop_lo=max(-3, min(CAP, self.loop_lo + dlo)),
                       marks=tuple(a(l, h) for (l, h) in self.marks))

    def push(self):
        return replace(self, marks=self.marks + ((0, 0),))

    def pop(self):
        return replace(self, marks=self.marks[:-1])


class Out:
    __slots__ = ("normal", "returns", "raises", "breaks", "continues")

    def __init__(self):
        self.normal = set()
        self.returns = set()
        self.raises = set()
        self.breaks = set()
        self.continues = set()

    def absorb(self, o, normal=False):
        if normal:
            self.normal |= o.normal
        self.returns |= o.returns
        self.raises |= o.raises
        self.breaks |= o.breaks
        self.continues |= o.continues


def keepval(v):
    if isinstance(v, tuple):
        return 0 < len(v) <= 6 and all(keepval(x) or x in ("OTHER", None) for x in v) and any(keepval(x) for x in v)
    return v in TRACK or (isinstance(v, str) and v[:2] in ("M:", "K:", "E:", "O:"))


class Config:
    """One concrete pairing: parser class, decoder class, grammar class."""

    def __init__(self, name, parser, decoder, grammar):
        self.name, self.parser, self.decoder, self.grammar = name, parser, decoder, grammar

    def __repr__(self):
        return f"{self.name}({self.parser},{self.decoder},{self.grammar})"


def uses_tokens(fn):
    for a in fn.args.args + fn.args.kwonlyargs:
        if a.arg == "tokens":
            return True
    for n in ast.walk(fn):
        if isinstance(n, ast.Name) and n.id == "tokens" and isinstance(n.ctx, ast.Store):
            return True
    return False


def returns_value(fn):
    """Does *fn* have a `return <expr>` with a value other than None?  (A function that never returns a value is a
    procedure: falling off its end is not a missing result.)"""
    vals = [n.value for n in ast.walk(fn) if isinstance(n, ast.Return) and n.value is not None
            and not (isinstance(n.value, ast.Constant) and n.value.value is None)]
    if not vals:
        return False
    # a predicate (every value it returns is the constant True or False): its result is a truth value, and the None
    # of falling off the end reads as False wherever it is handed on
    if all(isinstance(v, ast.Constant) and isinstance(v.value, bool) for v in vals):
        return False
    return True


def is_skip_helper(fn):
    """A function whose token loop discards tokens for which .is_WSC() holds."""
    for n in ast.walk(fn):
        if isinstance(n, ast.For) and isinstance(n.iter, ast.Name) and n.iter.id == "tokens":
            for m in ast.walk(n):
                if isinstance(m, ast.Attribute) and m.attr == "is_WSC":
                    return True
    return False


class Interp:
    """Analysis of one Config, entered at <parser>.parse."""

    def __init__(self, repo, cfg, lexer_escapes=(), triaged_keys=()):
        self.repo, self.cfg = repo, cfg
        self.triaged_keys = set(triaged_keys)
        self.infeasible = {k.split("|", 1)[1] for k in self.triaged_keys if k.startswith("T1|")}
        self.lat = ExcLattice(repo)
        self.lexer_escapes = tuple(lexer_escapes)   # (exc, origin) escaping the lexer besides LexerError
        self.summ = {}
        self.inprogress = set()
        self.done = set()
        self.cur = []          # frames: (selfkind, defcls, fn)
        self.tries = {}        # try id -> info
        self.findings = defaultdict(dict)   # rule -> key -> dict
        self.stats = defaultdict(int)
        self.events = defaultdict(set)      # kind -> set of anchors seen
        self.value_uses = None
        self.skip_helpers = set()
        self.token_fns = set()
        pmod = repo.module("parser")
        for cname in repo.mro(cfg.parser):
            if cname.startswith("ext:"):
                continue
            ci = repo.classes[cname]
            for mname, fn in ci.methods.items():
                if uses_tokens(fn):
                    self.token_fns.add((cname, mname))
                    if is_skip_helper(fn):
                        self.skip_helpers.add(mname)
        self._value_uses = {}

    # ---------------------------------------------------------------- util
    def enum_classes(self):
        if not hasattr(self, "_enums"):
            self._enums = {}
            for m in self.repo.modules.values():
                for cname, cnode in m.classes.items():
                    if any(norm(b).split(".")[-1] in ("Enum", "IntEnum") for b in cnode.bases):
                        self._enums[cname] = {t.id for n in cnode.body if isinstance(n, ast.Assign) for t in n.targets if isinstance(t, ast.Name)}
        return self._enums

    def clsof(self, kind):
        return {"parser": self.cfg.parser, "decoder": self.cfg.decoder,
                "grammar": self.cfg.grammar, "token": "Token"}.get(kind)

    def frame(self):
        return self.cur[-1]

    def fq(self):
        kind, defcls, fn = self.cur[-1]
        # a private helper is named by the public function it was taken out of (finding keys survive extract-method)
        mod = self.repo.classes[defcls].module.name if defcls else getattr(fn, "_module", None)
        if mod is None:
            for mn, m_ in self.repo.modules.items():
                if m_.functions.get(fn.name) is fn:
                    mod = mn
                    break
        if mod is not None and fn.name.startswith("_") and not fn.name.startswith("__"):
            oc, on = self.repo.public_owner(mod, defcls, fn.name)
            return f"{oc}.{on}" if oc else on
        return f"{defcls}.{fn.name}" if defcls else fn.name

    def anchor(self, node):
        """Line-free anchor of an event: enclosing simple statement text; raise
        statements lose their message and gain the guarding condition."""
        n = node
        stmt = None
        while n is not None and not isinstance(n, ast.FunctionDef):
            if isinstance(n, ast.stmt) and stmt is None:
                stmt = n
            n = getattr(n, "_parent", None)
        if stmt is None:
            stmt = node
        if isinstance(stmt, ast.Raise):
            if stmt.exc is None:
                txt = "raise"
            elif isinstance(stmt.exc, ast.Call):
                txt = "raise " + norm(stmt.exc.func)
            else:
                txt = "raise " + norm(stmt.exc)
            g = getattr(stmt, "_parent", None)
            while g is not None and not isinstance(g, (ast.If, ast.ExceptHandler, ast.FunctionDef, ast.For, ast.While)):
                g = getattr(g, "_parent", None)
            if isinstance(g, ast.If):
                branch = "if" if stmt in g.body else "else-of"
                txt += f" [{branch} {norm(g.test, 70)}]"
            elif isinstance(g, ast.ExceptHandler):
                txt += f" [in except {handler_name(g)}]"
            return txt
        if isinstance(stmt, (ast.If, ast.While)):
            return type(stmt).__name__.lower() + " " + norm(stmt.test, 100)
        if isinstance(stmt, ast.For):
            return f"for {norm(stmt.target)} in {norm(stmt.iter, 80)}"
        if isinstance(stmt, ast.Try):
            return "try"
        return norm(stmt, 110)

    def where(self, node):
        return f"{self.fq()} `{self.anchor(node)}`"

    def lineof(self, node):
        kind, defcls, fn = self.cur[-1]
        mod = self.repo.classes[defcls].module.name if defcls else getattr(fn, "_module", "?")
        return f"pvl/{mod}.py:{getattr(node, 'lineno', '?')}"

    def report(self, rule, function, anchor, message, node=None, **extra):
        key = f"{rule}|{function}|{anchor}"
        d = self.findings[rule].setdefault(key, {"rule": rule, "function": function, "anchor": anchor,
                                                 "message": message, "where": self.lineof(node) if node is not None else "",
                                                 "extra": {}})
        for k, v in extra.items():
            d["extra"].setdefault(k, set()).add(v)

    # ------------------------------------------------------------- summaries
    def params_of(self, defcls, fn):
        args = [a.arg for a in fn.args.args]
        if defcls is not None:
            deco = self.repo.classes[defcls].decorators.get(fn.name, [])
            if "staticmethod" not in deco and args:
                args = args[1:]
        return args

    def summary(self, selfkind, defcls, fn, stream, skipped, argabs):
        tokfn = uses_tokens(fn)
        if not tokfn:
            stream, skipped = "NA", False
        key = (selfkind, defcls, fn.name, stream, skipped, argabs)
        if key in self.inprogress or key in self.done:
            return self.summ.get(key, frozenset())
        self.inprogress.add(key)
        self.cur.append((selfkind, defcls, fn))
        st0 = St(stream=stream, skipped=skipped)
        params = [p for p in self.params_of(defcls, fn) if p != "tokens"]
        for pname, v in zip(params, argabs):
            if keepval(v):
                st0 = st0.set(pname, v)
        if selfkind == "token":
            st0 = st0.set("self", "TOKEN")
        # parameters whose default is an instance of a decoder class are decoder objects
        nd = len(fn.args.defaults)
        for a, dflt in zip(fn.args.args[len(fn.args.args) - nd:], fn.args.defaults):
            if isinstance(dflt, ast.Call) and isinstance(dflt.func, ast.Name) and self.repo.has_cls(dflt.func.id) \
                    and self.repo.has_cls("PVLDecoder") and "PVLDecoder" in self.repo.mro(dflt.func.id) and not st0.get(a.arg):
                st0 = st0.set(a.arg, "O:decoder")
        out = self.block(fn.body, {st0})
        ex = set()
        for s in list(out.normal) + [x for (_, x) in out.returns]:
            self.t1_check(s, fn)
            self.raw_check(s, fn, "return of " + fn.name)
        if fn.name == "parse_aggregation_block" and selfkind == "parser":
            self.events["block_exits"].add(f"{defcls}.{fn.name}")
            for s in list(out.normal) + [x for (_, x) in out.returns]:
                if s.get("$closed") != "TRUE":
                    self.report("T9", f"{defcls}.{fn.name}", "returns without end statement",
                                f"{defcls}.{fn.name} can return its block although parse_end_aggregation has not succeeded "
                                f"on that path (stream={s.stream}): a group or object that is never closed is accepted",
                                node=fn, state=f"stream={s.stream}")
        for s in out.normal:
            ex.add(("return", "NONE", s.lo, s.hi, s.stream, s.skipped or bool(s.get("$degraded")), s.after_end, None, "falloff", s.get("$closed") == "TRUE"))
        for (r, s) in out.returns:
            ex.add(("return", r, s.lo, s.hi, s.stream, s.skipped or bool(s.get("$degraded")), s.after_end, None, "return", s.get("$closed") == "TRUE"))
        for (e, s, origin) in out.raises:
            ex.add(("raise", None, s.lo, s.hi, s.stream, s.skipped or bool(s.get("$degraded")), s.after_end, e, origin, False))
        self.cur.pop()
        self.inprogress.discard(key)
        ex = frozenset(ex)
        if self.summ.get(key) != ex:
            self.summ[key] = ex
            self.changed = True
        self.done.add(key)
        return ex

    def run(self, entry="parse"):
        defcls, fn = self.repo.resolve_method(self.cfg.parser, entry)
        if fn is None:
            raise AnalysisError(f"anchor vanished: {self.cfg.parser}.{entry}")
        lexfn = self.repo.module("lexer").functions.get("lexer")
        if lexfn is None:
            raise AnalysisError("anchor vanished: pvl/lexer.py:lexer")
        lexfn._module = "lexer"
        for rounds in range(40):
            self.changed = False
            self.done = set()
            self.findings.clear()
            lex = self.summary(None, None, lexfn, "NA", False, ())
            self.lexer_exits = lex
            self.lexer_escapes = tuple(sorted(
                {(x[7], x[8]) for x in lex if x[0] == "raise" and x[7] != "LexerError"
                 and not _matches(t3_key(x[7], x[8]), self.triaged_keys)}))
            res = self.summary("parser", defcls, fn, "FRESH", False, ())
            if not self.changed:
                self.rounds = rounds + 1
                return res
        raise AnalysisError("token-protocol fixpoint did not converge in 40 rounds")

    # ------------------------------------------------------------ statements
    def block(self, stmts, states):
        out = Out()
        cur = set(states)
        for s in stmts:
            if not cur:
                break
            o = self.stmt(s, cur)
            out.absorb(o)
            cur = o.normal
        out.normal = cur
        return out

    def assign(self, target, val, st):
        if isinstance(target, ast.Name):
            if target.id == "tokens":
                # a new token generator
                return replace(st, stream="FRESH", skipped=False)
            return st.set(target.id, val if keepval(val) else None)
        if isinstance(target, (ast.Tuple, ast.List)):
            vals = val if isinstance(val, tuple) and len(val) == len(target.elts) else [None] * len(target.elts)
            for el, v in zip(target.elts, vals):
                st = self.assign(el, v, st)
        return st

    def stmt(self, s, states):
        out = Out()
        self.stats["statements"] += 1
        if isinstance(s, ast.Expr):
            if isinstance(s.value, ast.Constant):
                out.normal = set(states)
                return out
            for st in states:
                for (val, st2, exc, org) in self.expr(s.value, st):
                    if exc:
                        out.raises.add((exc, st2, org))
                    else:
                        out.normal.add(st2)
            return out
        if isinstance(s, (ast.Assign, ast.AugAssign, ast.AnnAssign)):
            if isinstance(s, ast.Assign):
                targets = s.targets
            else:
                targets = [s.target]
            if s.value is None:
                out.normal = set(states)
                return out
            for st in states:
                for (val, st2, exc, org) in self.expr(s.value, st):
                    if exc:
                        out.raises.add((exc, st2, org))
                    else:
                        if isinstance(s, ast.AugAssign):
                            val = None
                        for t in targets:
                            st2 = self.assign(t, val, st2)
                        out.normal.add(st2)
            return out
        if isinstance(s, ast.Return):
            for st in states:
                if s.value is None:
                    out.returns.add(("NONE", st))
                    continue
                for (val, st2, exc, org) in self.expr(s.value, st):
                    if exc:
                        out.raises.add((exc, st2, org))
                    else:
                        out.returns.add((val if (keepval(val) or isinstance(val, tuple)) else "OTHER", st2))
            return out
        if isinstance(s, ast.Raise):
            if _matches(f"{self.fq()}|{self.anchor(s)}", self.infeasible):
                return out          # triaged as infeasible (conditional on a table rule): path pruned
            for st in states:
                if s.exc is None:
                    out.raises.add((st.get("$handling") or "Exception", st, st.get("$origin") or self.where(s)))
                    continue
                # evaluate constructor arguments (they may contain calls)
                pre = [(None, st, None, None)]
                if isinstance(s.exc, ast.Call):
                    pre = self.eval_all(list(s.exc.args) + [k.value for k in s.exc.keywords], st)
                for (_, st1, exc, org) in pre:
                    if exc:
                        out.raises.add((exc, st1, org))
                        continue
                    if isinstance(s.exc, ast.Name) and (st1.get(s.exc.id) or "").startswith("E:"):
                        out.raises.add((st1.get(s.exc.id)[2:], st1, self.where(s)))
                    else:
                        tgt = s.exc.func if isinstance(s.exc, ast.Call) else s.exc
                        name = norm(tgt).split(".")[-1]
                        out.raises.add((name, st1, self.where(s)))
            return out
        if isinstance(s, ast.If):
            ts, fs = set(), set()
            for st in states:
                for (val, st2, exc, org) in self.expr(s.test, st):
                    if exc:
                        out.raises.add((exc, st2, org))
                    elif val == "TRUE":
                        ts.add(st2)
                    elif val in ("FALSE", "NONE"):
                        fs.add(st2)
                    else:
                        t2, f2 = self.refine(s.test, st2)
                        ts |= t2
                        fs |= f2
            o1 = self.block(s.body, ts)
            out.absorb(o1, normal=True)
            if s.orelse:
                out.absorb(self.block(s.orelse, fs), normal=True)
            else:
                out.normal |= fs
            return out
        if isinstance(s, ast.While):
            return self.loop_while(s, states)
        if isinstance(s, ast.For):
            return self.loop_for(s, states)
        if isinstance(s, ast.Try):
            return self.try_(s, states)
        if isinstance(s, ast.With):
            cur = set(states)
            for item in s.items:
                nxt = set()
                for st in cur:
                    for (val, st2, exc, org) in self.expr(item.context_expr, st):
                        if exc:
                            out.raises.add((exc, st2, org))
                        else:
                            nxt.add(st2)
                cur = nxt
            o = self.block(s.body, cur)
            out.absorb(o, normal=True)
            return out
        if isinstance(s, ast.Break):
            out.breaks = set(states)
            return out
        if isinstance(s, ast.Continue):
            out.continues = set(states)
            return out
        if isinstance(s, (ast.Pass, ast.Global, ast.Nonlocal, ast.Import, ast.ImportFrom,
                          ast.FunctionDef, ast.ClassDef, ast.Delete)):
            out.normal = set(states)
            return out
        if isinstance(s, ast.Assert):
            out.normal = set(states)
            return out
        raise AnalysisError(f"unsupported statement {type(s).__name__} in {self.fq()}")

    def refine(self, test, st):
        """Unknown condition: both branches, refining a tracked boolean name where the test is `name` / `not name`."""
        t, neg = test, False
        while isinstance(t, ast.UnaryOp) and isinstance(t.op, ast.Not):
            t, neg = t.operand, not neg
        if isinstance(t, ast.Name) and st.get(t.id) == "BOOL":
            a, b = st.set(t.id, "TRUE"), st.set(t.id, "FALSE")
            return ({b}, {a}) if neg else ({a}, {b})
        # flag is True / flag is False / flag == True ... on a tracked boolean
        if isinstance(t, ast.Compare) and len(t.ops) == 1 and isinstance(t.left, ast.Name) and st.get(t.left.id) == "BOOL" \
                and isinstance(t.comparators[0], ast.Constant) and isinstance(t.comparators[0].value, bool) \
                and isinstance(t.ops[0], (ast.Is, ast.IsNot, ast.Eq, ast.NotEq)):
            k = t.comparators[0].value
            same, other = st.set(t.left.id, "TRUE" if k else "FALSE"), st.set(t.left.id, "FALSE" if k else "TRUE")
            if isinstance(t.ops[0], (ast.IsNot, ast.NotEq)):
                same, other = other, same
            return ({other}, {same}) if neg else ({same}, {other})
        return {st}, {st}

    def truth(self, test, st):
        if isinstance(test, ast.Constant):
            return "TRUE" if test.value else "FALSE"
        if isinstance(test, ast.Name):
            v = st.get(test.id)
            return {"TRUE": "TRUE", "FALSE": "FALSE", "NONE": "FALSE"}.get(v)
        if isinstance(test, ast.UnaryOp) and isinstance(test.op, ast.Not):
            t = self.truth(test.operand, st)
            return {"TRUE": "FALSE", "FALSE": "TRUE"}.get(t)
        return None

    def loop_while(self, s, states):
        out = Out()
        exits, seen = set(), set()
        work = {replace(st, loop_lo=0) for st in states}
        touches = any(isinstance(n, ast.Name) and n.id == "tokens" for n in ast.walk(s))
        while work - seen:
            head = work - seen
            seen |= head
            ts = set()
            for st in head:
                t = self.truth(s.test, st)
                if t != "FALSE":
                    ts.add(st)
                if t != "TRUE":
                    exits.add(st)
            o = self.block(s.body, ts)
            out.returns |= o.returns
            out.raises |= o.raises
            exits |= o.breaks
            back = o.normal | o.continues
            if touches:
                self.events["while"].add(self.where(s))
                for st in back:
                    if self.truth(s.test, st) != "FALSE" and st.loop_lo < 1 and st.stream in ("PB", "PBR", "FRESH"):
                        self.report("T4", self.fq(), self.anchor(s),
                                    f"loop `{self.anchor(s)}` in {self.fq()} can start another iteration without "
                                    f"having consumed a token (stream={st.stream}): zero-progress cycle",
                                    node=s, state=f"stream={st.stream} env={dict((k, v) for k, v in st.env if not k.startswith('$'))}")
            work = {replace(st, loop_lo=0) for st in back}
        if s.orelse:
            o = self.block(s.orelse, exits)
            out.absorb(o)
            exits = o.normal
        out.normal = exits
        return out

    def loop_for(self, s, states):
        out = Out()
        it = s.iter
        if isinstance(it, ast.Name) and it.id == "tokens":
            exits, seen, work = set(), set(), set(states)
            while work - seen:
                head = work - seen
                seen |= head
                body_in = set()
                for st in head:
                    for (val, st2, exc, org) in self.ev_next(st, s, forloop=True):
                        if exc == "$EXHAUST":
                            exits.add(st2)
                        elif exc:
                            out.raises.add((exc, st2, org))
                        else:
                            body_in.add(self.assign(s.target, "TOKEN", st2))
                o = self.block(s.body, body_in)
                out.returns |= o.returns
                out.raises |= o.raises
                out.normal |= o.breaks          # break skips the else clause
                work = o.normal | o.continues
            if s.orelse:
                o = self.block(s.orelse, exits)
                out.absorb(o)
                exits = o.normal
            out.normal |= exits
            return out
        meths = None
        if isinstance(it, (ast.Tuple, ast.List)) and it.elts and all(
                isinstance(e, ast.Attribute) and isinstance(e.value, ast.Name) and e.value.id == "self" for e in it.elts):
            meths = ["M:" + e.attr for e in it.elts]
        elif isinstance(it, ast.Name):
            vals = {st.get(it.id) for st in states}
            if len(vals) == 1:
                v0 = next(iter(vals))
                if isinstance(v0, tuple) and v0 and all(isinstance(x, str) and x.startswith("M:") for x in v0):
                    meths = list(v0)
        if meths is not None:
            # (literal or named) tuple of bound methods: unrolled
            cur, broke = set(states), set()
            for mv in meths:
                o = self.block(s.body, {self.assign(s.target, mv, st) for st in cur})
                out.returns |= o.returns
                out.raises |= o.raises
                broke |= o.breaks
                cur = o.normal | o.continues
            cur = {self.assign(s.target, None, st) for st in cur}
            if s.orelse:
                o = self.block(s.orelse, cur)
                out.absorb(o)
                cur = o.normal
            out.normal = cur | {self.assign(s.target, None, st) for st in broke}
            return out
        # generic iteration: evaluate the iterable, then 0..n iterations
        start = set()
        for st in states:
            for (val, st2, exc, org) in self.expr(it, st):
                if exc:
                    out.raises.add((exc, st2, org))
                else:
                    start.add(st2)
        exits, seen, work = set(start), set(), set(start)
        broke = set()
        while work - seen:
            head = work - seen
            seen |= head
            o = self.block(s.body, {self.assign(s.target, None, st) for st in head})
            out.returns |= o.returns
            out.raises |= o.raises
            broke |= o.breaks
            exits |= o.normal | o.continues
            work = o.normal | o.continues
        if s.orelse:
            o = self.block(s.orelse, exits)
            out.absorb(o)
            exits = o.normal
        out.normal = exits | broke
        return out

    def t1_check(self, st, node):
        flag = st.get("$t1")
        if not flag:
            return st
        if flag.startswith("S|"):
            _, lo, hi, tfn, tanchor, hname, origin = flag.split("|", 6)
            lo, hi = int(lo), int(hi)
        else:
            idx, tfn, tanchor, hname, origin = flag.split("|", 4)
            lo, hi = st.marks[int(idx)]
        if hi != 0:
            self.report("T1", origin.split(" `")[0], origin.split(" `", 1)[1].rstrip("`") if " `" in origin else origin,
                        f"a plain ValueError / give-up signal raised at {origin} is caught by `except {hname}` in {tfn} and parsing "
                        f"continues although {lo}..{'many' if hi == INF else hi} token(s) consumed in the try body were "
                        f"not sent back: the statement is silently dropped",
                        node=None, handler=f"{tfn} except {hname}")
        return st.set("$t1", None)

    def htypes(self, h):
        if h.type is None:
            return ["BaseException"]
        if isinstance(h.type, ast.Tuple):
            return [norm(e).split(".")[-1] for e in h.type.elts]
        return [norm(h.type).split(".")[-1]]

    def try_(self, s, states):
        out = Out()
        tfn = self.fq()
        tid = (tfn, id(s))
        hnames = [handler_name(h) for h in s.handlers]
        info = self.tries.setdefault(tid, {"function": tfn, "handlers": hnames, "caught": defaultdict(set),
                                           "node": s, "frame": self.cur[-1]})
        body = self.block(s.body, {st.push() for st in states})
        out.returns |= {(r, st.pop()) for (r, st) in body.returns}
        out.breaks |= {st.pop() for st in body.breaks}
        out.continues |= {st.pop() for st in body.continues}
        normal = {st.pop() for st in body.normal}
        if s.orelse:
            o = self.block(s.orelse, normal)
            out.absorb(o)
            normal = o.normal
        for (e, st, origin) in body.raises:
            handled = False
            for hi_, h in enumerate(s.handlers):
                if not any(self.lat.issub(e, t) for t in self.htypes(h)):
                    continue
                handled = True
                hname = handler_name(h)
                info["caught"][hname].add(e)
                passthrough = (len(h.body) == 1 and isinstance(h.body[0], ast.Raise) and h.body[0].exc is None)
                if e == "LexerError" and not passthrough and self.cur[-1][0] == "parser":
                    self.report("T2", tfn, f"except {hname}",
                                f"`except {hname}` in {tfn} can catch a LexerError (raised at {origin}) and does not "
                                f"re-raise it: no preceding `except LexerError: raise`",
                                node=h, origin=origin)
                st2 = st.set("$handling", e).set("$origin", origin)
                if e not in SIGNALS and self.cur[-1][0] == "parser":
                    st2 = st2.set("$degraded", "TRUE")
                if h.name:
                    st2 = st2.set(h.name, "E:" + e)
                if e in ("ValueError", "Exception") and self.cur[-1][0] == "parser":
                    # ("Exception" is the signal the repair hooks raise to say "not for me": like a plain ValueError it
                    # promises that the tokens it looked at were put back)
                    st2 = st2.set("$t1", f"{len(st2.marks) - 1}|{tfn}|try|{hname}|{origin}")
                ho = self.block(h.body, {st2})
                # T2P: a catch-all clause (Exception / BaseException / bare -- not one that names ParseError) takes a
                # ParseError and goes on: the text was found ill-formed after tokens had been consumed, and the loader
                # continues or returns as if nothing had happened
                if e == "ParseError" and self.cur[-1][0] == "parser" and not any(t in ("ParseError",) for t in self.htypes(h)) \
                        and (ho.normal or ho.returns or ho.continues or ho.breaks):
                    self.report("T2P", tfn, f"except {hname}",
                                f"`except {hname}` in {tfn} can catch a ParseError (raised at {origin}) and carries on: the "
                                "ill-formed text is accepted and the statements that were being parsed are dropped",
                                node=h, origin=origin)

                # T2S: running out of tokens while an aggregation block is open (StopIteration raised in the block
                # productions) is the one way the parser learns that a block was never closed; parse() turns it into
                # ParseError.  A handler on the way that takes it and carries on accepts a label cut short inside a block
                # and drops the open block
                BLOCK_FNS = ("parse_aggregation_block", "parse_end_aggregation", "parse_begin_aggregation_statement")
                if e == "StopIteration" and self.cur[-1][0] == "parser" and any(f".{b} " in (origin + " ") or f".{b}`" in origin or origin.split(" ")[0].endswith("." + b) for b in BLOCK_FNS) \
                        and not any(tfn.endswith("." + b) for b in BLOCK_FNS) and not tfn.endswith(".parse") \
                        and (ho.normal or ho.returns or ho.continues or ho.breaks):
                    self.report("T2S", tfn, f"except {hname}",
                                f"`except {hname}` in {tfn} can catch the StopIteration raised at {origin} (the text ended inside an "
                                "open block) and carries on: a label cut short inside a GROUP/OBJECT loads without the open block "
                                "instead of being refused", node=h, origin=origin)

                def clean(x, h=h):
                    flag = x.get("$t1")
                    if flag and not flag.startswith("S|"):
                        idx, rest = flag.split("|", 1)
                        lo_, hi_2 = x.marks[int(idx)]
                        x = x.set("$t1", f"S|{lo_}|{hi_2}|{rest}")
                    x = x.set("$handling", None).set("$origin", None)
                    if h.name:
                        x = x.set(h.name, None)
                    return x.pop()
                out.normal |= {clean(x) for x in ho.normal}
                out.returns |= {(r, clean(x)) for (r, x) in ho.returns}
                out.breaks |= {clean(x) for x in ho.breaks}
                out.continues |= {clean(x) for x in ho.continues}
                out.raises |= {(e2, clean(x), o2) for (e2, x, o2) in ho.raises}
                break
            if not handled:
                out.raises.add((e, st.pop(), origin))
        out.normal |= normal
        if s.finalbody:
            o = self.block(s.finalbody, out.normal)
            out.raises |= o.raises
            out.returns |= o.returns
            out.normal = o.normal
        return out

    # ------------------------------------------------------------ expressions
    def eval_all(self, exprs, st):
        res = [((), st, None, None)]
        for a in exprs:
            new = []
            for (vals, s1, exc, org) in res:
                if exc:
                    new.append((vals, s1, exc, org))
                    continue
                for (v, s2, exc2, org2) in self.expr(a, s1):
                    new.append((vals + (v,), s2, exc2, org2))
            res = new
        return res

    def expr(self, e, st):
        """-> list of (absval, St, exc, origin)"""
        if isinstance(e, ast.Constant):
            if isinstance(e.value, (bool, type(None))):
                v = {True: "TRUE", False: "FALSE", None: "NONE"}[e.value]
            elif isinstance(e.value, str):
                v = "K:STR"
            else:
                v = "OTHER"
            return [(v, st, None, None)]
        if isinstance(e, ast.Name):
            return [(st.get(e.id) or "OTHER", st, None, None)]
        if isinstance(e, ast.Tuple):
            return [(vals if not exc else None, s1, exc, org) for (vals, s1, exc, org) in self.eval_all(e.elts, st)]
        if isinstance(e, ast.Starred):
            return self.expr(e.value, st)
        if isinstance(e, ast.UnaryOp) and isinstance(e.op, ast.Not):
            return [({"TRUE": "FALSE", "FALSE": "TRUE", "NONE": "TRUE"}.get(v, "OTHER") if not exc else v, s1, exc, org)
                    for (v, s1, exc, org) in self.expr(e.operand, st)]
        if isinstance(e, ast.Compare) and len(e.ops) == 1:
            res = []
            for (vals, s2, exc, org) in self.eval_all([e.left, e.comparators[0]], st):
                if exc:
                    res.append((None, s2, exc, org))
                    continue
                a, b = vals
                v = "OTHER"
                op = e.ops[0]
                if isinstance(op, (ast.Is, ast.IsNot)) and "NONE" in (a, b) and keepval(a) and keepval(b):
                    same = (a == b)
                    v = "TRUE" if same == isinstance(op, ast.Is) else "FALSE"
                if isinstance(op, (ast.Is, ast.IsNot, ast.Eq, ast.NotEq)) and a in ("TRUE", "FALSE", "NONE") and b in ("TRUE", "FALSE", "NONE"):
                    same = (a == b)                                      # x is True / x is False on a known constant
                    v = "TRUE" if same == isinstance(op, (ast.Is, ast.Eq)) else "FALSE"
                if isinstance(op, (ast.Eq, ast.NotEq)) and {a, b} == {"TOKEN", "NONE"}:
                    v = "FALSE" if isinstance(op, ast.Eq) else "TRUE"   # a Token never equals None
                if isinstance(op, (ast.Is, ast.IsNot)) and "NONE" in (a, b) and ("BOOL" in (a, b) or "TRUE" in (a, b) or "FALSE" in (a, b)
                                                                                 or isinstance(a, tuple) or isinstance(b, tuple)):
                    v = "FALSE" if isinstance(op, ast.Is) else "TRUE"   # a bool / a tuple is not None
                if isinstance(op, (ast.Is, ast.IsNot, ast.Eq, ast.NotEq)) and isinstance(a, str) and isinstance(b, str) \
                        and a.startswith("K:") and b.startswith("K:") and "K:STR" not in (a, b):
                    same = (a == b)                                      # two named constants (Enum members)
                    v = "TRUE" if same == isinstance(op, (ast.Is, ast.Eq)) else "FALSE"
                res.append((v, s2, None, None))
            return res
        if isinstance(e, ast.BoolOp):
            res = [("OTHER", st, None, None)]
            first = True
            outl = []
            pending = [st]
            for el in e.values:
                nxt = []
                for s1 in pending:
                    for (v2, s2, exc2, org2) in self.expr(el, s1):
                        if exc2:
                            outl.append((None, s2, exc2, org2))
                        else:
                            outl.append(("OTHER", s2, None, None))   # may short-circuit here
                            nxt.append(s2)
                pending = nxt
            # de-duplicate
            seen, ded = set(), []
            for r in outl:
                k = (r[0], r[1], r[2], r[3])
                if k not in seen:
                    seen.add(k)
                    ded.append(r)
            return ded
        if isinstance(e, ast.IfExp):
            res = []
            for (v, s1, exc, org) in self.expr(e.test, st):
                if exc:
                    res.append((None, s1, exc, org))
                    continue
                if v != "FALSE" and v != "NONE":
                    res.extend(self.expr(e.body, s1))
                if v != "TRUE":
                    res.extend(self.expr(e.orelse, s1))
            return res
        if isinstance(e, ast.Call):
            return self.call(e, st)
        if isinstance(e, (ast.Lambda,)):
            return [("OTHER", st, None, None)]
        if isinstance(e, (ast.Yield, ast.YieldFrom, ast.Await)):
            if e.value is None:
                return [("OTHER", st, None, None)]
            return [("OTHER" if not exc else None, s1, exc, org) for (v, s1, exc, org) in self.expr(e.value, st)]
        if isinstance(e, ast.Attribute):
            # a bound method of the object under analysis, as a value (handed to a helper, kept in a tuple)
            if isinstance(e.value, ast.Name) and e.value.id == "self" and self.cur and self.cur[-1][0] in ("parser", "decoder", "token"):
                c_, fn_ = self.repo.resolve_method(self.clsof(self.cur[-1][0]), e.attr)
                if fn_ is not None:
                    return [("M:" + e.attr, st, None, None)]
            # a member of an Enum class of the module: a constant
            if isinstance(e.value, ast.Name) and e.value.id in self.enum_classes() and e.attr in self.enum_classes()[e.value.id]:
                return [(f"K:{e.value.id}.{e.attr}", st, None, None)]
            res = []
            for (v, s1, exc, org) in self.expr(e.value, st):
                res.append(("OTHER" if not exc else None, s1, exc, org))
            return res
        # generic: evaluate sub-expressions in order
        children = []
        for child in ast.iter_child_nodes(e):
            if isinstance(child, ast.expr):
                children.append(child)
            elif isinstance(child, ast.comprehension):
                children.append(child.iter)
                children.extend(child.ifs)
            elif isinstance(child, ast.keyword):
                children.append(child.value)
        if isinstance(e, (ast.ListComp, ast.SetComp, ast.GeneratorExp)):
            children = children + [e.elt] if e.elt not in children else children
        if isinstance(e, ast.JoinedStr):
            kind = "K:STR"
        else:
            kind = "OTHER"
        return [(kind if not exc else None, s1, exc, org) for (vals, s1, exc, org) in self.eval_all(children, st)]

    def raw_check(self, st, node, what):
        """A token that was read without a preceding white-space/comment skip (so it may be a comment) and has
        not been pushed back is now consumed for good: T6."""
        flag = st.get("$raw")
        if flag and not st.get("$degraded"):
            fn, _, anchor = flag.partition("|")
            self.report("T6", fn, anchor,
                        f"{fn} `{anchor}`: a significant token is read with no white-space/comment skip since the "
                        f"previous one and is kept (not pushed back): a comment at this grammar position would be taken "
                        f"for the token", node=None, kept_until=what)
        return st.set("$raw", None) if flag else st

    def ev_next(self, st, node, forloop=False):
        self.stats["next_events"] += 1
        self.events["for_tokens" if forloop else "next"].add(self.where(node))
        st = self.t1_check(st, node)
        w = self.where(node)
        in_skip = self.cur[-1][2].name in self.skip_helpers and self.cur[-1][0] == "parser"
        st = self.raw_check(st, node, w)
        res = []
        end = "$EXHAUST" if forloop else "StopIteration"
        if st.after_end and not st.get("$degraded"):
            self.report("T7", self.fq(), self.anchor(node),
                        f"{w}: a token is requested after the END statement was recognised", node=node)
        if st.stream in ("PB", "PBR", "FRESH"):
            raw = (st.stream == "PBR" or (st.stream == "FRESH" and not st.skipped)) and not in_skip
            if st.stream == "PBR" and not in_skip and not st.get("$degraded") and not st.skipped:
                # (a callee entered from a degraded state sees it as skipped=True: summaries fold the two)
                self.report("T6", self.fq(), self.anchor(node),
                            f"{w}: reads as significant a pushed-back token that was first read with no white-space/comment "
                            f"skip before it (a comment at this grammar position would be taken for the token)", node=node)
                raw = False
            s2 = replace(st.add(1, 1), stream="FRESH", skipped=False)
            if raw:
                s2 = s2.set("$raw", f"{self.fq()}|{self.anchor(node)}")
            res.append(("TOKEN", s2, None, None))
        if st.stream == "FRESH":
            res.append((None, replace(st, stream="EXHAUSTED"), end, w))
            res.append((None, replace(st, stream="DEAD"), "LexerError", self.fq() + " `<lexer raised>`"))
            for (x, org) in self.lexer_escapes:
                res.append((None, replace(st, stream="DEAD"), x, org))
        if st.stream in ("EXHAUSTED", "DEAD"):
            res.append((None, st, end, w))
        if st.stream == "NA":
            raise AnalysisError(f"token event in a function not recognised as token function: {w}")
        return res

    def call(self, e, st):
        f = e.func
        if isinstance(f, ast.Name) and f.id == "next" and e.args and isinstance(e.args[0], ast.Name) and e.args[0].id == "tokens":
            return self.ev_next(st, e)
        if isinstance(f, ast.Attribute) and isinstance(f.value, ast.Name) and f.value.id == "tokens":
            w = self.where(e)
            if f.attr == "send":
                self.events["send"].add(w)
                pre = self.eval_all(e.args, st)
                res = []
                for (_, s1, exc, org) in pre:
                    if exc:
                        res.append((None, s1, exc, org))
                        continue
                    if s1.stream in ("PB", "PBR"):
                        self.report("T5", self.fq(), self.anchor(e),
                                    f"{w}: send() while a token is already pushed back (the lexer holds one slot; "
                                    f"the second token replaces nothing and desynchronises the stream)", node=e)
                    if s1.stream in ("EXHAUSTED", "DEAD"):
                        res.append((None, s1, "StopIteration", w))
                    else:
                        raw = bool(s1.get("$raw"))
                        res.append(("NONE", replace(s1.add(-1, -1), stream="PBR" if raw else "PB").set("$raw", None), None, None))
                return res
            if f.attr == "throw":
                self.events["throw"].add(w)
                pre = self.eval_all(e.args, st)
                res = []
                for (_, s1, exc, org) in pre:
                    if exc:
                        res.append((None, s1, exc, org))
                        continue
                    thrown = norm(e.args[0]).split(".")[-1] if e.args else "Exception"
                    if s1.stream in ("PB", "PBR", "FRESH"):
                        if self.lat.issub(thrown, "ValueError"):
                            res.append((None, replace(s1, stream="DEAD"), "LexerError", w))
                        else:
                            res.append((None, replace(s1, stream="DEAD"), thrown, w))
                    else:
                        res.append((None, s1, thrown, w + " on a finished generator"))
                return res
        # receiver expression and arguments first
        argexprs = list(e.args) + [k.value for k in e.keywords]
        pre_exprs = []
        if isinstance(f, ast.Attribute):
            v = f.value
            simple = (isinstance(v, ast.Name)) or (isinstance(v, ast.Attribute) and isinstance(v.value, ast.Name)
                                                  and v.value.id == "self") or \
                     (isinstance(v, ast.Call) and isinstance(v.func, ast.Name) and v.func.id == "super")
            if not simple:
                pre_exprs = [v]
        out = []
        for (vals, s1, exc, org) in self.eval_all(pre_exprs + argexprs, st):
            if exc:
                out.append((None, s1, exc, org))
            else:
                recv = vals[0] if pre_exprs else None
                out.extend(self.apply_call(e, f, recv, vals[len(pre_exprs):], s1))
        return out

    # --------------------------------------------------------------- calls
    def resolve_callee(self, e, f, recv, st):
        """-> (selfkind, defcls, fn) or None"""
        kind, defcls, _ = self.cur[-1]
        repo = self.repo
        if isinstance(f, ast.Attribute):
            v = f.value
            if isinstance(v, ast.Name) and v.id == "self" and kind in ("parser", "decoder", "token", "grammar"):
                c, fn = repo.resolve_method(self.clsof(kind), f.attr)
                if fn is not None:
                    return (kind, c, fn)
                return None
            if isinstance(v, ast.Call) and isinstance(v.func, ast.Name) and v.func.id == "super" and kind:
                after = defcls
                if v.args and isinstance(v.args[0], ast.Name):
                    after = v.args[0].id
                if after in repo.mro(self.clsof(kind)):
                    c, fn = repo.resolve_method(self.clsof(kind), f.attr, after=after)
                    if fn is not None:
                        return (kind, c, fn)
                return None
            if isinstance(v, ast.Attribute) and isinstance(v.value, ast.Name) and v.value.id == "self":
                tgt = {"decoder": "decoder", "grammar": "grammar"}.get(v.attr)
                if tgt and kind in ("parser", "token", "decoder"):
                    c, fn = repo.resolve_method(self.clsof(tgt), f.attr)
                    if fn is not None:
                        return (tgt, c, fn)
                return None
            if isinstance(v, ast.Name):
                val = st.get(v.id)
                if val == "O:decoder":
                    c, fn = repo.resolve_method(self.clsof("decoder"), f.attr)
                    if fn is not None:
                        return ("decoder", c, fn)
                if val == "TOKEN" and repo.has_cls("Token"):
                    c, fn = repo.resolve_method("Token", f.attr)
                    if fn is not None:
                        return ("token", c, fn)
                return None
            if recv == "TOKEN" and repo.has_cls("Token"):
                c, fn = repo.resolve_method("Token", f.attr)
                if fn is not None:
                    return ("token", c, fn)
            return None
        if isinstance(f, ast.Name):
            val = st.get(f.id) or ""
            if val.startswith("M:") and kind:
                c, fn = repo.resolve_method(self.clsof(kind), val[2:])
                if fn is not None:
                    return (kind, c, fn)
            # module-level function of the same module
            mod = self.module_of_frame()
            if mod is not None and f.id in mod.functions:
                fn = mod.functions[f.id]
                fn._module = mod.name
                return (None, None, fn)
        return None

    def module_of_frame(self):
        kind, defcls, fn = self.cur[-1]
        if defcls:
            return self.repo.classes[defcls].module
        m = getattr(fn, "_module", None)
        return self.repo.modules.get(m) if m else None

    def apply_call(self, e, f, recv, argvals, st):
        src = norm(e, 400)
        self.stats["calls"] += 1
        # Token(...) construction
        if isinstance(f, ast.Name) and f.id == "Token":
            return [("TOKEN", st, None, None)]
        # protocol-relevant predicates and modelled helpers take precedence over resolution
        if isinstance(f, ast.Attribute) and f.attr in ("is_WSC", "is_end_statement") and not e.args:
            return self.lib_call(e, f, recv, argvals, st, src)
        if isinstance(f, ast.Name) and f.id == "for_try_except":
            return self.lib_call(e, f, recv, argvals, st, src)
        target = self.resolve_callee(e, f, recv, st)
        if target is not None:
            selfkind, defcls, fn = target
            self.stats["calls_resolved"] += 1
            tok = uses_tokens(fn)
            params = self.params_of(defcls, fn)
            # positional + keyword arguments -> abstract parameter values
            npos = len(e.args)
            amap = {}
            for p, v in zip(params, argvals[:npos]):
                amap[p] = v
            for kw, v in zip(e.keywords, argvals[npos:]):
                if kw.arg:
                    amap[kw.arg] = v
            argabs = tuple((amap.get(p) if keepval(amap.get(p)) else "OTHER") for p in params if p != "tokens")
            res = []
            summ = self.summary(selfkind, defcls, fn, st.stream, st.skipped or bool(st.get("$degraded")), argabs)
            if tok:
                # a helper that never returns (it throws into the lexer or raises on every path) does not continue the
                # parse: handing it the token stream is not "parsing goes on" (T1), exactly like tokens.throw itself
                never_returns = bool(summ) and all(x[0] != "return" for x in summ)
                if not never_returns:
                    st = self.t1_check(st, e)
                # T7 through a callee: the END statement has been recognised and the callee asks the lexer for a token
                # (some exit of its summary consumed one, or left the stream in another state than it found it)
                if st.after_end and not st.get("$degraded") and st.stream == "FRESH" and any(
                        x[3] > 0 or x[4] != st.stream for x in summ):
                    self.report("T7", self.fq(), self.anchor(e),
                                f"{self.where(e)}: a token is requested (inside {fn.name}) after the END statement was recognised",
                                node=e)
                st = self.raw_check(st, e, self.where(e))
            for (kind, ret, dlo, dhi, stream, skipped, after_end, exc, origin, closed) in summ:
                if tok:
                    s2 = replace(st.add(dlo, dhi), stream=stream, skipped=skipped, after_end=st.after_end or after_end)
                else:
                    s2 = st
                if kind == "return" and fn.name == "parse_end_aggregation":
                    s2 = s2.set("$closed", "TRUE")
                if kind == "return" and closed and fn.name.startswith("_") and not fn.name.startswith("__"):
                    s2 = s2.set("$closed", "TRUE")        # the end statement was parsed inside a private helper of this production
                if kind == "return":
                    if origin == "falloff" and tok and self.value_used(e) and returns_value(fn):
                        self.report("T8", f"{defcls}.{fn.name}" if defcls else fn.name, "falls off the end",
                                    f"{defcls}.{fn.name} can reach its end without `return <value>` (returns None) but "
                                    f"its result is used as a value", node=fn, used_at=self.where(e))
                    res.append((ret, s2, None, None))
                else:
                    res.append((None, s2, exc, origin))
            return res
        self.stats["calls_unresolved"] += 1
        return self.lib_call(e, f, recv, argvals, st, src)

    # ----------------------------------------------------- library models
    def lib_call(self, e, f, recv, argvals, st, src):
        w = self.where(e)
        name = f.id if isinstance(f, ast.Name) else (f.attr if isinstance(f, ast.Attribute) else "")
        recv_src = norm(f.value) if isinstance(f, ast.Attribute) else ""
        recv_val = None
        if isinstance(f, ast.Attribute):
            if isinstance(f.value, ast.Name):
                recv_val = st.get(f.value.id)
            else:
                recv_val = recv
        ok = lambda v: [(v, st, None, None)]
        # token predicates with protocol meaning
        if name == "is_WSC" and (recv_val == "TOKEN" or True) and not e.args and isinstance(f, ast.Attribute):
            # a white-space/comment token was consumed and discarded: not significant; a skip is in progress
            return [("TRUE", replace(st.add(-1, -1), skipped=True).set("$raw", None), None, None), ("FALSE", st, None, None)]
        if name == "is_end_statement" and isinstance(f, ast.Attribute):
            return [("TRUE", replace(st, after_end=True), None, None), ("FALSE", st, None, None)]
        if isinstance(f, ast.Name):
            if name in ("int", "float"):
                self.events["lib"].add(w)
                return ok("OTHER") + [(None, st, "ValueError", w)]
            if name == "str":
                return ok("K:STR")
            if name == "bool" and len(e.args) == 1:
                v = argvals[0]
                return ok({"TRUE": "TRUE", "FALSE": "FALSE", "NONE": "FALSE", "TOKEN": "BOOL"}.get(v, "BOOL"))
            if name in ("frozenset", "set") and e.args and not isinstance(e.args[0], (ast.Constant,)):
                # elements produced by the parser may be unhashable (a sequence is a list; an ODL set is a set)
                if self.cur[-1][0] == "parser":
                    self.events["lib"].add(w)
                    return ok("OTHER") + [(None, st, "TypeError", w)]
                return ok("OTHER")
            if name == "hasattr" and len(e.args) == 2 and isinstance(e.args[1], ast.Constant):
                v, attr = argvals[0], e.args[1].value
                table = {"K:DATE": {"year", "month", "day", "replace"},
                         "K:TIME": {"hour", "minute", "second", "microsecond", "tzinfo", "utcoffset", "replace"},
                         "K:DATETIME": {"year", "month", "day", "hour", "minute", "second", "microsecond", "tzinfo",
                                        "utcoffset", "replace"},
                         "K:STR": {"replace"}}
                if v in table:
                    return ok("TRUE" if attr in table[v] else "FALSE")
                return ok("OTHER")
            if name == "isinstance" and len(e.args) == 2:
                v = argvals[0]
                tsrc = norm(e.args[1])
                kinds = {"K:DATE": ("date",), "K:TIME": ("time",), "K:DATETIME": ("datetime", "date"), "K:STR": ("str",)}
                if v in kinds:
                    names = [t.strip("() ").split(".")[-1] for t in tsrc.strip("()").split(",")]
                    return ok("TRUE" if any(n in kinds[v] for n in names) else "FALSE")
                return ok("OTHER")
            if name == "for_try_except" and len(e.args) >= 2:
                exc = norm(e.args[0]).split(".")[-1]
                fn_src = norm(e.args[1])
                self.events["lib"].add(w)
                kind = "K:DATETIME" if fn_src.endswith("strptime") else "OTHER"
                return ok(kind) + [(None, st, exc, w)]
            if name == "linecount" or name == "firstpos" or name == "sorted" or name == "len":
                return ok("OTHER")
            return ok("OTHER")
        # attribute calls ----------------------------------------------------
        # partial functions of the standard library: a lookup without a default raises for the inputs it does not know
        dotted = norm(f)
        partial = {"unicodedata.name": ("ValueError", 1), "unicodedata.decimal": ("ValueError", 1), "unicodedata.digit": ("ValueError", 1),
                   "unicodedata.numeric": ("ValueError", 1), "unicodedata.lookup": ("KeyError", 1), "name": ("ValueError", 1)}
        if dotted in partial and dotted != "name" and len(e.args) == partial[dotted][1] and not e.keywords:
            self.events["lib"].add(w)
            return ok("OTHER") + [(None, st, partial[dotted][0], w)]
        if isinstance(f, ast.Attribute) and name in ("index", "remove") and e.args and recv_val not in ("TOKEN",) \
                and not norm(f.value).startswith(("self.", "tokens")):
            self.events["lib"].add(w)
            return ok("OTHER") + [(None, st, "ValueError", w)]
        if name == "strptime":
            self.events["lib"].add(w)
            return ok("K:DATETIME") + [(None, st, "ValueError", w)]
        if recv_src in ("self.real_cls", "self.decoder.real_cls") or src.startswith("self.real_cls("):
            pass
        if isinstance(f, ast.Attribute) and isinstance(f.value, ast.Name) and f.value.id == "self":
            if name == "real_cls":
                self.events["lib"].add(w)
                return ok("OTHER") + [(None, st, "ValueError", w), (None, st, "InvalidOperation", w)]
            if name == "quantity_cls":
                self.events["lib"].add(w)
                return ok("OTHER") + [(None, st, "ValueError", w)]
            if name in ("modcls", "grpcls", "objcls", "lexer"):
                return ok("OTHER")
        if name == "date" and not e.args:
            return ok("K:DATE" if recv_val in ("K:DATETIME", None, "OTHER") else "OTHER")
        if name == "time" and not e.args:
            return ok("K:TIME" if recv_val in ("K:DATETIME", None, "OTHER") else "OTHER")
        if name == "replace" and any(k.arg == "tzinfo" for k in e.keywords):
            self.events["lib"].add(w)
            if recv_val in ("K:DATE", "K:STR"):
                return [(None, st, "TypeError", w)]
            if recv_val in ("K:TIME", "K:DATETIME"):
                return ok(recv_val)
            return ok("OTHER")
        if name in ("parse_isodate", "parse_isotime", "isoparse"):
            return ok("OTHER") + [(None, st, "ValueError", w)]
        if name == "encode" and any((k.arg == "encoding") for k in e.keywords) or (name == "encode" and e.args):
            return ok("OTHER") + [(None, st, "UnicodeEncodeError", w)]
        return ok("OTHER")

    def value_used(self, call):
        p = getattr(call, "_parent", None)
        if isinstance(p, ast.Starred):
            p = getattr(p, "_parent", None)
        if isinstance(p, (ast.Return, ast.Assign, ast.AugAssign, ast.AnnAssign)):
            return True
        if isinstance(p, ast.Call) and (call in p.args or any(isinstance(a, ast.Starred) and a.value is call for a in p.args)):
            return True
        if isinstance(p, ast.keyword):
            return True
        return False


def _matches(key, patterns):
    from .triage import matches
    return matches(key, patterns)


def t3_key(exc, origin):
    fn, _, anchor = origin.partition(" `")
    return f"T3|{fn}|{exc} from {anchor.rstrip('`')}"


def configs_from_repo(repo):
    """The five bundled pairings: the rows of pvl_validate.dialects as the module builds them (abstract evaluation of
    the module's top level, vsa.ctor.module_value)."""
    from . import ctor
    cfgs = []
    seen = set()
    d = ctor.module_value(repo, "pvl_validate", "dialects") if "pvl_validate" in repo.modules else None
    if isinstance(d, ctor.DictV):
        for rname, row in d.items:
            if not isinstance(row, ctor.DictV):
                continue
            p_, g_, dd = row.get("parser"), row.get("grammar"), row.get("decoder")
            if isinstance(p_, ctor.Inst) and isinstance(g_, ctor.Inst) and isinstance(dd, ctor.Inst) and repo.has_cls(p_.cls):
                key = (p_.cls, dd.cls, g_.cls)
                if key not in seen:
                    seen.add(key)
                    cfgs.append(Config(rname, p_.cls, dd.cls, g_.cls))
    if len(cfgs) < 5:
        raise AnalysisError(f"could not read five dialect pairings from pvl_validate.dialects (got {len(cfgs)})")
    return cfgs
