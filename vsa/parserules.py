"""Runs the token-protocol interpreter for the bundled pairings and turns its
reports into findings/obligations for the property rule sets."""
import ast
import os
from concurrent.futures import ProcessPoolExecutor

from .core import Repo, Finding, AnalysisError, norm, handler_name
from . import tokproto

DOCUMENTED = ("LexerError", "ParseError")
_CACHE = {}


def _one(args):
    root, cfgt, triaged = args
    repo = Repo(root)
    cfg = tokproto.Config(*cfgt)
    I = tokproto.Interp(repo, cfg, triaged_keys=triaged)
    res = I.run("parse")
    escapes = {}
    for ex in res:
        if ex[0] == "raise":
            escapes.setdefault(ex[7], set()).add(ex[8])
    findings = {}
    for rule, d in I.findings.items():
        for key, f in d.items():
            f = dict(f)
            f["extra"] = {k: sorted(v) for k, v in f["extra"].items()}
            findings[key] = f
    tries = []
    for (tfn, _), info in I.tries.items():
        if info["frame"][0] != "parser":
            continue
        tries.append({"function": tfn, "handlers": info["handlers"],
                      "caught": {h: sorted(v) for h, v in info["caught"].items()}})
    return {
        "config": cfgt, "findings": findings,
        "escapes": {k: sorted(v) for k, v in escapes.items()},
        "stats": dict(I.stats), "contexts": len(I.summ), "rounds": I.rounds,
        "events": {k: sorted(v) for k, v in I.events.items()},
        "tries": tries,
        "token_fns": sorted(f"{c}.{m}" for c, m in I.token_fns),
        "skip_helpers": sorted(I.skip_helpers),
        "lexer_escapes": [list(x) for x in I.lexer_escapes],
        "lexer_raises": sorted({(x[7], x[8]) for x in I.lexer_exits if x[0] == "raise"}),
        "exits": sorted({(ex[1] if isinstance(ex[1], str) else "TUPLE", ex[4]) for ex in res if ex[0] == "return"}),
    }


def lexer_triage(repo):
    """Triage-table keys for exception sites inside the lexer (so that an
    infeasible plain ValueError of the lexer does not pollute the parser
    analysis).  The NotImplementedError of lex_multichar_comments is
    infeasible iff rule TB3 holds (conditional triage)."""
    from . import triage, tables
    keys = {k for k in triage.TABLE if k.startswith("T3|lex")}
    # raises behind an exhaustive ladder over the lexer's Enum-valued state are unreachable (computed, vsa.enumproof)
    from . import enumproof
    for fname, _line in enumproof.infeasible_raises(repo):
        keys.add(f"T3|{fname}|ValueError from raise ValueError*")
        keys.add(f"T3|{repo.public_owner('lexer', None, fname)[1]}|ValueError from raise ValueError*")    # as the engine names it
    if not tables.tb3(repo):
        keys.add(tables.TB3_TRIAGE_KEY)
    # the final raise of aggregation_cls() is infeasible iff TB1 holds for every grammar class: prune the path
    if not any(tables.tb1(repo, c) for c in tables.grammar_classes(repo)):
        for cname in repo.subclasses("PVLParser"):
            if "aggregation_cls" in repo.classes[cname].methods:
                keys.add(f"T1|{cname}.aggregation_cls|raise ValueError*")
    return tuple(sorted(keys))


def analyse(repo, lexer_escapes=()):
    lexer_escapes = lexer_triage(repo)
    key = (repo.root, repo.digest(), tuple(lexer_escapes))
    if key in _CACHE:
        return _CACHE[key]
    cfgs = tokproto.configs_from_repo(repo)
    jobs = [(repo.root, (c.name, c.parser, c.decoder, c.grammar), tuple(lexer_escapes)) for c in cfgs]
    try:
        with ProcessPoolExecutor(max_workers=min(len(jobs), os.cpu_count() or 1)) as ex:
            results = list(ex.map(_one, jobs))
    except (OSError, PermissionError):
        results = [_one(j) for j in jobs]
    merged = {}
    for r in results:
        for k, f in r["findings"].items():
            m = merged.setdefault(k, dict(f, configs=[]))
            m["configs"].append(r["config"][0])
            for ek, ev in f["extra"].items():
                m["extra"][ek] = sorted(set(m["extra"].get(ek, [])) | set(ev))
    out = {"results": results, "findings": merged, "configs": [r["config"] for r in results]}
    _CACHE[key] = out
    return out


def to_finding(f):
    extra = dict(f.get("extra", {}))
    extra["configs"] = f.get("configs", [])
    return Finding(f["rule"], f["function"], f["anchor"], f["message"], where=f.get("where", ""), extra=extra)


def add_rule(res, an, rule):
    """Adds the findings of *rule* to the result; returns them."""
    out = []
    for k, f in sorted(an["findings"].items()):
        if f["rule"] == rule:
            out.append(res.add(to_finding(f)))
    return out


def escapes(an):
    """(exception class, origin) -> configs, for everything reaching the exit
    of parse() that is not a documented error type."""
    out = {}
    for r in an["results"]:
        for exc, o in r["lexer_raises"]:
            out.setdefault((exc, o), []).append(r["config"][0])
        for exc, origins in r["escapes"].items():
            for o in origins:
                out.setdefault((exc, o), []).append(r["config"][0])
    return out


def event_sites(an, kind):
    s = set()
    for r in an["results"]:
        s |= set(r["events"].get(kind, []))
    return sorted(s)


def handlers(an):
    """Distinct (function, handler type) of the parser classes, with what they caught."""
    out = {}
    for r in an["results"]:
        for t in r["tries"]:
            for h in t["handlers"]:
                c = out.setdefault((t["function"], h), set())
                c |= set(t["caught"].get(h, []))
    return out


def common_stats(res, an):
    res.stat("configs", len(an["results"]), add=False)
    res.stat("contexts", sum(r["contexts"] for r in an["results"]), add=False)
    res.stat("evaluations", sum(r["stats"].get("statements", 0) for r in an["results"]), add=False)
    res.stat("calls_resolved", sum(r["stats"].get("calls_resolved", 0) for r in an["results"]), add=False)
    res.stat("calls_modelled_or_opaque", sum(r["stats"].get("calls_unresolved", 0) for r in an["results"]), add=False)
    tf = set()
    for r in an["results"]:
        tf |= set(r["token_fns"])
    res.stat("token_functions", len(tf), add=False)
    res.samples.append({"configs": [list(c) for c in an["configs"]], "token_functions": sorted(tf)})
    res.floor("token functions", len(tf), 12)
    res.floor("next(tokens) sites", len(event_sites(an, "next")), 5)
    res.floor("tokens.send sites", len(event_sites(an, "send")), 5)
    res.floor("tokens.throw sites", len(event_sites(an, "throw")), 3)
    res.floor("for-in-tokens loops", len(event_sites(an, "for_tokens")), 2)
    res.floor("parser try handlers", len(handlers(an)), 8)


# ------------------------------------------------------------------ WSC-SKIP
def rule_wsc_skip(repo, res):
    """The white-space/comment skip helpers of the parser: in their token loop a token for which is_WSC() holds is
    never pushed back, returned on, raised on or allowed to leave the loop -- the loop goes on to the next token; and
    when the loop gives up on another token (``return False``) that token was sent back.  Decided on every path of the
    loop body with the truth of ``t.is_WSC()`` as the only tracked fact (T / F / unknown); other tests fork."""
    import ast
    from .core import Finding, AnalysisError, norm
    from .tokproto import is_skip_helper
    from .inline import inline_all
    seen = 0
    done = set()
    for cfg in tokproto.configs_from_repo(repo):
        for cname in repo.mro(cfg.parser):
            if cname.startswith("ext:") or cname in done:
                continue
            done.add(cname)
            ci = repo.classes[cname]
            for mname, fn0 in ci.methods.items():
                if not is_skip_helper(fn0):
                    continue
                try:
                    fn = inline_all(repo, cname, fn0, module=ci.module.name)
                except Exception:
                    fn = fn0
                for loop in [n for n in ast.walk(fn) if isinstance(n, ast.For) and isinstance(n.iter, ast.Name)
                             and n.iter.id == "tokens" and isinstance(n.target, ast.Name)]:
                    seen += 1
                    tv = loop.target.id
                    probs = []

                    def truth(e, wsc):
                        if isinstance(e, ast.Call) and isinstance(e.func, ast.Attribute) and e.func.attr == "is_WSC" \
                                and isinstance(e.func.value, ast.Name) and e.func.value.id == tv and not e.args:
                            return wsc, True
                        if isinstance(e, ast.UnaryOp) and isinstance(e.op, ast.Not):
                            v, about = truth(e.operand, wsc)
                            return ({"T": "F", "F": "T"}.get(v, "U"), about)
                        if isinstance(e, ast.Constant):
                            return ("T" if e.value else "F"), False
                        return "U", False

                    def walk(stmts, wsc, sent):
                        """returns the list of (wsc, sent) states that fall off the end of *stmts*"""
                        states = [(wsc, sent)]
                        for s in stmts:
                            nxt = []
                            for (w, sn) in states:
                                if isinstance(s, ast.If):
                                    v, about = truth(s.test, w)
                                    if about and w == "U":
                                        neg = isinstance(s.test, ast.UnaryOp)
                                        nxt += walk(s.body, "F" if neg else "T", sn)
                                        nxt += walk(s.orelse, "T" if neg else "F", sn)
                                    elif v == "T":
                                        nxt += walk(s.body, w, sn)
                                    elif v == "F":
                                        nxt += walk(s.orelse, w, sn)
                                    else:
                                        # a conjunction / disjunction that mentions is_WSC, or any other test: both arms
                                        nxt += walk(s.body, w, sn)
                                        nxt += walk(s.orelse, w, sn)
                                elif isinstance(s, ast.Return):
                                    if w == "T":
                                        probs.append((s, "returns at"))
                                    elif w == "F" and not sn and isinstance(s.value, ast.Constant) and s.value.value is False:
                                        probs.append((s, "NOSEND"))
                                elif isinstance(s, ast.Raise):
                                    if w == "T":
                                        probs.append((s, "raises at"))
                                elif isinstance(s, ast.Break):
                                    if w == "T":
                                        probs.append((s, "leaves the loop at"))
                                elif isinstance(s, ast.Continue):
                                    pass
                                elif isinstance(s, ast.Expr) and isinstance(s.value, ast.Call) and norm(s.value.func) == "tokens.send":
                                    if w == "T":
                                        probs.append((s, "pushes back"))
                                    nxt.append((w, True))
                                elif isinstance(s, (ast.For, ast.While, ast.Try, ast.With, ast.Match if hasattr(ast, "Match") else ast.For)):
                                    raise AnalysisError(f"WSC-SKIP: unsupported statement `{norm(s)[:60]}` in the token loop of {cname}.{mname}")
                                else:
                                    nxt.append((w, sn))
                            states = list(dict.fromkeys(nxt))
                            if not states:
                                break
                        return states

                    walk(loop.body, "U", False)
                    bad = list(dict.fromkeys((norm(s), why) for (s, why) in probs))
                    res.oblige("WSC-SKIP", f"{cname}.{mname}: a token with is_WSC() true always leads to the next token of the loop "
                                           "and the token the skip stops at is sent back before `return False`", ok=not bad)
                    for (txt, why) in bad:
                        if why == "NOSEND":
                            res.add(Finding("WSC-SKIP", f"{cname}.{mname}", f"`{txt}` without send",
                                            f"{cname}.{mname} gives up at a token that is not white space or a comment (`{txt}`) "
                                            "without sending it back: the token after the skipped run is lost"))
                        else:
                            res.add(Finding("WSC-SKIP", f"{cname}.{mname}", f"{why} a WSC token: `{txt}`",
                                            f"{cname}.{mname} {why} a white-space/comment token (`{txt}` is reachable with "
                                            "t.is_WSC() true): a comment or line break at this grammar position ends the skip, "
                                            "so the same label with and without the comment parses differently"))
    res.floor("skip-helper token loops", seen, 2)


def rule_idx_guard(repo, res):
    """IDX-GUARD: on the way from an entry point to the lexer (pvl.load/loads/loadu, the parsers' parse(), lexer()), a
    constant-index subscript `t[0]` / `t[-1]` of a text -- a parameter of the function or a local bound to a string
    operation on one (re.sub, replace, strip, decode, slicing) -- is reached only where a test of *that* name's
    non-emptiness holds (`t and ...`, `if t:`, `len(t) > 0`, `t != ""`).  Otherwise the empty text, or a text the
    preceding rewrite empties (a lone dash continuation), makes the loader fail with IndexError instead of the documented
    LexerError / ParseError."""
    import ast
    from .core import Finding, norm
    sites = 0
    targets = []
    for mname, fnames in (("__init__", ("load", "loads", "loadu", "get_text_from", "decode_by_char")), ("new", ("load", "loads", "loadu")),
                          ("lexer", ("lexer",))):
        if mname in repo.modules:
            for f in fnames:
                if f in repo.module(mname).functions:
                    targets.append((f"{mname}.{f}", repo.module(mname).functions[f]))
    for cname in sorted(repo.subclasses("PVLParser")):
        fn = repo.classes[cname].methods.get("parse")
        if fn is not None:
            targets.append((f"{cname}.parse", fn))
    STR_OPS = {"sub", "subn", "replace", "strip", "lstrip", "rstrip", "decode", "read", "read_text", "join", "format", "lower", "upper", "casefold"}
    for label, fn in targets:
        params = {a.arg for a in fn.args.posonlyargs + fn.args.args if a.arg not in ("self", "cls")}
        texts = set(params)
        for a in ast.walk(fn):
            if isinstance(a, ast.Assign) and len(a.targets) == 1 and isinstance(a.targets[0], ast.Name):
                v = a.value
                if (isinstance(v, ast.Call) and isinstance(v.func, ast.Attribute) and v.func.attr in STR_OPS) or \
                        (isinstance(v, ast.Subscript) and isinstance(v.slice, ast.Slice)) or isinstance(v, ast.JoinedStr):
                    texts.add(a.targets[0].id)
        for sub in [x for x in ast.walk(fn) if isinstance(x, ast.Subscript) and isinstance(x.value, ast.Name) and x.value.id in texts
                    and isinstance(x.ctx, ast.Load)]:
            idx = sub.slice
            if isinstance(idx, ast.UnaryOp) and isinstance(idx.op, ast.USub) and isinstance(idx.operand, ast.Constant):
                pass
            elif isinstance(idx, ast.Constant) and isinstance(idx.value, int):
                pass
            else:
                continue
            name = sub.value.id
            sites += 1

            def nonempty_test(t, pol=True):
                """does test *t* (with polarity) establish that *name* is non-empty?"""
                if isinstance(t, ast.UnaryOp) and isinstance(t.op, ast.Not):
                    return nonempty_test(t.operand, not pol)
                if isinstance(t, ast.BoolOp) and isinstance(t.op, ast.And) and pol:
                    return any(nonempty_test(v, True) for v in t.values)
                if isinstance(t, ast.BoolOp) and isinstance(t.op, ast.Or) and not pol:
                    return any(nonempty_test(v, False) for v in t.values)
                if isinstance(t, ast.Name) and t.id == name:
                    return pol
                if isinstance(t, ast.Call) and norm(t.func) == "len" and t.args and isinstance(t.args[0], ast.Name) and t.args[0].id == name:
                    return pol
                if isinstance(t, ast.Compare) and len(t.ops) == 1:
                    l, r, op = t.left, t.comparators[0], t.ops[0]
                    is_len = lambda e: isinstance(e, ast.Call) and norm(e.func) == "len" and e.args and isinstance(e.args[0], ast.Name) and e.args[0].id == name
                    if is_len(l) and isinstance(r, ast.Constant) and isinstance(r.value, int):
                        if isinstance(op, (ast.Gt, ast.GtE, ast.NotEq)) and pol:
                            return (r.value >= 0 and isinstance(op, ast.Gt)) or (r.value >= 1 and isinstance(op, ast.GtE)) or (r.value == 0 and isinstance(op, ast.NotEq))
                        if isinstance(op, ast.Eq) and r.value == 0 and not pol:
                            return True
                    if isinstance(l, ast.Name) and l.id == name and isinstance(r, ast.Constant) and r.value == "":
                        return (isinstance(op, ast.NotEq) and pol) or (isinstance(op, ast.Eq) and not pol)
                    if isinstance(l, ast.Name) and l.id == name and isinstance(op, (ast.In, ast.Eq)) and pol and not (isinstance(r, ast.Constant) and r.value == ""):
                        return isinstance(op, ast.Eq) and isinstance(r, ast.Constant) and isinstance(r.value, str) and r.value != ""
                return False
            guarded = False
            x = sub
            while x is not None and x is not fn:
                p = getattr(x, "_parent", None)
                if isinstance(p, ast.BoolOp) and isinstance(p.op, ast.And) and x in p.values:
                    if any(nonempty_test(v, True) for v in p.values[:p.values.index(x)]):
                        guarded = True
                if isinstance(p, (ast.If, ast.While)) and x is not p.test:
                    if x in p.body and nonempty_test(p.test, True):
                        guarded = True
                    if x in p.orelse and nonempty_test(p.test, False):
                        guarded = True
                if isinstance(p, ast.IfExp) and x is not p.test:
                    if (x is p.body and nonempty_test(p.test, True)) or (x is p.orelse and nonempty_test(p.test, False)):
                        guarded = True
                if isinstance(p, ast.Try) and x in p.body and any(h.type is None or "IndexError" in norm(h.type) or norm(h.type) in ("Exception", "LookupError")
                                                                   for h in p.handlers):
                    guarded = True
                # an earlier guard clause of the same block: `if not t: return ...`
                if isinstance(p, (ast.FunctionDef, ast.If, ast.For, ast.While, ast.With, ast.Try)):
                    for field in ("body", "orelse"):
                        blk = getattr(p, field, None)
                        if isinstance(blk, list) and x in blk:
                            for st in blk[:blk.index(x)]:
                                if isinstance(st, ast.If) and st.body and isinstance(st.body[-1], (ast.Return, ast.Raise, ast.Continue, ast.Break)) \
                                        and nonempty_test(st.test, False):
                                    guarded = True
                x = p
            res.oblige("IDX-GUARD", f"{label}: `{norm(sub)}` is reached only when `{name}` is known to be non-empty", ok=guarded)
            if not guarded:
                res.add(Finding("IDX-GUARD", label, f"`{norm(sub)}` without a test of `{name}`",
                                f"{label} reads `{norm(sub)}` although nothing on the way establishes that `{name}` is not empty: for the "
                                "empty text (or one the preceding rewrite empties, e.g. a lone dash continuation) the loader fails with "
                                "IndexError instead of LexerError / ParseError", where=f"pvl/{label.split('.')[0] if label[0].islower() else 'parser'}.py:{sub.lineno}"))
    res.oblige("IDX-GUARD", f"{len(targets)} entry-path functions examined, {sites} constant-index subscripts of texts", ok=True, nontrivial=False)
    res.floor("entry-path functions for IDX-GUARD", len(targets), 6)
