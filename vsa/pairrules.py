"""PAIR: the end of a block is accepted only when it pairs with its beginning (C03, C05).

Decided on the path conditions of PVLParser.parse_end_aggregation (vsa.flow): every normal exit of the function
lies on a path where (1) the end keyword equals, case-folded on both sides, the value the grammar's
aggregation_keywords table holds for the begin keyword, and (2) once a block name was read after '=', that name
equals the block name of the begin statement.  The structural part only: which table row, which comparison,
which polarity -- not the values."""
import ast

from .core import Finding, AnalysisError, norm
from . import flow, canon


def _unwrap(test, pol):
    while isinstance(test, ast.UnaryOp) and isinstance(test.op, ast.Not):
        test, pol = test.operand, not pol
    return test, pol


def _folded(e):
    return isinstance(e, ast.Call) and isinstance(e.func, ast.Attribute) and e.func.attr in ("casefold", "lower", "upper") and not e.args


def rule_pair(repo, res):
    orig = repo.full("PVLParser", "parse_end_aggregation")
    # canonical form: named temporaries (found_fold = end_agg.casefold()) are read through; the token variables
    # themselves (bound by next(tokens)) are kept
    keep = {t.id for n in ast.walk(orig) if isinstance(n, ast.Assign) and isinstance(n.value, ast.Call) and norm(n.value.func) == "next"
            for t in n.targets if isinstance(t, ast.Name)}
    raw = canon.canon_method(repo, "PVLParser", "parse_end_aggregation", keep=tuple(sorted(keep)))
    params = [a.arg for a in raw.args.args]
    if len(params) < 4:
        raise AnalysisError("PVLParser.parse_end_aggregation signature changed; PAIR needs (self, begin_agg, block_name, tokens)")
    begin, bname = params[1], params[2]
    sc = flow.stmts_with_conds(raw.body)
    exits = [(st, c) for st, c in sc if isinstance(st, ast.Return)]
    # falling off the end is an exit too: the last simple statement if it is not a return/raise
    if sc and not isinstance(sc[-1][0], (ast.Return, ast.Raise)):
        exits.append(sc[-1])
    res.floor("normal exits of parse_end_aggregation", len(exits), 1)

    def kw_equal(test, pol):
        """the end keyword equals the table's end keyword (both case-folded), held with the right polarity"""
        test, pol = _unwrap(test, pol)
        if not (isinstance(test, ast.Compare) and len(test.ops) == 1):
            return False
        l, r = test.left, test.comparators[0]
        if not (_folded(l) and _folded(r) and l.func.attr == r.func.attr):
            return False
        srcs = norm(l, 300) + " " + norm(r, 300)
        if "aggregation_keywords" not in srcs:
            return False
        return (isinstance(test.ops[0], ast.Eq) and pol) or (isinstance(test.ops[0], ast.NotEq) and not pol)

    def name_equal(test, pol):
        test, pol = _unwrap(test, pol)
        if not (isinstance(test, ast.Compare) and len(test.ops) == 1):
            return False
        names = {norm(test.left), norm(test.comparators[0])}
        if bname not in names:
            return False
        return (isinstance(test.ops[0], ast.Eq) and pol) or (isinstance(test.ops[0], ast.NotEq) and not pol)

    for st, conds in exits:
        ok = flow.holds(conds, kw_equal)
        res.oblige("PAIR", f"parse_end_aggregation exit `{norm(st, 40)}` (line {st.lineno - raw.lineno}): the end keyword matched the "
                           "begin keyword's row of aggregation_keywords (case-folded)", ok=ok)
        if not ok:
            res.add(Finding("PAIR", "PVLParser.parse_end_aggregation", f"exit `{norm(st, 40)}` without the keyword test",
                            f"parse_end_aggregation can leave normally (`{norm(st, 40)}`) on a path that does not hold "
                            "`<end keyword>.casefold() == aggregation_keywords[<begin keyword>].casefold()`: an END_OBJECT closes a "
                            "GROUP (or any token closes a block) without an error", where=f"pvl/parser.py:{st.lineno}"))
    # the block name: the token read after the '=' (the second next(tokens) of the function) is compared with the block
    # name of the begin statement right there, and a mismatch does not fall through
    def find_list(stmts, target):
        for i, s_ in enumerate(stmts):
            if s_ is target:
                return stmts, i
            for fld in ("body", "orelse", "finalbody"):
                sub = getattr(s_, fld, None)
                if isinstance(sub, list) and sub and isinstance(sub[0], ast.stmt):
                    r_ = find_list(sub, target)
                    if r_:
                        return r_
            if isinstance(s_, ast.Try):
                for h in s_.handlers:
                    r_ = find_list(h.body, target)
                    if r_:
                        return r_
        return None
    reads = sorted([n for n in ast.walk(raw) if isinstance(n, ast.Assign) and isinstance(n.value, ast.Call) and norm(n.value.func) == "next"
                    and len(n.targets) == 1 and isinstance(n.targets[0], ast.Name)], key=lambda n: n.lineno)
    res.floor("token reads in parse_end_aggregation", len(reads), 2)
    rd = reads[1]
    tvar = rd.targets[0].id
    lst, i = find_list(raw.body, rd)
    ok2 = False
    for s_ in lst[i + 1:]:
        if isinstance(s_, ast.If) and isinstance(s_.test, ast.Compare) and len(s_.test.ops) == 1 \
                and {norm(s_.test.left), norm(s_.test.comparators[0])} == {tvar, bname}:
            if isinstance(s_.test.ops[0], ast.NotEq) and flow._terminates(s_.body):
                ok2 = True
            if isinstance(s_.test.ops[0], ast.Eq) and s_.orelse and flow._terminates(s_.orelse):
                ok2 = True
            break
        if any(isinstance(n, ast.Name) and n.id == tvar for n in ast.walk(s_)):
            break           # the token is used before it was compared
    res.oblige("PAIR", f"parse_end_aggregation: the block name read after '=' is compared with `{bname}` and a mismatch ends the path", ok=ok2)
    if not ok2:
        res.add(Finding("PAIR", "PVLParser.parse_end_aggregation", "block-name test",
                        f"after reading the block name that follows '=', parse_end_aggregation does not compare it with `{bname}` "
                        "(or a mismatch falls through): `END_GROUP = other` closes the block", where=f"pvl/parser.py:{rd.lineno}"))
    # the table row consulted is the begin keyword's: the subscript of aggregation_keywords derives from the begin parameter
    t, env = flow.taint_before(raw, None, lambda e: isinstance(e, ast.Name) and e.id == begin)
    subs = [n for n in ast.walk(raw) if isinstance(n, ast.Subscript) and "aggregation_keywords" in norm(n.value)]
    res.oblige("PAIR", "parse_end_aggregation looks the expected end keyword up in grammar.aggregation_keywords", ok=bool(subs))
    if not subs:
        res.add(Finding("PAIR", "PVLParser.parse_end_aggregation", "table row",
                        "parse_end_aggregation no longer looks the expected end keyword up in grammar.aggregation_keywords",
                        where=f"pvl/parser.py:{raw.lineno}"))
    # names bound inside a loop under a test that mentions the begin parameter are derived from it
    derived = set(env)
    for n in ast.walk(raw):
        if isinstance(n, ast.If) and any(isinstance(x, ast.Name) and x.id == begin for x in ast.walk(n.test)):
            for b in n.body:
                if isinstance(b, ast.Assign):
                    derived |= {x.id for tg in b.targets for x in ast.walk(tg) if isinstance(x, ast.Name)}
    for sub in subs:
        ok = any(isinstance(x, ast.Name) and (x.id in derived or x.id == begin) for x in ast.walk(sub.slice))
        res.oblige("PAIR", f"`{norm(sub, 60)}`: the row looked up is the begin keyword's", ok=ok)
        if not ok:
            res.add(Finding("PAIR", "PVLParser.parse_end_aggregation", "table row",
                            f"`{norm(sub, 60)}` does not look up the row of the begin keyword `{begin}`", where=f"pvl/parser.py:{sub.lineno}"))
