"""Consistency rules on the resolved grammar tables (TB1, TB2, TB4, TB5, TB6) and the CLI tables (TB9)."""
import ast
import datetime

from .core import Finding, AnalysisError, norm
from . import tables


def rule_tb1(repo, res):
    for c in tables.grammar_classes(repo):
        probs = tables.tb1(repo, c)
        res.oblige("TB1", f"{c}: aggregation_keywords == group_keywords ∪ object_keywords; reserved_keywords ⊇ end statements and aggregation keywords", ok=not probs)
        for (table, missing, extra) in probs:
            res.add(Finding("TB1", f"grammar.{c}", table,
                            f"{c}.{table} disagrees with the tables it is derived from (missing {missing}, extra {extra}): "
                            "the token predicates accept a keyword that the parser cannot map to a container class (the "
                            "statement is dropped), or a keyword is not reserved (it is accepted as a parameter name or "
                            "written unquoted)"))


def parser_literals(repo):
    """String literals the parser compares a token with (t == "=", t == ",")."""
    out = {}
    pm = repo.module("parser")
    for fn in [x for x in ast.walk(pm.tree) if isinstance(x, ast.FunctionDef)]:
        for n in ast.walk(fn):
            if isinstance(n, ast.Compare) and len(n.ops) == 1 and isinstance(n.ops[0], (ast.Eq, ast.NotEq)):
                for side in (n.left, n.comparators[0]):
                    if isinstance(side, ast.Constant) and isinstance(side.value, str) and len(side.value) == 1:
                        out.setdefault(side.value, fn.name)
            if isinstance(n, ast.Call) and norm(n.func).endswith("parse_WSC_until") and n.args and \
                    isinstance(n.args[0], ast.Constant) and isinstance(n.args[0].value, str):
                out.setdefault(n.args[0].value, fn.name)
    return out


def rule_tb2_tb4(repo, res):
    lits = parser_literals(repo)
    if "=" not in lits or "," not in lits:
        raise AnalysisError("the parser no longer compares tokens with '=' and ',' literals; rule TB2 needs them")
    for c in tables.grammar_classes(repo):
        g = tables.grammar_instance(repo, c)
        rc = set(g.reserved_characters)
        need = dict(lits)
        for name in ("set_delimiters", "sequence_delimiters"):
            for ch in getattr(g, name):
                need[ch] = name
        for ch in g.delimiters:
            need[ch] = "delimiters"
        for ch, why in sorted(need.items()):
            ok = ch in rc
            res.oblige("TB2", f"{c}: {ch!r} ({why}) is a reserved character, so the lexer isolates it", ok=ok)
            if not ok:
                res.add(Finding("TB2", f"grammar.{c}", f"reserved_characters lacks {ch!r}",
                                f"{ch!r} ({why}) is compared with whole tokens by the parser but is not in "
                                f"{c}.reserved_characters: the lexer glues it to its neighbours and the statement is "
                                "mis-parsed unless white space surrounds it"))
        # TB4: quotes and units delimiters are reserved; numeric start chars are single characters
        for ch in list(g.quotes) + list(g.units_delimiters):
            ok = ch in rc
            res.oblige("TB4", f"{c}: {ch!r} (quote / units delimiter) is reserved", ok=ok)
            if not ok:
                res.add(Finding("TB4", f"grammar.{c}", f"reserved_characters lacks {ch!r}",
                                f"{ch!r} starts a quoted string or units expression but is not reserved in {c}: "
                                "`a=\"x\"` is lexed as one lexeme"))
        ok = all(len(x) == 1 for x in g.numeric_start_chars) and set(g.numeric_start_chars) == {"+", "-"}
        res.oblige("TB4", f"{c}: numeric_start_chars are the signs + and -", ok=ok)
        if not ok:
            res.add(Finding("TB4", f"grammar.{c}", "numeric_start_chars", f"{c}.numeric_start_chars is {g.numeric_start_chars!r}"))
        ws = set(g.whitespace)
        ok = ws == set(g.spacing_characters) | set(g.format_effectors) and not (ws & rc)
        res.oblige("TB4", f"{c}: whitespace == spacing_characters ∪ format_effectors, disjoint from reserved characters", ok=ok)
        if not ok:
            res.add(Finding("TB4", f"grammar.{c}", "whitespace", f"{c}.whitespace is inconsistent with its parts or overlaps reserved characters"))


def rule_tb5(repo, res):
    """Preferred keywords are (casefold) members of the keyword dicts with the matching end keyword."""
    for c in tables.grammar_classes(repo):
        g = tables.grammar_instance(repo, c)
        for pref, table in (("group_pref_keywords", "group_keywords"), ("object_pref_keywords", "object_keywords")):
            p = getattr(g, pref)
            t = {k.casefold(): v.casefold() for k, v in getattr(g, table).items()}
            ok = len(p) == 2 and t.get(p[0].casefold()) == p[1].casefold()
            res.oblige("TB5", f"{c}.{pref} {p!r} is a begin/end pair of {table}", ok=ok)
            if not ok:
                res.add(Finding("TB5", f"grammar.{c}", pref,
                                f"{c}.{pref} = {p!r} is not a begin/end pair of {c}.{table}: the encoder writes block "
                                "keywords that the same dialect's parser does not pair"))
        # group and object keywords are disjoint (a begin keyword selects exactly one container class)
        both = {k.casefold() for k in g.group_keywords} & {k.casefold() for k in g.object_keywords}
        res.oblige("TB5", f"{c}: group and object begin keywords are disjoint", ok=not both)
        if both:
            res.add(Finding("TB5", f"grammar.{c}", "group/object overlap", f"{sorted(both)} are both group and object keywords"))
        ok = all(e.casefold() == "end" for e in g.end_statements) and len(g.end_statements) >= 1
        res.oblige("TB5", f"{c}.end_statements is ('END',)", ok=ok)
        if not ok:
            res.add(Finding("TB5", f"grammar.{c}", "end_statements", f"{c}.end_statements = {g.end_statements!r}"))
        ok = (g.none_keyword.casefold(), g.true_keyword.casefold(), g.false_keyword.casefold()) == ("null", "true", "false")
        res.oblige("TB5", f"{c}: NULL / TRUE / FALSE keywords", ok=ok)
        if not ok:
            res.add(Finding("TB5", f"grammar.{c}", "none/true/false keywords",
                            f"{c} keywords are {g.none_keyword!r}, {g.true_keyword!r}, {g.false_keyword!r}"))


EXPECTED_TZ = {"PVLGrammar": "UTC", "ISISGrammar": "UTC", "PDSGrammar": "UTC", "OmniGrammar": "UTC", "ODLGrammar": None}
LEAP = {"PVLGrammar": True, "ISISGrammar": True, "OmniGrammar": True, "ODLGrammar": False, "PDSGrammar": False}


def rule_tb6(repo, res):
    """Default zone per grammar, leap-second regexes exactly in the PVL family, format tables."""
    for c in tables.grammar_classes(repo):
        g = tables.grammar_instance(repo, c)
        if c in EXPECTED_TZ:
            tz = g.default_timezone
            got = None if tz is None else ("UTC" if tz == datetime.timezone.utc else repr(tz))
            ok = got == EXPECTED_TZ[c]
            res.oblige("TB6", f"{c}.default_timezone is {EXPECTED_TZ[c]}", ok=ok)
            if not ok:
                res.add(Finding("TB6", f"grammar.{c}", "default_timezone",
                                f"{c}.default_timezone is {got} but an unmarked time is "
                                f"{'UTC' if EXPECTED_TZ[c] else 'naive (no zone)'} in this dialect"))
        if c in LEAP:
            has = g.leap_second_Ymd_re is not None and g.leap_second_Yj_re is not None
            none = g.leap_second_Ymd_re is None and g.leap_second_Yj_re is None
            ok = has if LEAP[c] else none
            res.oblige("TB6", f"{c}: leap-second patterns {'present' if LEAP[c] else 'absent'}", ok=ok)
            if not ok:
                res.add(Finding("TB6", f"grammar.{c}", "leap_second regexes",
                                f"{c} {'lacks' if LEAP[c] else 'has'} leap-second patterns: a seconds value of 60 is "
                                f"{'rejected although PVL keeps it as text' if LEAP[c] else 'accepted although ODL/PDS3 reject it'}"))
        dfs = set(g.datetime_formats)
        want = set()
        for d in g._d_formats:
            for t in g._t_formats:
                want.add(f"{d}T{t}")
                want.add(f"{d}T{t}Z")
        ok = dfs == want and set(g.date_formats) == set(g._d_formats) | {x + "Z" for x in g._d_formats} \
            and set(g.time_formats) == set(g._t_formats) | {x + "Z" for x in g._t_formats}
        res.oblige("TB6", f"{c}: date/time/datetime format tables == {{d}}, {{t}}, {{d}}T{{t}} each with optional Z", ok=ok)
        if not ok:
            res.add(Finding("TB6", f"grammar.{c}", "format tables", f"{c} date/time format tables are not the product of "
                            "_d_formats and _t_formats with an optional trailing Z"))
        okd = tuple(g._d_formats) == ("%Y-%m-%d", "%Y-%j") and tuple(g._t_formats) == ("%H:%M", "%H:%M:%S", "%H:%M:%S.%f")
        res.oblige("TB6", f"{c}: calendar and day-of-year dates; times to minutes, seconds, fraction", ok=okd)
        if not okd:
            res.add(Finding("TB6", f"grammar.{c}", "_d_formats/_t_formats", f"{c}._d_formats={g._d_formats!r} _t_formats={g._t_formats!r}"))


def rule_tb_char(repo, res):
    """TB-CHAR: the tables the lexer and the token predicates consult one character at a time hold single characters:
    every entry of whitespace, spacing_characters, format_effectors, reserved_characters, quotes, the set / sequence /
    units delimiters, statement delimiters and numeric_start_chars of every grammar class has length one (two adjacent
    string literals without a comma between them merge into one two-character entry that no character ever equals), and
    the format effectors are the four of the specification."""
    n = 0
    for c in tables.grammar_classes(repo):
        g = tables.grammar_instance(repo, c)
        for name in ("whitespace", "spacing_characters", "format_effectors", "reserved_characters", "quotes", "set_delimiters",
                     "sequence_delimiters", "units_delimiters", "delimiters", "numeric_start_chars"):
            if not hasattr(g, name):
                raise AnalysisError(f"anchor vanished: {c}.{name}")
            t = getattr(g, name)
            bad = [x for x in t if not (isinstance(x, str) and len(x) == 1)]
            n += 1
            res.oblige("TB-CHAR", f"{c}.{name}: every entry is one character", ok=not bad)
            if bad:
                res.add(Finding("TB-CHAR", f"grammar.{c}", f"{name} holds {bad!r}",
                                f"{c}.{name} has the entr{'ies' if len(bad) > 1 else 'y'} {bad!r}: the lexer and the token predicates test one "
                                f"character at a time for membership in this table, so the character(s) {sorted(set(''.join(map(str, bad))))!r} "
                                "are no longer members of it (as white space they glue two tokens together)", witness=str(bad[0])))
        fe = set(g.format_effectors)
        ok = fe == {"\n", "\r", "\v", "\f"}
        res.oblige("TB-CHAR", f"{c}.format_effectors are LF, CR, VT, FF", ok=ok)
        if not ok and all(len(x) == 1 for x in g.format_effectors):
            res.add(Finding("TB-CHAR", f"grammar.{c}", "format_effectors", f"{c}.format_effectors is {sorted(fe)!r}, not LF, CR, VT, FF"))
    res.floor("single-character tables", n, 40)


def rule_none_guard(repo, res):
    """NONE-GUARD: a grammar attribute that some grammar class sets to None ("this dialect has no such pattern":
    the leap-second regexes of ODL) is tested for None in every function that calls a method on it
    (`grammar.X.fullmatch(..)`).  The decoders are combined freely with grammars -- a Token built without a decoder gets
    a plain PVLDecoder on whatever grammar the lexer runs with -- so an unguarded use raises AttributeError on None, an
    exception outside the documented LexerError / ParseError, from the middle of the lexer."""
    none_names = {}
    for c in tables.grammar_classes(repo):
        for name, val in repo.classes[c].aliases.items():
            if isinstance(val, ast.Constant) and val.value is None:
                none_names.setdefault(name, c)
    n = 0
    for mname in ("decoder", "token", "lexer", "parser", "encoder"):
        if mname not in repo.modules:
            continue
        mod = repo.module(mname)
        fns = [(f"{mname}.{k}", v) for k, v in mod.functions.items()]
        for cname in mod.classes:
            if cname in repo.classes:
                fns += [(f"{cname}.{k}", v) for k, v in repo.classes[cname].methods.items()]
        for label, fn in fns:
            for call in [x for x in ast.walk(fn) if isinstance(x, ast.Call) and isinstance(x.func, ast.Attribute)
                         and isinstance(x.func.value, ast.Attribute) and x.func.value.attr in none_names
                         and "grammar" in norm(x.func.value.value) or
                         (isinstance(x, ast.Call) and isinstance(x.func, ast.Attribute) and isinstance(x.func.value, ast.Attribute)
                          and x.func.value.attr in none_names and norm(x.func.value.value) in ("g", "self.grammar", "grammar"))]:
                name = call.func.value.attr
                n += 1
                guarded = any(isinstance(c_, ast.Compare) and any(isinstance(o, (ast.Is, ast.IsNot)) for o in c_.ops)
                              and any(isinstance(y, ast.Attribute) and y.attr == name for y in ast.walk(c_))
                              and any(isinstance(y, ast.Constant) and y.value is None for y in ast.walk(c_)) for c_ in ast.walk(fn)) \
                    or any(isinstance(t, ast.Try) and any(h.type is None or "AttributeError" in norm(h.type) for h in t.handlers)
                           and any(y is call for b in t.body for y in ast.walk(b)) for t in ast.walk(fn))
                res.oblige("NONE-GUARD", f"{label}: `{norm(call, 50)}` -- {name} is None in {none_names[name]}: tested for None in this function", ok=guarded)
                if not guarded:
                    res.add(Finding("NONE-GUARD", label, f"`{norm(call.func, 50)}` without a None test",
                                    f"{label} calls `{norm(call, 60)}` although {none_names[name]} sets `{name}` to None and nothing in the function "
                                    "tests it: with that grammar the call raises AttributeError ('NoneType' object has no attribute ...), "
                                    "which is neither LexerError nor ParseError and escapes the loader", where=f"pvl/{mname}.py:{call.lineno}"))
    res.oblige("NONE-GUARD", f"{len(none_names)} grammar attribute(s) that a dialect sets to None; {n} method calls on them examined", ok=True, nontrivial=False)
    res.floor("grammar attributes set to None by some dialect", len(none_names), 1)


def rule_getattr_name(repo, res):
    """GETATTR-NAME: a grammar attribute looked up by a string -- `getattr(self.grammar, "leap_second_Yj_re", None)`, also
    through a loop over a tuple of names -- names an attribute that some grammar class defines.  With a default, a
    misspelt name is not an error: the look-up quietly yields the default for every grammar, and the branch that depends
    on the table (the day-of-year leap-second pattern) is dead."""
    defined = set()
    for c in tables.grammar_classes(repo):
        defined |= set(repo.classes[c].aliases)
        for m in repo.classes[c].methods.values():
            for a in ast.walk(m):
                if isinstance(a, ast.Assign):
                    for t in a.targets:
                        if isinstance(t, ast.Attribute) and isinstance(t.value, ast.Name) and t.value.id == "self":
                            defined.add(t.attr)
        defined |= set(repo.classes[c].methods)
    n = 0
    for mname in ("decoder", "token", "lexer", "parser", "encoder"):
        if mname not in repo.modules:
            continue
        mod = repo.module(mname)
        fns = [(f"{mname}.{k}", v) for k, v in mod.functions.items()]
        for cname in mod.classes:
            if cname in repo.classes:
                fns += [(f"{cname}.{k}", v) for k, v in repo.classes[cname].methods.items()]
        for label, fn in fns:
            for call in [x for x in ast.walk(fn) if isinstance(x, ast.Call) and norm(x.func) == "getattr" and len(x.args) >= 2]:
                if norm(call.args[0]) not in ("self.grammar", "g", "grammar", "self.decoder.grammar"):
                    continue
                names = []
                a = call.args[1]
                if isinstance(a, ast.Constant) and isinstance(a.value, str):
                    names = [a.value]
                elif isinstance(a, ast.Name):
                    # a loop variable over a literal tuple / list of names
                    for lp in ast.walk(fn):
                        if isinstance(lp, (ast.For, ast.comprehension)) and isinstance(lp.target, ast.Name) and lp.target.id == a.id \
                                and isinstance(lp.iter, (ast.Tuple, ast.List)) and all(isinstance(e, ast.Constant) and isinstance(e.value, str) for e in lp.iter.elts):
                            names = [e.value for e in lp.iter.elts]
                for nm in names:
                    n += 1
                    ok = nm in defined
                    res.oblige("GETATTR-NAME", f"{label}: getattr(<grammar>, {nm!r}, ...) names an attribute a grammar class defines", ok=ok)
                    if not ok:
                        res.add(Finding("GETATTR-NAME", label, f"getattr(<grammar>, {nm!r})",
                                        f"{label} looks up `{nm}` on the grammar by name, but no grammar class defines an attribute of that "
                                        "name: with a default the look-up never fails, it just never finds the table -- the code that "
                                        "depends on it never runs", where=f"pvl/{mname}.py:{call.lineno}"))
    res.oblige("GETATTR-NAME", f"{n} by-name look-ups of grammar attributes examined", ok=True, nontrivial=False)


def rule_time_frags(repo, res):
    """TB-FRAG: the hour / minute / second fragments from which the grammars build their leap-second and zone-offset
    patterns match exactly two digits.  The offset pattern is `<hour: one or two digits><optional minute fragment>`: a
    minute fragment that also takes a single digit makes `+10` read as +01:00 plus minute 0 -- the same text, another
    instant."""
    from . import strlang as SL
    two = SL.length_eq(2)          # two characters (\\d also takes non-ASCII digits: not this rule's business)
    n = 0
    for c in tables.grammar_classes(repo):
        g = tables.grammar_instance(repo, c)
        for name in ("_H_frag", "_M_frag", "_S_frag"):
            frag = getattr(g, name, None)
            if not isinstance(frag, str):
                continue
            n += 1
            try:
                L = SL.rx(frag)
            except Exception as x:
                raise AnalysisError(f"TB-FRAG: {c}.{name} = {frag!r} cannot be read as a regular language: {x}")
            bad = (L - two).witnesses(3)
            res.oblige("TB-FRAG", f"{c}.{name} matches fields of exactly two characters", ok=not bad)
            if bad:
                res.add(Finding("TB-FRAG", f"grammar.{c}", f"{name} also matches {bad}",
                                f"{c}.{name} = {frag!r} also matches {bad}: in the zone-offset pattern of the ODL family the hour takes one "
                                "digit and this fragment the next, so `+10` is read as +01:00 (and a time written with offset +10 comes "
                                "back as another instant)", witness=bad[0]))
    res.floor("time fragments of the grammars", n, 3)
