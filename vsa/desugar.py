"""Desugaring of newer syntax into the statement kinds the engines interpret.

Applied once to every module when the Repo parses it, so that every rule sees the same program whether the
source says it the old or the new way.  Only rewrites that are exactly behaviour-preserving are done; anything
else is left as written (and an engine that meets it reports unknown syntax -- exit 2, never a silent pass).

* ``match subject: case ...`` over class patterns without arguments (``case datetime.date():``), value patterns
  (``case Preserve.COMMENT:``, constants), or-patterns of those, the wildcard and a bare capture as last case,
  with optional guards, becomes the if/elif/else chain it abbreviates (``isinstance`` / ``==``, same order).  The
  subject is evaluated once: a subject that is not a plain name/attribute/subscript-of-constant is bound to a
  fresh local first.
* a conditional expression that is the whole value of an assignment, augmented assignment or return becomes the
  if/else statement it abbreviates (same order of evaluation: test, then one arm).
* ``with suppress(A, B): body`` becomes ``try: body`` / ``except (A, B): pass``.
* an assignment expression that is evaluated unconditionally and first in the test of an ``if`` (or in an
  expression / assignment / return statement) is hoisted: ``if (m := f(x)) is not None:`` becomes ``m = f(x)``
  followed by ``if m is not None:``.  In an ``elif`` the chain is re-nested (``else: m = ...; if ...``).  Walrus
  expressions inside ``and``/``or`` right operands, comprehensions, lambdas, ``while`` tests and conditional
  expressions are left alone.
"""
import ast

_counter = [0]


def _fresh(prefix):
    _counter[0] += 1
    return f"_{prefix}{_counter[0]}"


# ------------------------------------------------------------------ match
def _simple_subject(e):
    if isinstance(e, ast.Name):
        return True
    if isinstance(e, ast.Attribute):
        return _simple_subject(e.value)
    if isinstance(e, ast.Subscript) and isinstance(e.slice, ast.Constant):
        return _simple_subject(e.value)
    return False


def _pattern_test(p, subj):
    """-> (test expr or None for 'always', [binding stmts]) or raise ValueError when not expressible"""
    L = lambda: ast.copy_location(_copy(subj), subj)
    if isinstance(p, ast.MatchValue):
        return ast.Compare(left=L(), ops=[ast.Eq()], comparators=[p.value]), []
    if isinstance(p, ast.MatchSingleton):
        return ast.Compare(left=L(), ops=[ast.Is()], comparators=[ast.Constant(value=p.value)]), []
    if isinstance(p, ast.MatchClass) and not p.patterns and not p.kwd_patterns:
        return ast.Call(func=ast.Name(id="isinstance", ctx=ast.Load()), args=[L(), p.cls], keywords=[]), []
    if isinstance(p, ast.MatchOr):
        tests = []
        for q in p.patterns:
            t, b = _pattern_test(q, subj)
            if t is None or b:
                raise ValueError("or-pattern with capture")
            tests.append(t)
        return ast.BoolOp(op=ast.Or(), values=tests), []
    if isinstance(p, ast.MatchAs):
        if p.pattern is None:
            if p.name is None:
                return None, []                                   # case _
            return None, [ast.Assign(targets=[ast.Name(id=p.name, ctx=ast.Store())], value=L(), lineno=0)]
        t, b = _pattern_test(p.pattern, subj)
        if p.name is not None:
            b = b + [ast.Assign(targets=[ast.Name(id=p.name, ctx=ast.Store())], value=L(), lineno=0)]
        return t, b
    raise ValueError(type(p).__name__)


def _copy(node):
    from .inline import clone
    return clone(node)


def _match_to_if(m):
    pre = []
    subj = m.subject
    if not _simple_subject(subj):
        name = _fresh("subject")
        pre.append(ast.copy_location(ast.Assign(targets=[ast.Name(id=name, ctx=ast.Store())], value=subj), m))
        subj = ast.copy_location(ast.Name(id=name, ctx=ast.Load()), m.subject)
    arms = []
    for i, case in enumerate(m.cases):
        test, binds = _pattern_test(case.pattern, subj)
        if binds and test is not None:
            raise ValueError("capture in a conditional pattern")       # binding must happen only if matched; keep it simple
        if case.guard is not None:
            if binds:
                raise ValueError("guard on a capture pattern")
            test = case.guard if test is None else ast.BoolOp(op=ast.And(), values=[test, case.guard])
        if test is None and i != len(m.cases) - 1:
            raise ValueError("irrefutable case before the last")
        arms.append((test, binds + list(case.body), case))
    node = None
    for test, body, case in reversed(arms):
        for b in body:
            if getattr(b, "lineno", 0) == 0:
                ast.copy_location(b, case.pattern)
        if test is None:
            node = body
        else:
            n = ast.If(test=test, body=body, orelse=(node if isinstance(node, list) else ([node] if node is not None else [])))
            ast.copy_location(n, case.pattern)
            node = n
    out = pre + (node if isinstance(node, list) else [node])
    return out


# ------------------------------------------------------------------ walrus
def _leading_walrus(e):
    """NamedExpr nodes of expression e that are evaluated unconditionally (and whose hoisting in front of the
    statement keeps the order of evaluation with respect to everything before them in e that could matter):
    the leftmost-evaluated position only."""
    # walk the "first evaluated" spine
    cur = e
    path = []
    while True:
        if isinstance(cur, ast.NamedExpr):
            return cur
        if isinstance(cur, ast.Compare):
            cur = cur.left
        elif isinstance(cur, ast.BoolOp):
            cur = cur.values[0]
        elif isinstance(cur, ast.UnaryOp):
            cur = cur.operand
        elif isinstance(cur, ast.BinOp):
            cur = cur.left
        elif isinstance(cur, ast.Call):
            # f(...) evaluates f first; only hoist through attribute calls on the walrus: (m := x).group()
            cur = cur.func
        elif isinstance(cur, ast.Attribute):
            cur = cur.value
        elif isinstance(cur, ast.Subscript):
            cur = cur.value
        else:
            return None


def _replace(e, old, new):
    class R(ast.NodeTransformer):
        def visit(self, n):
            if n is old:
                return new
            return super().visit(n)
    return R().visit(e)


def _hoist(expr, at):
    """-> (list of hoisted assignments, rewritten expr)"""
    pre = []
    for _ in range(4):
        w = _leading_walrus(expr)
        if w is None or not isinstance(w.target, ast.Name):
            break
        a = ast.copy_location(ast.Assign(targets=[ast.Name(id=w.target.id, ctx=ast.Store())], value=w.value), at)
        pre.append(a)
        nm = ast.copy_location(ast.Name(id=w.target.id, ctx=ast.Load()), w)
        if expr is w:
            expr = nm
        else:
            expr = _replace(expr, w, nm)
    return pre, expr


class Desugar(ast.NodeTransformer):
    def __init__(self):
        self.notes = []

    def _block(self, stmts):
        out = []
        for s in stmts:
            r = self.visit(s)
            if isinstance(r, list):
                out.extend(r)
            elif r is not None:
                out.append(r)
        return out

    def generic_visit(self, node):
        for f in ("body", "orelse", "finalbody"):
            v = getattr(node, f, None)
            if isinstance(v, list) and v and isinstance(v[0], ast.stmt):
                setattr(node, f, self._block(v))
        if isinstance(node, ast.Try):
            for h in node.handlers:
                h.body = self._block(h.body)
        if hasattr(ast, "Match") and isinstance(node, ast.Match):
            for c in node.cases:
                c.body = self._block(c.body)
        return node

    def visit_Match(self, node):
        self.generic_visit(node)
        try:
            out = _match_to_if(node)
            self.notes.append(f"match at line {node.lineno} -> if/elif")
            return out
        except ValueError:
            return node

    def visit_If(self, node):
        # elif with a walrus: re-nest so that the hoisted assignment runs only when the earlier tests failed
        if len(node.orelse) == 1 and isinstance(node.orelse[0], ast.If) and _leading_walrus(node.orelse[0].test) is not None:
            pass        # handled when the nested If is visited: its hoisted statements stay inside this orelse list
        self.generic_visit(node)
        pre, test = _hoist(node.test, node)
        if pre:
            node.test = test
            self.notes.append(f"walrus at line {node.lineno} hoisted")
            return pre + [node]
        return node

    def _simple(self, node, field):
        v = getattr(node, field, None)
        if v is None:
            return node
        pre, new = _hoist(v, node)
        if pre:
            setattr(node, field, new)
            self.notes.append(f"walrus at line {node.lineno} hoisted")
            return pre + [node]
        return node

    def visit_Expr(self, node):
        return self._simple(node, "value")

    def _ifexp(self, node):
        """`x = A if C else B` / `return A if C else B` / `x += A if C else B`  ->  the if/else statement it abbreviates"""
        v = node.value
        if not isinstance(v, ast.IfExp):
            return None
        if isinstance(node, ast.Assign) and not all(isinstance(t, ast.Name) or
                                                    (isinstance(t, ast.Attribute) and isinstance(t.value, ast.Name)) for t in node.targets):
            return None          # a target with its own sub-expressions would be evaluated after the value: keep as written
        if isinstance(node, ast.AugAssign) and not isinstance(node.target, ast.Name):
            return None
        def arm(val):
            n = _copy(node)
            n.value = val
            return ast.copy_location(n, node)
        new = ast.If(test=v.test, body=[arm(v.body)], orelse=[arm(v.orelse)])
        ast.copy_location(new, node)
        self.notes.append(f"conditional expression at line {node.lineno} -> if/else")
        return self.visit(new)

    def visit_Return(self, node):
        r = self._ifexp(node) if node.value is not None else None
        return r if r is not None else self._simple(node, "value")

    def visit_Assign(self, node):
        r = self._ifexp(node)
        return r if r is not None else self._simple(node, "value")

    def visit_AugAssign(self, node):
        r = self._ifexp(node)
        return r if r is not None else node

    def visit_FunctionDef(self, node):
        return self.generic_visit(node)

    visit_AsyncFunctionDef = visit_FunctionDef

    def visit_ClassDef(self, node):
        return self.generic_visit(node)

    def visit_Module(self, node):
        return self.generic_visit(node)

    def visit_For(self, node):
        return self.generic_visit(node)

    visit_While = visit_Try = visit_For

    def visit_With(self, node):
        self.generic_visit(node)
        # with [contextlib.]suppress(A, B): body   ==   try: body / except (A, B): pass
        if len(node.items) == 1 and node.items[0].optional_vars is None:
            ce = node.items[0].context_expr
            if isinstance(ce, ast.Call) and ast.unparse(ce.func) in ("suppress", "contextlib.suppress") and ce.args and not ce.keywords \
                    and not any(isinstance(a, ast.Starred) for a in ce.args):
                typ = ce.args[0] if len(ce.args) == 1 else ast.Tuple(elts=list(ce.args), ctx=ast.Load())
                h = ast.ExceptHandler(type=typ, name=None, body=[ast.copy_location(ast.Pass(), node)])
                t = ast.Try(body=node.body, handlers=[ast.copy_location(h, node)], orelse=[], finalbody=[])
                self.notes.append(f"with suppress(...) at line {node.lineno} -> try/except: pass")
                return ast.copy_location(t, node)
        return node

    visit_AsyncWith = visit_For


def desugar(tree):
    d = Desugar()
    new = d.visit(tree)
    if d.notes:
        ast.fix_missing_locations(new)
    return new, d.notes
