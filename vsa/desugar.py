"""Desugaring of newer syntax into the statement kinds the engines interpret.

Applied once to every module when the Repo parses it, so that every rule sees the same program whether the
source says it the old or the new way.  Only rewrites that are exactly behaviour-preserving are done; anything
else is left as written (and an engine that meets it reports unknown syntax -- exit 2, never a silent pass).

* ``match subject: case ...`` over class patterns without arguments (``case datetime.date():``), value patterns
  (``case Preserve.COMMENT:``, constants), or-patterns of those, the wildcard and a bare capture as last case,
  with optional guards, becomes the if/elif/else chain it abbreviates (``isinstance`` / ``==``, same order).  The
  subject is evaluated once: a subject that is not a plain name/attribute/subscript-of-constant is bound to a
  fresh local first.
* a conditional expression that is the whole value of an assignment, augmented assignment or return becomes the
  if/else statement it abbreviates (same order of evaluation: test, then one arm).
* ``with suppress(A, B): body`` becomes ``try: body`` / ``except (A, B): pass``.
* ``getattr(x, "name")`` / ``setattr(x, "name", v)`` (statement) with a constant name are the attribute access /
  assignment they abbreviate; ``(lambda: E)()`` is ``E``.
* a ``for`` loop over a *literal table* -- a tuple/list display, or a module-level name bound once to one -- whose rows
  are displays of constants, names, attributes or zero-argument lambdas, is unrolled: one copy of the body per row
  with the loop variables replaced by the row's elements (then the rewrites above apply: ``getattr(self, attr)``
  becomes ``self.grpcls``).  Only when that is exactly the same program: no ``break``, ``continue`` only in the
  guard-clause form ``if c: ...; continue`` (rewritten to if/else), loop variables not rebound in the body, not
  captured by a nested function and not used after the loop, at most 12 rows.
* an assignment expression that is evaluated unconditionally and first in the test of an ``if`` (or in an
  expression / assignment / return statement) is hoisted: ``if (m := f(x)) is not None:`` becomes ``m = f(x)``
  followed by ``if m is not None:``.  In an ``elif`` the chain is re-nested (``else: m = ...; if ...``).  Walrus
  expressions inside ``and``/``or`` right operands, comprehensions, lambdas, ``while`` tests and conditional
  expressions are left alone.
"""
import ast

_counter = [0]


def _fresh(prefix):
    _counter[0] += 1
    return f"_{prefix}{_counter[0]}"


# ------------------------------------------------------------------ match
def _simple_subject(e):
    if isinstance(e, ast.Name):
        return True
    if isinstance(e, ast.Attribute):
        return _simple_subject(e.value)
    if isinstance(e, ast.Subscript) and isinstance(e.slice, ast.Constant):
        return _simple_subject(e.value)
    return False


def _pattern_test(p, subj):
    """-> (test expr or None for 'always', [binding stmts]) or raise ValueError when not expressible"""
    L = lambda: ast.copy_location(_copy(subj), subj)
    if isinstance(p, ast.MatchValue):
        return ast.Compare(left=L(), ops=[ast.Eq()], comparators=[p.value]), []
    if isinstance(p, ast.MatchSingleton):
        return ast.Compare(left=L(), ops=[ast.Is()], comparators=[ast.Constant(value=p.value)]), []
    if isinstance(p, ast.MatchClass) and not p.patterns and not p.kwd_patterns:
        return ast.Call(func=ast.Name(id="isinstance", ctx=ast.Load()), args=[L(), p.cls], keywords=[]), []
    if isinstance(p, ast.MatchOr) and all(isinstance(q, ast.MatchClass) and not q.patterns and not q.kwd_patterns for q in p.patterns):
        # case A() | B():  ==  isinstance(subject, (A, B))
        tup = ast.Tuple(elts=[q.cls for q in p.patterns], ctx=ast.Load())
        return ast.Call(func=ast.Name(id="isinstance", ctx=ast.Load()), args=[L(), tup], keywords=[]), []
    if isinstance(p, ast.MatchOr):
        tests = []
        for q in p.patterns:
            t, b = _pattern_test(q, subj)
            if t is None or b:
                raise ValueError("or-pattern with capture")
            tests.append(t)
        return ast.BoolOp(op=ast.Or(), values=tests), []
    if isinstance(p, ast.MatchAs):
        if p.pattern is None:
            if p.name is None:
                return None, []                                   # case _
            return None, [ast.Assign(targets=[ast.Name(id=p.name, ctx=ast.Store())], value=L(), lineno=0)]
        t, b = _pattern_test(p.pattern, subj)
        if p.name is not None:
            b = b + [ast.Assign(targets=[ast.Name(id=p.name, ctx=ast.Store())], value=L(), lineno=0)]
        return t, b
    raise ValueError(type(p).__name__)


def _copy(node):
    from .inline import clone
    return clone(node)


def _match_to_if(m):
    pre = []
    subj = m.subject
    if not _simple_subject(subj):
        name = _fresh("subject")
        pre.append(ast.copy_location(ast.Assign(targets=[ast.Name(id=name, ctx=ast.Store())], value=subj), m))
        subj = ast.copy_location(ast.Name(id=name, ctx=ast.Load()), m.subject)
    arms = []
    for i, case in enumerate(m.cases):
        test, binds = _pattern_test(case.pattern, subj)
        if binds and test is not None:
            raise ValueError("capture in a conditional pattern")       # binding must happen only if matched; keep it simple
        if case.guard is not None:
            if binds:
                raise ValueError("guard on a capture pattern")
            test = case.guard if test is None else ast.BoolOp(op=ast.And(), values=[test, case.guard])
        if test is None and i != len(m.cases) - 1:
            raise ValueError("irrefutable case before the last")
        arms.append((test, binds + list(case.body), case))
    node = None
    for test, body, case in reversed(arms):
        for b in body:
            if getattr(b, "lineno", 0) == 0:
                ast.copy_location(b, case.pattern)
        if test is None:
            node = body
        else:
            n = ast.If(test=test, body=body, orelse=(node if isinstance(node, list) else ([node] if node is not None else [])))
            ast.copy_location(n, case.pattern)
            node = n
    out = pre + (node if isinstance(node, list) else [node])
    return out


# ------------------------------------------------------------------ walrus
def _leading_walrus(e):
    """NamedExpr nodes of expression e that are evaluated unconditionally (and whose hoisting in front of the
    statement keeps the order of evaluation with respect to everything before them in e that could matter):
    the leftmost-evaluated position only."""
    # walk the "first evaluated" spine
    cur = e
    path = []
    while True:
        if isinstance(cur, ast.NamedExpr):
            return cur
        if isinstance(cur, ast.Compare):
            cur = cur.left
        elif isinstance(cur, ast.BoolOp):
            cur = cur.values[0]
        elif isinstance(cur, ast.UnaryOp):
            cur = cur.operand
        elif isinstance(cur, ast.BinOp):
            cur = cur.left
        elif isinstance(cur, ast.Call):
            # f(...) evaluates f first; only hoist through attribute calls on the walrus: (m := x).group()
            cur = cur.func
        elif isinstance(cur, ast.Attribute):
            cur = cur.value
        elif isinstance(cur, ast.Subscript):
            cur = cur.value
        else:
            return None


def _replace(e, old, new):
    class R(ast.NodeTransformer):
        def visit(self, n):
            if n is old:
                return new
            return super().visit(n)
    return R().visit(e)


def _hoist(expr, at):
    """-> (list of hoisted assignments, rewritten expr)"""
    pre = []
    for _ in range(4):
        w = _leading_walrus(expr)
        if w is None or not isinstance(w.target, ast.Name):
            break
        a = ast.copy_location(ast.Assign(targets=[ast.Name(id=w.target.id, ctx=ast.Store())], value=w.value), at)
        pre.append(a)
        nm = ast.copy_location(ast.Name(id=w.target.id, ctx=ast.Load()), w)
        if expr is w:
            expr = nm
        else:
            expr = _replace(expr, w, nm)
    return pre, expr


# ------------------------------------------------------------------ table-driven loops
def _simple_cell(e):
    if isinstance(e, ast.Constant):
        return True
    if isinstance(e, ast.Name):
        return True
    if isinstance(e, ast.Attribute):
        return _simple_cell(e.value)
    if isinstance(e, ast.Lambda):
        a = e.args
        return not (a.args or a.posonlyargs or a.kwonlyargs or a.vararg or a.kwarg)
    if isinstance(e, (ast.Tuple, ast.List)):
        return all(_simple_cell(x) for x in e.elts)
    return False


def _elim_continue(body):
    """`if c: A; continue` + rest  ->  `if c: A` / `else: rest` (top level of a loop body); None when a continue or
    break of this loop remains somewhere else"""
    out = []
    for i, st in enumerate(body):
        if isinstance(st, ast.If) and st.body and isinstance(st.body[-1], ast.Continue) and not st.orelse:
            rest = _elim_continue(body[i + 1:])
            if rest is None:
                return None
            new = ast.If(test=st.test, body=(st.body[:-1] or [ast.copy_location(ast.Pass(), st)]), orelse=rest)
            out.append(ast.copy_location(new, st))
            break
        out.append(st)

    def leftover(n, top=True):
        if isinstance(n, (ast.Break, ast.Continue)):
            return True
        if isinstance(n, (ast.For, ast.While, ast.AsyncFor, ast.FunctionDef, ast.AsyncFunctionDef, ast.ClassDef, ast.Lambda)):
            return False
        return any(leftover(c, False) for c in ast.iter_child_nodes(n))
    if any(leftover(st) for st in out):
        return None
    return out


class _Cells(ast.NodeTransformer):
    def __init__(self, binding):
        self.binding = binding

    def visit_Name(self, n):
        if isinstance(n.ctx, ast.Load) and n.id in self.binding:
            return ast.copy_location(_copy(self.binding[n.id]), n)
        return n


def _unroll(loop, tables, outside_names):
    """-> list of statements or None"""
    if not isinstance(loop, ast.For) or isinstance(loop, ast.AsyncFor):
        return None
    it = loop.iter
    if isinstance(it, ast.Name) and it.id in tables:
        it = tables[it.id]
    if not isinstance(it, (ast.Tuple, ast.List)) or not it.elts or len(it.elts) > 12:
        return None
    if isinstance(loop.target, ast.Name):
        names = [loop.target.id]
        rows = [[r] for r in it.elts]
    elif isinstance(loop.target, (ast.Tuple, ast.List)) and all(isinstance(x, ast.Name) for x in loop.target.elts):
        names = [x.id for x in loop.target.elts]
        rows = []
        for r in it.elts:
            if not (isinstance(r, (ast.Tuple, ast.List)) and len(r.elts) == len(names)):
                return None
            rows.append(list(r.elts))
    else:
        return None
    if not all(_simple_cell(c) for r in rows for c in r):
        return None
    if any(n in outside_names for n in names):
        return None
    for st in loop.body:
        for n in ast.walk(st):
            if isinstance(n, ast.Name) and n.id in names and isinstance(n.ctx, (ast.Store, ast.Del)):
                return None
            if isinstance(n, (ast.Lambda, ast.FunctionDef, ast.AsyncFunctionDef, ast.GeneratorExp)) and any(
                    isinstance(x, ast.Name) and x.id in names for x in ast.walk(n)):
                if not isinstance(n, ast.GeneratorExp):
                    return None          # late binding of the loop variable in a closure
            if isinstance(n, (ast.Yield, ast.YieldFrom, ast.Await)):
                return None
    body = _elim_continue(list(loop.body))
    if body is None:
        return None
    # a name a row refers to must not be rebound by the body (the table is evaluated once, before the loop)
    stored = {n.id for st in loop.body for n in ast.walk(st) if isinstance(n, ast.Name) and isinstance(n.ctx, ast.Store)}
    if any(isinstance(x, ast.Name) and x.id in stored for r in rows for c in r for x in ast.walk(c)):
        return None
    # locals that every iteration binds afresh before reading them (first thing that happens to them in the body is
    # an unconditional top-level assignment) and that nothing outside the loop reads: one name per iteration
    fresh = []
    for nm in sorted(stored):
        if nm in outside_names:
            continue
        first = None
        for st in body:
            if any(isinstance(x, ast.Name) and x.id == nm for x in ast.walk(st)):
                first = st
                break
        if isinstance(first, ast.Assign) and len(first.targets) == 1 and isinstance(first.targets[0], ast.Name) and first.targets[0].id == nm \
                and not any(isinstance(x, ast.Name) and x.id == nm for x in ast.walk(first.value)):
            fresh.append(nm)

    class _Ren(ast.NodeTransformer):
        def __init__(self, k):
            self.k = k

        def visit_Name(self, n):
            if n.id in fresh:
                return ast.copy_location(ast.Name(id=f"{n.id}__{self.k}", ctx=n.ctx), n)
            return n
    out = []
    for k, r in enumerate(rows, 1):
        binding = dict(zip(names, r))
        for st in body:
            new = _Cells(binding).visit(_copy(st))
            if fresh and len(rows) > 1:
                new = _Ren(k).visit(new)
            out.append(new)
    out += list(loop.orelse)
    for st in out:
        ast.copy_location(st, loop) if not hasattr(st, "lineno") else None
    return out


def _module_tables(tree):
    """module-level NAME = <display> assigned exactly once (and never the target of an augmented assignment)"""
    count, val = {}, {}
    for n in ast.walk(tree):
        if isinstance(n, ast.Name) and isinstance(n.ctx, (ast.Store, ast.Del)):
            count[n.id] = count.get(n.id, 0) + 1
    for st in tree.body:
        if isinstance(st, ast.Assign) and len(st.targets) == 1 and isinstance(st.targets[0], ast.Name) \
                and isinstance(st.value, (ast.Tuple, ast.List)):
            val[st.targets[0].id] = st.value
    return {k: v for k, v in val.items() if count.get(k) == 1}


class Desugar(ast.NodeTransformer):
    def __init__(self):
        self.notes = []
        self.tables = {}
        self.outside = [set()]

    def visit_Call(self, node):
        self.generic_visit_expr(node)
        f = node.func
        # (lambda: E)()  ->  E
        if isinstance(f, ast.Lambda) and not node.args and not node.keywords:
            a = f.args
            if not (a.args or a.posonlyargs or a.kwonlyargs or a.vararg or a.kwarg):
                self.notes.append(f"(lambda: ...)() at line {node.lineno} -> its body")
                return f.body
        # getattr(x, "name")  ->  x.name
        if isinstance(f, ast.Name) and f.id == "getattr" and len(node.args) == 2 and not node.keywords \
                and isinstance(node.args[1], ast.Constant) and isinstance(node.args[1].value, str) and node.args[1].value.isidentifier():
            self.notes.append(f"getattr(.., {node.args[1].value!r}) at line {node.lineno} -> attribute")
            return ast.copy_location(ast.Attribute(value=node.args[0], attr=node.args[1].value, ctx=ast.Load()), node)
        return node

    def generic_visit_expr(self, node):
        for field, old in ast.iter_fields(node):
            if isinstance(old, list):
                new = []
                for v in old:
                    if isinstance(v, ast.AST):
                        v = self.visit_expr(v)
                    new.append(v)
                old[:] = new
            elif isinstance(old, ast.AST):
                setattr(node, field, self.visit_expr(old))

    def visit_expr(self, node):
        if isinstance(node, ast.Call):
            return self.visit_Call(node)
        if isinstance(node, ast.stmt):
            return node
        self.generic_visit_expr(node)
        return node

    def exprs_of(self, stmt):
        """apply the expression rewrites to the expressions a statement holds directly"""
        for field, old in ast.iter_fields(stmt):
            if field in ("body", "orelse", "finalbody", "handlers", "cases"):
                continue
            if isinstance(old, list):
                old[:] = [self.visit_expr(v) if isinstance(v, ast.expr) else v for v in old]
                for v in old:
                    if isinstance(v, (ast.withitem, ast.keyword)):
                        self.generic_visit_expr(v)
            elif isinstance(old, ast.expr):
                setattr(stmt, field, self.visit_expr(old))

    def _comprehend(self, stmts):
        """`T = []` directly followed by `for v in it: [if c:] T.append(elt)` is the list comprehension it spells out"""
        out, i = [], 0
        while i < len(stmts):
            a = stmts[i]
            b = stmts[i + 1] if i + 1 < len(stmts) else None
            new = None
            if isinstance(a, ast.Assign) and len(a.targets) == 1 and isinstance(a.targets[0], ast.Name) \
                    and ((isinstance(a.value, ast.List) and not a.value.elts)
                         or (isinstance(a.value, ast.Call) and isinstance(a.value.func, ast.Name) and a.value.func.id == "list"
                             and not a.value.args and not a.value.keywords)) \
                    and isinstance(b, ast.For) and not b.orelse and len(b.body) == 1:
                name = a.targets[0].id
                inner, conds = b.body[0], []
                while isinstance(inner, ast.If) and not inner.orelse and len(inner.body) == 1:
                    conds.append(inner.test)
                    inner = inner.body[0]
                if isinstance(inner, ast.Expr) and isinstance(inner.value, ast.Call) and isinstance(inner.value.func, ast.Attribute) \
                        and inner.value.func.attr == "append" and isinstance(inner.value.func.value, ast.Name) \
                        and inner.value.func.value.id == name and len(inner.value.args) == 1 and not inner.value.keywords:
                    elt = inner.value.args[0]
                    mentions = any(isinstance(x, ast.Name) and x.id == name for part in [b.iter, elt] + conds for x in ast.walk(part))
                    if not mentions:
                        comp = ast.ListComp(elt=elt, generators=[ast.comprehension(target=b.target, iter=b.iter, ifs=conds, is_async=0)])
                        new = ast.copy_location(ast.Assign(targets=[ast.Name(id=name, ctx=ast.Store())], value=ast.copy_location(comp, b)), a)
                        self.notes.append(f"list built by an append loop at line {a.lineno} read as a comprehension")
            if new is not None:
                out.append(new)
                i += 2
            else:
                out.append(a)
                i += 1
        return out

    def _block(self, stmts):
        out = []
        stmts = self._comprehend(list(stmts))
        for s in stmts:
            if isinstance(s, ast.For):
                u = _unroll(s, self.tables, self.outside[-1].get(id(s), set()) if isinstance(self.outside[-1], dict) else set())
                if u is not None:
                    self.notes.append(f"for loop over a literal table at line {s.lineno} unrolled ({len(u)} statements)")
                    out.extend(self._block(u))
                    continue
            self.exprs_of(s)
            # setattr(x, "name", v) as a statement  ->  x.name = v
            if isinstance(s, ast.Expr) and isinstance(s.value, ast.Call) and isinstance(s.value.func, ast.Name) and s.value.func.id == "setattr" \
                    and len(s.value.args) == 3 and not s.value.keywords and isinstance(s.value.args[1], ast.Constant) \
                    and isinstance(s.value.args[1].value, str) and s.value.args[1].value.isidentifier():
                c = s.value
                self.notes.append(f"setattr(.., {c.args[1].value!r}, ..) at line {s.lineno} -> assignment")
                s = ast.copy_location(ast.Assign(targets=[ast.Attribute(value=c.args[0], attr=c.args[1].value, ctx=ast.Store())],
                                                 value=c.args[2]), s)
            r = self.visit(s)
            if isinstance(r, list):
                out.extend(r)
            elif r is not None:
                out.append(r)
        return out

    def generic_visit(self, node):
        for f in ("body", "orelse", "finalbody"):
            v = getattr(node, f, None)
            if isinstance(v, list) and v and isinstance(v[0], ast.stmt):
                setattr(node, f, self._block(v))
        if isinstance(node, ast.Try):
            for h in node.handlers:
                h.body = self._block(h.body)
        if hasattr(ast, "Match") and isinstance(node, ast.Match):
            for c in node.cases:
                c.body = self._block(c.body)
        return node

    def visit_Match(self, node):
        self.generic_visit(node)
        try:
            out = _match_to_if(node)
            self.notes.append(f"match at line {node.lineno} -> if/elif")
            return out
        except ValueError:
            return node

    def visit_If(self, node):
        # elif with a walrus: re-nest so that the hoisted assignment runs only when the earlier tests failed
        if len(node.orelse) == 1 and isinstance(node.orelse[0], ast.If) and _leading_walrus(node.orelse[0].test) is not None:
            pass        # handled when the nested If is visited: its hoisted statements stay inside this orelse list
        self.generic_visit(node)
        pre, test = _hoist(node.test, node)
        if pre:
            node.test = test
            self.notes.append(f"walrus at line {node.lineno} hoisted")
            return pre + [node]
        return node

    def _simple(self, node, field):
        v = getattr(node, field, None)
        if v is None:
            return node
        pre, new = _hoist(v, node)
        if pre:
            setattr(node, field, new)
            self.notes.append(f"walrus at line {node.lineno} hoisted")
            return pre + [node]
        return node

    def visit_Expr(self, node):
        return self._simple(node, "value")

    def _ifexp(self, node):
        """`x = A if C else B` / `return A if C else B` / `x += A if C else B`  ->  the if/else statement it abbreviates"""
        v = node.value
        if not isinstance(v, ast.IfExp):
            return None
        if isinstance(node, ast.Assign) and not all(isinstance(t, ast.Name) or
                                                    (isinstance(t, ast.Attribute) and isinstance(t.value, ast.Name)) for t in node.targets):
            return None          # a target with its own sub-expressions would be evaluated after the value: keep as written
        if isinstance(node, ast.AugAssign) and not isinstance(node.target, ast.Name):
            return None
        def arm(val):
            n = _copy(node)
            n.value = val
            return ast.copy_location(n, node)
        new = ast.If(test=v.test, body=[arm(v.body)], orelse=[arm(v.orelse)])
        ast.copy_location(new, node)
        self.notes.append(f"conditional expression at line {node.lineno} -> if/else")
        return self.visit(new)

    def visit_Return(self, node):
        r = self._ifexp(node) if node.value is not None else None
        return r if r is not None else self._simple(node, "value")

    def visit_Assign(self, node):
        r = self._ifexp(node)
        return r if r is not None else self._simple(node, "value")

    def visit_AugAssign(self, node):
        r = self._ifexp(node)
        return r if r is not None else node

    def visit_FunctionDef(self, node):
        # positional-only markers restrict how a function may be called, not what it does: the engines read one list
        if node.args.posonlyargs:
            node.args.args = list(node.args.posonlyargs) + list(node.args.args)
            node.args.posonlyargs = []
            self.notes.append(f"positional-only parameters of {node.name} read as ordinary parameters")
        # names used outside each for loop of this function (a loop variable that is read after its loop keeps the
        # last row's value: such a loop is not unrolled)
        loops = [n for n in ast.walk(node) if isinstance(n, ast.For)]
        usage = {}
        for lp in loops:
            inside = {id(x) for x in ast.walk(lp)}
            usage[id(lp)] = {x.id for x in ast.walk(node) if isinstance(x, ast.Name) and id(x) not in inside}
        self.outside.append(usage)
        try:
            return self.generic_visit(node)
        finally:
            self.outside.pop()

    visit_AsyncFunctionDef = visit_FunctionDef

    def visit_ClassDef(self, node):
        return self.generic_visit(node)

    def visit_Module(self, node):
        self.tables = _module_tables(node)
        return self.generic_visit(node)

    def visit_For(self, node):
        return self.generic_visit(node)

    visit_While = visit_Try = visit_For

    def visit_With(self, node):
        self.generic_visit(node)
        # with [contextlib.]suppress(A, B): body   ==   try: body / except (A, B): pass
        if len(node.items) == 1 and node.items[0].optional_vars is None:
            ce = node.items[0].context_expr
            if isinstance(ce, ast.Call) and ast.unparse(ce.func) in ("suppress", "contextlib.suppress") and ce.args and not ce.keywords \
                    and not any(isinstance(a, ast.Starred) for a in ce.args):
                typ = ce.args[0] if len(ce.args) == 1 else ast.Tuple(elts=list(ce.args), ctx=ast.Load())
                h = ast.ExceptHandler(type=typ, name=None, body=[ast.copy_location(ast.Pass(), node)])
                t = ast.Try(body=node.body, handlers=[ast.copy_location(h, node)], orelse=[], finalbody=[])
                self.notes.append(f"with suppress(...) at line {node.lineno} -> try/except: pass")
                return ast.copy_location(t, node)
        return node

    visit_AsyncWith = visit_For


def desugar(tree):
    d = Desugar()
    new = d.visit(tree)
    if d.notes:
        ast.fix_missing_locations(new)
    return new, d.notes
