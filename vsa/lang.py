"""String-language obligations built on strlang/predeval: encoder pairings,
bare languages, reader classes (S1, G2, N1, O1, O2, TB8)."""
import ast

from .core import AnalysisError, norm
from . import strlang as SL, predeval as PE, tables, interval

ENCODERS = ("PVLEncoder", "ODLEncoder", "PDSLabelEncoder", "ISISEncoder")


def encoder_pairing(repo, enc):
    """Default (grammar class, decoder class) of an encoder class: the classes of the objects its constructor puts
    in self.grammar / self.decoder when called without arguments (abstract interpretation of the constructor chain,
    vsa.ctor)."""
    from . import ctor
    return ctor.attr_class(repo, enc, "grammar"), ctor.attr_class(repo, enc, "decoder")


def encoder_options(repo, enc):
    """Constructor defaults of boolean/int options read by predicates (width, symbol_single_quote, ...)."""
    opts = {}
    for c in reversed([c for c in repo.mro(enc) if not c.startswith("ext:")]):
        init = repo.classes[c].methods.get("__init__")
        if init is None:
            continue
        a = init.args
        names = [x.arg for x in a.args]
        for name, d in zip(names[len(names) - len(a.defaults):], a.defaults):
            if isinstance(d, ast.Constant):
                opts[name] = d.value
    return opts


def string_path_flags(repo, enc):
    """Boolean constructor options of encoder class *enc* that the string-writing methods read (self.<option> inside
    encode_string / needs_quotes / the is_* predicates of its MRO): each value of such an option is a configuration of
    its own for the bare-string rules."""
    opts = encoder_options(repo, enc)
    flags = []
    for name, dflt in opts.items():
        if not isinstance(dflt, bool):
            continue
        for c in repo.mro(enc):
            if c.startswith("ext:"):
                continue
            for mname, fn in repo.classes[c].methods.items():
                if mname in ("encode_string", "needs_quotes") or mname.startswith("is_"):
                    if any(isinstance(n, ast.Attribute) and n.attr == name and isinstance(n.value, ast.Name) and n.value.id == "self"
                           and isinstance(n.ctx, ast.Load) for n in ast.walk(fn)):
                        if (name, dflt) not in flags:
                            flags.append((name, dflt))
    return flags


def allowed_syms(repo, gcls):
    t, f, e = interval.CharAllowed(repo, gcls).accepted()
    return SL.chars_where(lambda c: any(a <= ord(c) <= b for a, b in t.ivs))


class Pairing:
    """Languages of one writer/reader pairing."""

    def __init__(self, repo, enc, gcls=None, dcls=None, overrides=None):
        self.repo, self.enc = repo, enc
        g0, d0 = encoder_pairing(repo, enc)
        self.gcls, self.dcls = gcls or g0, dcls or d0
        self.grammar = tables.grammar_instance(repo, self.gcls)
        opts = encoder_options(repo, enc)
        opts.update(overrides or {})
        self.ctx = PE.Ctx(repo, self.grammar, self.dcls, enc, width=opts.get("width", 80), options=opts)
        self.alpha = SL.star(allowed_syms(repo, self.gcls))

    def bare(self):
        es = PE.run(self.enc, "encode_string", self.ctx)
        return es["ID"] & self.alpha

    def reader(self, gcls=None, dcls=None):
        return Reader(self.repo, gcls or self.gcls, dcls or self.dcls)


class Reader:
    def __init__(self, repo, gcls, dcls):
        self.repo, self.gcls, self.dcls = repo, gcls, dcls
        self.grammar = tables.grammar_instance(repo, gcls)
        self.ctx = PE.Ctx(repo, self.grammar, dcls)
        self._cls = None

    def method(self, name):
        return PE.run(self.dcls, name, self.ctx)

    def classes(self):
        """Disjoint-by-cascade classes of decode_simple_value, from its own summary and the class methods."""
        if self._cls is not None:
            return self._cls
        g = self.grammar
        simple = self.method("decode_simple_value")
        acc = lambda m: PE.accepts(self.method(m))
        cls = {}
        cls["keyword (null/true/false)"] = simple["T"] | simple["F"]
        cls["quoted string"] = acc("decode_quoted_string")
        cls["based integer"] = acc("decode_non_decimal")
        cls["decimal number"] = acc("decode_decimal")
        cls["date/time"] = acc("decode_datetime")
        cls["not a value"] = simple["E"]
        # what the *parser* treats specially before the decoder sees it
        cls["parser keyword/delimiter"] = SL.anyof(sorted(g.reserved_keywords), ic=True) | SL.anyof(list(g.delimiters))
        cls["no token (empty)"] = SL.EPSILON
        self.simple = simple
        self.returned_unchanged = simple["ID"]
        self._cls = cls
        return cls

    def unquoted_class(self):
        """Strings for which decode_simple_value returns through decode_unquoted_string."""
        c = self.classes()
        u = PE.accepts(self.method("decode_unquoted_string"))
        for k in ("keyword (null/true/false)", "quoted string", "based integer", "decimal number", "date/time"):
            u = u - c[k]
        return u

    def token_unquoted(self):
        return PE.run("Token", "is_unquoted_string", self.ctx)["T"]


def dialect_encoder_pairings(repo):
    """(encoder class, grammar class, decoder class) of the encoder object in every row of pvl_validate.dialects, as the
    module builds it (vsa.ctor.module_value)."""
    from . import ctor
    out = []
    if "pvl_validate" not in repo.modules:
        return out
    d = ctor.module_value(repo, "pvl_validate", "dialects")
    if isinstance(d, ctor.DictV):
        for _rname, row in d.items:
            e = row.get("encoder") if isinstance(row, ctor.DictV) else None
            if isinstance(e, ctor.Inst) and isinstance(e.attrs.get("grammar"), ctor.Inst) and isinstance(e.attrs.get("decoder"), ctor.Inst):
                out.append((e.cls, e.attrs["grammar"].cls, e.attrs["decoder"].cls))
    return out
    inst = {}
    for name, val in mod.assigns.items():
        if isinstance(val, ast.Call) and isinstance(val.func, ast.Name) and repo.has_cls(val.func.id):
            inst[name] = val.func.id
    d = mod.assigns["dialects"]
    from .core import dict_entries
    if dict_entries(d) is not None:
        for _rname, row in dict_entries(d):
            for karg, kvalue in (dict_entries(row) or []):
                if karg == "encoder" and isinstance(kvalue, ast.Call) and repo.has_cls(norm(kvalue.func)):
                    a = {x.arg: norm(x.value) for x in kvalue.keywords}
                    g, dd = inst.get(a.get("grammar")), inst.get(a.get("decoder"))
                    if g and dd:
                        out.append((norm(kvalue.func), g, dd))
    return out
