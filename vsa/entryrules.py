"""F1 / V1 on the outcome terms of the public entry points (pvl/__init__.py, pvl/new.py).

The outcome enumerator (vsa.symx in term mode) executes load / loadu / loads / dump / dumps symbolically over their
parameters: private helpers, nested functions and lambdas are interpreted, every other call stays a call in the term,
undecided tests fork, and calls inside ``try`` fork into "raises <class a handler names>".  The result is, for every
path, the expression the entry point returns, written over the parameters (``$s``, ``$parser`` ...) -- independent of
how the body is split into helpers, which names it uses for intermediate values and in which order it tests things.

F1 compares those terms with the forms the documentation of the entry points states; V1 compares pvl.new's with
pvl's.  Nothing is executed: the terms are read from the source.
"""
import ast
import re

from .core import Finding, AnalysisError
from . import symx

ENTRY = ("load", "loadu", "loads", "dump", "dumps")
NEW_KWARGS = {"loads": {"module_class": "PVLModuleNew", "group_class": "PVLGroupNew", "object_class": "PVLObjectNew"},
              "dumps": {"group_class": "PVLGroupNew", "object_class": "PVLObjectNew"}}


def outcomes(repo, modname, name):
    """-> sorted list of (kind, text, conds) with conds a frozenset of (atom, bool); '$OTHER' raises dropped"""
    cache = repo.__dict__.setdefault("_entry_outcomes", {})
    key = (modname, name)
    if key not in cache:
        mod = repo.module(modname)
        fn = mod.functions.get(name)
        if fn is None:
            raise AnalysisError(f"anchor vanished: function pvl/{modname}.py:{name}")
        X = symx.SymX(repo, modname, lambda c: True, terms=True)
        outs = X.run(fn)
        seen = {}
        for o in outs:
            if o.kind == "raise" and o.value == symx.OTHER:
                continue
            text = symx.show(o.value) if o.kind == "return" else str(o.value)
            conds = frozenset(_canon_cond(e[1], e[2]) for e in o.events if e[0] == "if")
            seen.setdefault((o.kind, text), []).append(conds)
        cache[key] = (fn, sorted(seen.items()))
    return cache[key]


def _canon_cond(text, val):
    text = text.strip()
    while True:
        if text.startswith("not "):
            text, val = text[4:].strip(), not val
        elif text.startswith("(") and text.endswith(")") and _balanced(text[1:-1]):
            text = text[1:-1].strip()
        elif text.endswith(" is not None"):
            text, val = text[:-len(" is not None")] + " is None", not val
        else:
            return text, val


def _balanced(t):
    d = 0
    for ch in t:
        d += ch in "([{"
        d -= ch in ")]}"
        if d < 0:
            return False
    return d == 0


def _parse(text):
    try:
        return ast.parse(text.replace("$", "_P_"), mode="eval").body
    except SyntaxError:
        return None


def _src(n):
    return ast.unparse(n).replace("_P_", "$")


def _is_param(n, name):
    return isinstance(n, ast.Name) and n.id == "_P_" + name


def _kwmap(call):
    return {k.arg: k.value for k in call.keywords if k.arg}


def _star(call):
    return [k.value for k in call.keywords if k.arg is None]


def _forwards(call, names, kwname="kwargs", extra=None):
    """what is missing for: keyword n=$n for each name, exactly **$kwargs, and nothing else but *extra* {kw: class}"""
    kw = _kwmap(call)
    missing = [n for n in names if not _is_param(kw.get(n), n)]
    st = _star(call)
    if not (len(st) == 1 and _is_param(st[0], kwname)):
        missing.append("**" + kwname)
    for k, cls in (extra or {}).items():
        if not (isinstance(kw.get(k), ast.Name) and kw[k].id == cls):
            missing.append(f"{k}={cls}")
    for k in kw:
        if k not in names and k not in (extra or {}):
            missing.append(f"unexpected {k}=")
    return missing


def _cond(conds_list, atom):
    """value of the path condition *atom* on the paths that give one outcome: True / False / None (not tested or mixed)"""
    vals = set()
    for conds in conds_list:
        v = [b for (a, b) in conds if a == atom]
        vals.add(v[0] if len(set(v)) == 1 else None)
    return vals.pop() if len(vals) == 1 else None


def _fname(fn, i):
    return fn.args.args[i].arg


def rule_f1(repo, res, modname):
    """every value an entry point returns is the documented expression over its parameters"""
    def F(what, anchor, msg, fn):
        res.add(Finding("F1", f"{modname}.{what}", anchor, msg, where=f"pvl/{modname}.py:{fn.lineno}"))
    q = modname + "."
    extra_l = NEW_KWARGS["loads"] if modname == "new" else {}
    extra_d = NEW_KWARGS["dumps"] if modname == "new" else {}

    # ---- load / loadu: return <module>.loads(<text read from the argument>, parser=, grammar=, decoder=, **kwargs)
    for name, heads in (("load", {"__init__.get_text_from"}), ("loadu", {"__init__.decode_by_char", "_with_", "urllib.request.urlopen", "urlopen"})):
        fn, outs = outcomes(repo, modname, name)
        rets = [(t, c) for (k, t), c in outs if k == "return"]
        res.floor(f"{modname}.{name} return terms", len(rets), 1)
        src = _fname(fn, 0)
        for text, _c in rets:
            n = _parse(text)
            ok = isinstance(n, ast.Call) and ast.unparse(n.func) == q + "loads" and len(n.args) == 1
            missing = _forwards(n, ("parser", "grammar", "decoder")) if ok else ["a call of loads()"]
            if ok:
                # the text: the reading helpers only, applied (first argument after first argument) to the caller's path / URL
                t = n.args[0]
                while isinstance(t, ast.Call):
                    if ast.unparse(t.func) not in heads:
                        missing.append(f"text transformed by {ast.unparse(t.func).replace('_P_', '$')}()")
                    if not t.args:
                        break
                    t = t.args[0]
                if not _is_param(t, src):
                    missing.append(f"text read from ${src}")
            res.oblige("F1", f"{modname}.{name}: returns loads(<text of ${src}>, parser=$parser, grammar=$grammar, decoder=$decoder, **$kwargs)",
                       ok=not missing)
            if missing:
                F(name, "return loads(...)", f"{modname}.{name} returns `{text[:120]}`: {', '.join(missing)} -- the file/stream/URL "
                  "entry point and the string entry point use different parser configurations or texts", fn)

    # ---- loads: P.parse(T), P in {$parser, OmniParser(grammar=$grammar, decoder=$decoder, **$kwargs)}, T in {$s, $s.decode()}
    fn, outs = outcomes(repo, modname, "loads")
    svar = _fname(fn, 0)
    rets = [(t, c) for (k, t), c in outs if k == "return"]
    seen = set()
    for text, conds in rets:
        n = _parse(text)
        problems = []
        if not (isinstance(n, ast.Call) and isinstance(n.func, ast.Attribute) and n.func.attr == "parse" and len(n.args) == 1 and not n.keywords):
            problems.append("is not <parser>.parse(<text>)")
        else:
            T, P = n.args[0], n.func.value
            if _is_param(T, svar):
                tform = "str"
                if _cond(conds, f"isinstance(${svar}, bytes)") is True:
                    problems.append("a bytes argument reaches the parser undecoded")
            elif isinstance(T, ast.Call) and isinstance(T.func, ast.Attribute) and T.func.attr == "decode" and _is_param(T.func.value, svar) \
                    and not T.args and not T.keywords:
                tform = "bytes"
                if _cond(conds, f"isinstance(${svar}, bytes)") is not True:
                    problems.append(".decode() applied without the isinstance(..., bytes) test")
            else:
                tform = "?"
                problems.append(f"the text handed to the parser is `{_src(T)}`, not ${svar} (or ${svar}.decode() for bytes)")
            if _is_param(P, "parser"):
                pform = "given"
                if _cond(conds, "$parser is None") is not False:
                    problems.append("the caller's parser is used on a path where it may be None")
            elif isinstance(P, ast.Call) and ast.unparse(P.func) == "OmniParser" and not P.args:
                pform = "default"
                miss = _forwards(P, ("grammar", "decoder"), extra=extra_l)
                if miss:
                    problems.append("default parser built without " + ", ".join(miss))
                if _cond(conds, "$parser is None") is not True:
                    problems.append("the default parser replaces a parser the caller gave")
            else:
                pform = "?"
                problems.append(f"the parser is `{_src(P)}`, neither $parser nor OmniParser(grammar=$grammar, decoder=$decoder, **$kwargs)")
            seen.add((pform, tform))
        res.oblige("F1", f"{modname}.loads returns `{text[:100]}`: <$parser | default OmniParser>.parse(<${svar} | ${svar}.decode()>)", ok=not problems)
        if problems:
            F("loads", "return parser.parse(s)", f"{modname}.loads returns `{text[:140]}`: " + "; ".join(problems), fn)
    for want in (("given", "str"), ("given", "bytes"), ("default", "str"), ("default", "bytes")):
        res.oblige("F1", f"{modname}.loads has a return for parser {want[0]} / text {want[1]}", ok=want in seen)
        if want not in seen and not any(f.rule == "F1" and f.function == f"{modname}.loads" for f in res.findings):
            F("loads", "return parser.parse(s)", f"{modname}.loads has no path that returns the parse of a {want[1]} argument with the "
              f"{want[0]} parser", fn)

    # ---- dumps: E.encode($module), E in {$encoder, PDSLabelEncoder(grammar=$grammar, decoder=$decoder, **$kwargs)}
    fn, outs = outcomes(repo, modname, "dumps")
    mvar = _fname(fn, 0)
    seen = set()
    for (k, text), conds in outs:
        if k != "return":
            continue
        n = _parse(text)
        problems = []
        if not (isinstance(n, ast.Call) and isinstance(n.func, ast.Attribute) and n.func.attr == "encode" and len(n.args) == 1
                and not n.keywords and _is_param(n.args[0], mvar)):
            problems.append(f"is not <encoder>.encode(${mvar})")
        else:
            E = n.func.value
            if _is_param(E, "encoder"):
                seen.add("given")
                if _cond(conds, "$encoder is None") is not False:
                    problems.append("the caller's encoder is used on a path where it may be None")
            elif isinstance(E, ast.Call) and ast.unparse(E.func) == "PDSLabelEncoder" and not E.args:
                seen.add("default")
                miss = _forwards(E, ("grammar", "decoder"), extra=extra_d)
                if miss:
                    problems.append("default encoder built without " + ", ".join(miss))
                if _cond(conds, "$encoder is None") is not True:
                    problems.append("the default encoder replaces an encoder the caller gave")
            else:
                problems.append(f"the encoder is `{_src(E)}`, neither $encoder nor PDSLabelEncoder(grammar=$grammar, decoder=$decoder, **$kwargs)")
        res.oblige("F1", f"{modname}.dumps returns `{text[:100]}`: <$encoder | default PDSLabelEncoder>.encode(${mvar})", ok=not problems)
        if problems:
            F("dumps", "return encoder.encode(module)", f"{modname}.dumps returns `{text[:140]}`: " + "; ".join(problems), fn)
    for want in ("given", "default"):
        res.oblige("F1", f"{modname}.dumps has a return for the {want} encoder", ok=want in seen)
        if want not in seen and not any(f.rule == "F1" and f.function == f"{modname}.dumps" for f in res.findings):
            F("dumps", "return encoder.encode(module)", f"{modname}.dumps has no path that encodes with the {want} encoder", fn)

    # ---- dump: writes exactly dumps($module, **$kwargs): text for paths and text streams, .encode() for the rest
    fn, outs = outcomes(repo, modname, "dump")
    mvar, pvar = _fname(fn, 0), _fname(fn, 1)
    seen = set()
    for (k, text), conds in outs:
        if k != "return":
            continue
        n = _parse(text)
        problems = []
        form = None
        if not (isinstance(n, ast.Call) and isinstance(n.func, ast.Attribute) and n.func.attr in ("write", "write_text")
                and len(n.args) == 1 and not n.keywords):
            problems.append("is not a single write of the serialised text")
        else:
            a = n.args[0]
            enc = False
            if isinstance(a, ast.Call) and isinstance(a.func, ast.Attribute) and a.func.attr == "encode" and not a.args and not a.keywords:
                enc, a = True, a.func.value
            if not (isinstance(a, ast.Call) and ast.unparse(a.func) == q + "dumps" and len(a.args) == 1 and _is_param(a.args[0], mvar)
                    and not _kwmap(a) and len(_star(a)) == 1 and _is_param(_star(a)[0], "kwargs")):
                problems.append(f"what is written is `{_src(a)}`, not dumps(${mvar}, **$kwargs)")
            recv = n.func.value
            if n.func.attr == "write_text":
                form = "path"
                if not (isinstance(recv, ast.Call) and ast.unparse(recv.func) in ("Path", "pathlib.Path") and len(recv.args) == 1
                        and _is_param(recv.args[0], pvar) and not recv.keywords):
                    problems.append(f"write_text() on `{_src(recv)}`, not Path(${pvar})")
                if enc:
                    problems.append("bytes given to write_text()")
            else:
                form = "bytes" if enc else "text"
                if not _is_param(recv, pvar):
                    problems.append(f"write() on `{_src(recv)}`, not ${pvar}")
                istext = _cond(conds, f"isinstance(${pvar}, io.TextIOBase)")
                if istext is None or istext == enc:
                    problems.append("text for text streams, its .encode() for everything else: the io.TextIOBase test does not select this form")
            seen.add(form)
        res.oblige("F1", f"{modname}.dump returns `{text[:100]}`: writes exactly dumps(${mvar}, **$kwargs) ({form})", ok=not problems)
        if problems:
            F("dump", "return of a write", f"{modname}.dump returns `{text[:140]}`: " + "; ".join(problems), fn)
    for want in ("path", "text", "bytes"):
        res.oblige("F1", f"{modname}.dump has a return that writes to a {want} target", ok=want in seen)
        if want not in seen and not any(f.rule == "F1" and f.function == f"{modname}.dump" for f in res.findings):
            F("dump", "return of a write", f"{modname}.dump has no path that writes to a {want} target", fn)


class _Norm(ast.NodeTransformer):
    """pvl.new term -> the pvl term it should equal: container-class keywords and the encoding keyword dropped"""

    def __init__(self, drop):
        self.drop = drop

    def visit_Call(self, n):
        self.generic_visit(n)
        n.keywords = [k for k in n.keywords if k.arg not in self.drop]
        return n


def _normal_text(text, drop):
    n = _parse(text)
    if n is None:
        return text
    n = _Norm(drop).visit(n)
    return re.sub(r"\bnew\.(load|loads|loadu|dump|dumps)\b", r"__init__.\1", _src(n))


def rule_v1(repo, res):
    """V1 sibling comparison on outcome terms: every pvl.new entry point returns / raises what pvl's does, except for
    the added container-class keyword arguments"""
    for name in ENTRY:
        fa, a = outcomes(repo, "__init__", name)
        fb, b = outcomes(repo, "new", name)
        drop = tuple(NEW_KWARGS.get(name, {})) + (("encoding",) if name == "load" else ())
        A = {(k, _normal_text(t, drop)) for (k, t), _ in a}
        B = {(k, _normal_text(t, drop)) for (k, t), _ in b}
        same = A == B
        res.oblige("V1", f"pvl.new.{name} returns/raises what pvl.{name} does, up to the container-class keywords "
                         f"({len(B)} outcome terms)", ok=same)
        if not same:
            only_new = sorted(B - A)[:2]
            only_old = sorted(A - B)[:2]
            res.add(Finding("V1", f"new.{name}", "differs from pvl." + name,
                            f"pvl.new.{name} differs from pvl.{name} in more than the container-class arguments "
                            f"(only in pvl.new: {only_new}; only in pvl: {only_old}): the two families of loaders/dumpers no "
                            "longer behave alike", where=f"pvl/new.py:{fb.lineno}"))
        # the same path conditions select the same outcome
        ca = {(k, _normal_text(t, drop)): frozenset(c) for (k, t), c in a}
        cb = {(k, _normal_text(t, drop)): frozenset(c) for (k, t), c in b}
        for key in sorted(set(ca) & set(cb)):
            atoms_a = {x for cs in ca[key] for x in cs}
            atoms_b = {x for cs in cb[key] for x in cs}
            contradict = {(at, v) for (at, v) in atoms_b if (at, not v) in atoms_a and (at, v) not in atoms_a}
            res.oblige("V1", f"pvl.new.{name}: `{key[1][:60]}` is selected by the same tests as in pvl.{name}", ok=not contradict)
            if contradict:
                res.add(Finding("V1", f"new.{name}", "differs from pvl." + name,
                                f"pvl.new.{name} reaches `{key[1][:80]}` under {sorted(contradict)[:2]}, pvl.{name} under the opposite",
                                where=f"pvl/new.py:{fb.lineno}"))
        for kw, cls in NEW_KWARGS.get(name, {}).items():
            texts = [t for (k, t), _ in b if k == "return"]
            calls = [c for t in texts for c in ast.walk(_parse(t) or ast.Constant(0)) if isinstance(c, ast.Call) and kw in _kwmap(c)]
            ok = bool(calls) and all(isinstance(_kwmap(c)[kw], ast.Name) and _kwmap(c)[kw].id == cls for c in calls)
            res.oblige("V1", f"pvl.new.{name} passes {kw}={cls}", ok=ok)
            if not ok:
                res.add(Finding("V1", f"new.{name}", f"{kw}={cls}", f"pvl.new.{name} does not pass {kw}={cls}: containers of the "
                                "old family are returned/assumed", where=f"pvl/new.py:{fb.lineno}"))


def rule_f4(repo, res, modname="__init__"):
    """F4: the text get_text_from returns is the file's text read with the caller's encoding and nothing else -- the
    same text for a path, an open text stream and an open binary stream.  Outcome terms: every return is one of
    `Path($path).read_text(encoding=$encoding)`, `decode_by_char(<the file opened 'rb'>)`, `decode_by_char($path)` (or of its `.buffer`),
    `$path.read()`.  A default encoding, codec option or clean-up added on one route only (a byte-order-mark codec for
    paths) makes the entry points, and the command-line tools that hand over open files, disagree."""
    mod = repo.module(modname)
    if "get_text_from" not in mod.functions:
        raise AnalysisError(f"anchor vanished: pvl/{modname}.py:get_text_from")
    fn = mod.functions["get_text_from"]
    pvar = fn.args.args[0].arg
    X = symx.SymX(repo, modname, lambda c: True, terms=True)
    outs = X.run(fn)
    texts = sorted({symx.show(o.value) for o in outs if o.kind == "return"})
    res.floor(f"{modname}.get_text_from return terms", len(texts), 3)
    q = modname + "."
    for t in texts:
        n = _parse(t)
        ok = False
        if isinstance(n, ast.Call):
            f = ast.unparse(n.func)
            if f in (f"Path(_P_{pvar}).read_text", f"pathlib.Path(_P_{pvar}).read_text"):
                kw = _kwmap(n)
                ok = not n.args and set(kw) <= {"encoding"} and (not kw or _is_param(kw["encoding"], "encoding")) and not _star(n) \
                    and ("encoding" in kw or len(fn.args.args) < 2)
            elif f == f"_P_{pvar}.read":
                ok = not n.args and not n.keywords
            elif f in (q + "decode_by_char", "decode_by_char") and len(n.args) == 1 and not n.keywords:
                a = n.args[0]
                if _is_param(a, pvar):
                    ok = True
                elif isinstance(a, ast.Attribute) and a.attr == "buffer" and _is_param(a.value, pvar):
                    ok = True        # the byte stream underneath the caller's text stream
                elif isinstance(a, ast.Call) and ast.unparse(a.func) == "getattr" and len(a.args) == 3 and _is_param(a.args[0], pvar) \
                        and isinstance(a.args[1], ast.Constant) and a.args[1].value == "buffer" and _is_param(a.args[2], pvar):
                    ok = True        # ... when it has one
                elif isinstance(a, ast.Call) and ast.unparse(a.func) == "_with_" and len(a.args) == 1 and isinstance(a.args[0], ast.Call) \
                        and ast.unparse(a.args[0].func) == "open":
                    o = a.args[0]
                    mode = _kwmap(o).get("mode") or (o.args[1] if len(o.args) > 1 else None)
                    ok = bool(o.args) and _is_param(o.args[0], pvar) and isinstance(mode, ast.Constant) and mode.value == "rb"
        res.oblige("F4", f"{modname}.get_text_from returns `{t[:90]}`: the file's text, read with the caller's encoding only", ok=ok)
        if not ok:
            res.add(Finding("F4", f"{modname}.get_text_from", "text read with something other than the caller's encoding",
                            f"{modname}.get_text_from can return `{t[:140]}`: this route reads the text differently from the others "
                            "(an encoding default, codec or clean-up of its own), so the same label gives different text -- and a "
                            "different module -- depending on whether a path, an open file or a stream is handed over",
                            where=f"pvl/{modname}.py:{fn.lineno}"))
