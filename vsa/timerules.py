"""Rules on the date/time writer and reader (C14): R1 fields, R2 sign, R3 fraction, R4 offset-suffix language,
leap-second guard, PDS3 restrictions."""
import ast
import re as _re

from .core import Finding, AnalysisError, norm
from . import strlang as SL, tables


def _fn_chain(repo, cls, name):
    """The resolved method and the methods it reaches through super().name() calls."""
    out = []
    after = None
    while True:
        c, fn = repo.full_resolved(cls, name, after=after)
        if fn is None:
            break
        out.append((c, fn))
        calls_super = any(isinstance(n, ast.Call) and isinstance(n.func, ast.Attribute) and n.func.attr == name and
                          isinstance(n.func.value, ast.Call) and norm(n.func.value.func) == "super" for n in ast.walk(fn))
        if not calls_super:
            break
        after = c
    return out


def _directives(fn):
    """strftime directives used in f-string format specs / strftime calls of *fn*."""
    ds = set()
    for n in ast.walk(fn):
        if isinstance(n, ast.FormattedValue) and n.format_spec is not None:
            for v in n.format_spec.values:
                if isinstance(v, ast.Constant) and isinstance(v.value, str):
                    ds |= set(_re.findall(r"%([A-Za-z])", v.value))
        if isinstance(n, ast.Call) and isinstance(n.func, ast.Attribute) and n.func.attr == "strftime" and n.args \
                and isinstance(n.args[0], ast.Constant):
            ds |= set(_re.findall(r"%([A-Za-z])", str(n.args[0].value)))
    return ds


def _attrs_of(fn, var):
    return {n.attr for n in ast.walk(fn) if isinstance(n, ast.Attribute) and isinstance(n.value, ast.Name) and n.value.id == var}


def fstring_dfa(node, digits=r"[0-9]+", fn=None):
    """Language of a string-building expression: literals exact; an interpolated name that is only ever assigned
    string constants in *fn* ranges over those constants; any other interpolated value is a digit string (the values
    interpolated into a zone offset come from splitting str(timedelta))."""
    def name_values(name):
        if fn is None:
            return None
        vals = []
        for n in ast.walk(fn):
            if isinstance(n, ast.Assign) and any(isinstance(t, ast.Name) and t.id == name for t in n.targets):
                if isinstance(n.value, ast.Constant) and isinstance(n.value.value, str):
                    vals.append(n.value.value)
                else:
                    return None
            if isinstance(n, ast.Assign) and any(isinstance(t, ast.Tuple) and any(isinstance(e, ast.Name) and e.id == name
                                                                                for e in t.elts) for t in n.targets):
                # (sign, offset) = ("-", -offset) if offset < zero else ("+", offset): element-wise
                t = [t for t in n.targets if isinstance(t, ast.Tuple)][0]
                idx = [i for i, e in enumerate(t.elts) if isinstance(e, ast.Name) and e.id == name][0]
                alts = [n.value.body, n.value.orelse] if isinstance(n.value, ast.IfExp) else [n.value]
                for a in alts:
                    if isinstance(a, ast.Tuple) and len(a.elts) == len(t.elts) and isinstance(a.elts[idx], ast.Constant) \
                            and isinstance(a.elts[idx].value, str):
                        vals.append(a.elts[idx].value)
                    else:
                        return None
        return vals or None
    def name_exprs(name):
        """string-building expressions a name is assigned (all of its plain assignments), else None"""
        if fn is None or _depth[0] > 4:
            return None
        out = []
        for n in ast.walk(fn):
            if isinstance(n, ast.Assign) and any(isinstance(t, ast.Name) and t.id == name for t in n.targets):
                if isinstance(n.value, (ast.JoinedStr, ast.BinOp, ast.IfExp)):
                    out.append(n.value)
                else:
                    return None
        return out or None
    if isinstance(node, ast.Constant) and isinstance(node.value, str):
        return SL.lit(node.value)
    if isinstance(node, ast.IfExp):
        a, b = fstring_dfa(node.body, digits, fn), fstring_dfa(node.orelse, digits, fn)
        return None if a is None or b is None else (a | b)
    if isinstance(node, ast.JoinedStr):
        d = SL.EPSILON
        for v in node.values:
            if isinstance(v, ast.Constant):
                d = SL.concat(d, SL.lit(str(v.value)))
            else:
                sub = None
                if isinstance(v.value, ast.JoinedStr):
                    sub = fstring_dfa(v.value, digits, fn)
                elif isinstance(v.value, ast.Name) and not v.format_spec:
                    ex = name_exprs(v.value.id)
                    if ex:
                        _depth[0] += 1
                        parts = [fstring_dfa(x, digits, fn) for x in ex]
                        _depth[0] -= 1
                        sub = None if any(p_ is None for p_ in parts) else SL.union(parts)
                if sub is None:
                    vals = name_values(v.value.id) if isinstance(v.value, ast.Name) else None
                    sub = SL.anyof(vals) if vals else SL.rx(digits)
                d = SL.concat(d, sub)
        return d
    if isinstance(node, ast.BinOp) and isinstance(node.op, ast.Add):
        a, b = fstring_dfa(node.left, digits, fn), fstring_dfa(node.right, digits, fn)
        return None if a is None or b is None else SL.concat(a, b)
    if isinstance(node, ast.Name):
        vals = name_values(node.id)
        if vals:
            return SL.anyof(vals)
        ex = name_exprs(node.id)
        if ex:
            _depth[0] += 1
            parts = [fstring_dfa(x, digits, fn) for x in ex]
            _depth[0] -= 1
            return None if any(p_ is None for p_ in parts) else SL.union(parts)
        return None
    return None


_depth = [0]


def rule_r(repo, res):
    encs = repo.subclasses("PVLEncoder")
    for enc in encs:
        chain = _fn_chain(repo, enc, "encode_time")
        if not chain:
            raise AnalysisError(f"anchor vanished: {enc}.encode_time")
        dirs, attrs = set(), set()
        for c, fn in chain:
            var = [a.arg for a in fn.args.args if a.arg != "self"][0]
            dirs |= _directives(fn)
            attrs |= _attrs_of(fn, var)
        where = f"pvl/encoder.py:{chain[0][1].lineno}"
        top = chain[0][0]
        # R1: every field of the argument is consumed
        for need, what in (("H", "hour"), ("M", "minute"), ("S", "second")):
            ok = need in dirs
            res.oblige("R1", f"{enc}.encode_time ({top}) writes the {what} field", ok=ok)
            if not ok:
                res.add(Finding("R1", f"{top}.encode_time", f"%{need}", f"{enc}.encode_time never formats %{need}: the {what} "
                                "of a time value is not written", where=where))
        ok = "f" in dirs or "microsecond" in attrs
        res.oblige("R1", f"{enc}.encode_time ({top}) reads the microsecond field", ok=ok)
        if not ok:
            res.add(Finding("R1", f"{top}.encode_time", "microsecond", f"{enc}.encode_time never reads microseconds: the "
                            "fraction of a second is dropped", where=where))
        ok = bool({"tzinfo", "utcoffset"} & attrs) or "z" in dirs
        res.oblige("R1", f"{enc}.encode_time ({top}) reads the zone (tzinfo/utcoffset) of its argument", ok=ok)
        if not ok:
            res.add(Finding("R1", f"{top}.encode_time", "zone",
                            f"{top}.encode_time never reads tzinfo/utcoffset of its argument: a time with a zone offset is "
                            "written as if it had none, so it denotes another instant when read back (the dialect's "
                            "default zone is assumed)", where=where))
        # seconds / fraction are written whenever they are non-zero: branch conditions on microsecond and second
        c0, fn0 = chain[-1]
        var0 = [a.arg for a in fn0.args.args if a.arg != "self"][0]
        conds = [norm(n.test) for n in ast.walk(fn0) if isinstance(n, ast.If)]
        ok = any("microsecond" in c for c in conds) and any(c == f"{var0}.second" or ".second" in c for c in conds)
        res.oblige("R1", f"{c0}.encode_time: seconds are written when second or microsecond is non-zero", ok=ok)
        if not ok:
            res.add(Finding("R1", f"{c0}.encode_time", "seconds condition", f"{c0}.encode_time does not test both "
                            "microsecond and second to decide whether seconds are written", where=f"pvl/encoder.py:{fn0.lineno}"))
        # R3: what is interpolated after a "." literal is %f or a zero-padded fixed width
        for c, fn in chain:
            for js in [n for n in ast.walk(fn) if isinstance(n, ast.JoinedStr)]:
                vals = js.values
                for i, v in enumerate(vals):
                    if isinstance(v, ast.Constant) and str(v.value).endswith(".") and i + 1 < len(vals) \
                            and isinstance(vals[i + 1], ast.FormattedValue):
                        fv = vals[i + 1]
                        spec = "".join(str(x.value) for x in fv.format_spec.values if isinstance(x, ast.Constant)) if fv.format_spec else ""
                        ok = "%f" in spec or bool(_re.fullmatch(r"0\d+d?", spec)) or bool(_re.fullmatch(r"0>\d+", spec))
                        res.oblige("R3", f"{c}.encode_time `{norm(js, 50)}`: the fraction after '.' has a fixed zero-padded width", ok=ok)
                        if not ok:
                            res.add(Finding("R3", f"{c}.encode_time", norm(js, 60),
                                            f"`{norm(js, 60)}` writes a fraction of a second without zero padding: 5 ms is "
                                            "written '.5' and reads back as 500 ms", where=f"pvl/encoder.py:{js.lineno}"))
                    if isinstance(v, ast.FormattedValue) and v.format_spec is not None:
                        spec = "".join(str(x.value) for x in v.format_spec.values if isinstance(x, ast.Constant))
                        if "%S.%f" in spec or ".%f" in spec:
                            res.oblige("R3", f"{c}.encode_time `{norm(js, 50)}`: fraction written with %f (six digits)", ok=True)
    # R2 / R4: the zone-offset suffix the ODL-family encoders can emit vs what the ODL-family decoder accepts
    for enc in repo.subclasses("ODLEncoder"):
        c, fn = repo.full_resolved(enc, "encode_time")
        var = [a.arg for a in fn.args.args if a.arg != "self"][0]
        if "utcoffset" not in _attrs_of(fn, var):
            continue      # this class refuses or ignores offsets (PDS3: raises for non-UTC)
        # returned expressions `t + <suffix>`
        suffixes = []
        for r in [n for n in ast.walk(fn) if isinstance(n, ast.Return) and n.value is not None]:
            v = r.value
            if isinstance(v, ast.BinOp) and isinstance(v.op, ast.Add) and isinstance(v.left, ast.Name):
                suffixes.append((r, v.right))
        res.floor(f"{c}.encode_time zone-suffix returns", len(suffixes), 2)
        # decoder side: the suffix of the ODL offset regex (after the leading dt group)
        dc, dfn = repo.full_resolved("ODLDecoder", "decode_datetime")
        pat = None
        from . import predeval as PE0, lang as lang0
        ev0 = PE0.Eval(lang0.Reader(repo, "ODLGrammar", "ODLDecoder").ctx, "ODLDecoder", dc, {})
        for n in ast.walk(dfn):
            if isinstance(n, ast.Call) and norm(n.func) in ("re.fullmatch", "re.match") and n.args:
                # the pattern text: literal, f-string over the grammar, concatenation, class constant (partial evaluator)
                try:
                    pat = ev0.fstring(n.args[0])
                except PE0.Unsupported as x:
                    raise AnalysisError(f"cannot resolve the ODL zone-offset pattern `{norm(n.args[0], 80)}`: {x}")
        if pat is None:
            raise AnalysisError("anchor vanished: the zone-offset regex of ODLDecoder.decode_datetime")
        import re._parser as rp
        import re._constants as rc
        seq = list(rp.parse(pat))
        if not seq or seq[0][0] is not rc.SUBPATTERN:
            raise AnalysisError("the ODL zone-offset regex no longer starts with the (?P<dt>...) group")
        dec_suffix = SL.seq_dfa(seq[1:])
        signs_dec = {SL.REPS[c] for c, t in enumerate(SL.prefix_closure(dec_suffix).trans[0])
                     if t in SL.prefix_closure(dec_suffix).accept}
        # what the reader accepts as a whole: the decoder's own decode_datetime language (partial evaluator)
        from . import predeval as PE, lang
        rd = lang.Reader(repo, "ODLGrammar", "ODLDecoder")
        accepted = PE.accepts(rd.method("decode_datetime"))
        g = rd.grammar
        l_time = SL.union([SL.strptime_dfa(f) for f in g._t_formats])
        classes = (("+hh (hours only)", SL.rx(r"[+-][0-9]{1,2}")), ("+hh:mm (colon before the minutes)", SL.rx(r"[+-][0-9]{1,2}:[0-9]{2}")),
                   ("+hhmm", SL.rx(r"[+-][0-9]{3,4}")))
        written = SL.EMPTY
        unread = 0
        for (r, sfx) in suffixes:
            d = fstring_dfa(sfx, digits=r"[0-9]{2}", fn=fn)
            if d is None:
                res.notes.append(f"R4: suffix `{norm(sfx)}` is not a literal template; not checked")
                unread += 1
                continue
            written = written | d
        rest = written
        for cname_, cl in classes + (("another form", None),):
            part = (written & cl) if cl is not None else rest
            if cl is not None:
                rest = rest - cl
            if part.empty():
                continue
            bad = (SL.concat(l_time, part) - accepted).witnesses(2)
            res.oblige("R4", f"{c}.encode_time: every <time><zone suffix of the form {cname_}> it writes is accepted by ODLDecoder.decode_datetime", ok=not bad)
            if bad:
                res.add(Finding("R4", f"{c}.encode_time", f"zone suffix {cname_}",
                                f"{c}.encode_time writes zone suffixes of the form {cname_}; times such as {bad} "
                                f"are not accepted by ODLDecoder.decode_datetime (offset pattern {pat!r}): the value is "
                                "not read back as a time with that offset", witness=bad[0], where=f"pvl/encoder.py:{fn.lineno}"))
        if unread and written.empty():
            raise AnalysisError(f"R4: none of the zone-suffix returns of {c}.encode_time is a readable template")
        # R2: both signs the reader accepts can be written (or the writer refuses negative offsets)
        from . import canon
        cfn = canon.canon(repo, c, fn, module="encoder")
        lits = {x.value for x in ast.walk(fn) if isinstance(x, ast.Constant) and isinstance(x.value, str)}
        can_minus = any(l.startswith("-") or l == "-" for l in lits)
        tests_sign = any(isinstance(n, ast.Compare) and ("timedelta" in norm(n) or "total_seconds" in norm(n) or "days" in norm(n))
                         and any(isinstance(o, (ast.Lt, ast.Gt, ast.LtE, ast.GtE)) for o in n.ops) for n in ast.walk(cfn))
        # the sign is read off the offset itself: a test of a value that went through abs() (or was negated before) is
        # never negative, so '-' is never written
        def _sign_destroyed():
            absed = set()
            for a_ in ast.walk(fn):
                if isinstance(a_, ast.Assign) and isinstance(a_.value, ast.Call) and norm(a_.value.func) == "abs":
                    for t_ in a_.targets:
                        if isinstance(t_, ast.Name):
                            absed.add((t_.id, a_.lineno))
            for n_ in ast.walk(fn):
                if isinstance(n_, ast.Compare) and any(isinstance(o, (ast.Lt, ast.Gt, ast.LtE, ast.GtE)) for o in n_.ops) \
                        and ("timedelta" in norm(n_) or "total_seconds" in norm(n_) or "days" in norm(n_)):
                    for x_ in ast.walk(n_):
                        if isinstance(x_, ast.Call) and norm(x_.func) == "abs":
                            return n_
                        if isinstance(x_, ast.Name) and any(x_.id == nm and n_.lineno >= ln for nm, ln in absed):
                            return n_
            return None
        destroyed = _sign_destroyed()
        ok = ("-" not in signs_dec) or (can_minus and tests_sign and destroyed is None)
        res.oblige("R2", f"{c}.encode_time can write both signs the reader accepts ({sorted(signs_dec)}) or refuses", ok=ok)
        if not ok:
            if destroyed is not None and can_minus and tests_sign:
                res.add(Finding("R2", f"{c}.encode_time", "sign of the zone offset tested after abs()",
                                f"{c}.encode_time decides the sign with `{norm(destroyed, 60)}`, a value that went through abs(): the "
                                "test never holds, so a time west of UTC is written with '+' and read back as another instant",
                                where=f"pvl/encoder.py:{destroyed.lineno}"))
            else:
                res.add(Finding("R2", f"{c}.encode_time", "sign of the zone offset",
                                f"{c}.encode_time always writes '+' before the offset and never tests its sign: str() of a "
                                "negative timedelta is '-1 day, 19:00:00', so a negative offset is written as "
                                "'+-1 day, 19' -- text no reader accepts", where=f"pvl/encoder.py:{fn.lineno}"))


def rule_decode_side(repo, res):
    from . import canon
    # is_leap_seconds guards a missing pattern
    fn = canon.canon_method(repo, "PVLDecoder", "is_leap_seconds")
    ok = any(isinstance(n, ast.Compare) and isinstance(n.ops[0], ast.IsNot) and norm(n.comparators[0]) == "None" for n in ast.walk(fn))
    res.oblige("LEAP", "PVLDecoder.is_leap_seconds tests each pattern for None before matching", ok=ok)
    if not ok:
        res.add(Finding("LEAP", "PVLDecoder.is_leap_seconds", "None guard", "is_leap_seconds no longer guards against grammars "
                        "without leap-second patterns (ODL, PDS3): AttributeError on every non-date value",
                        where=f"pvl/decoder.py:{fn.lineno}"))
    uses = {norm(n) for n in ast.walk(fn) if isinstance(n, ast.Attribute) and norm(n).startswith("self.grammar.leap_second")
            and norm(n).count(".") == 2}
    ok = uses == {"self.grammar.leap_second_Ymd_re", "self.grammar.leap_second_Yj_re"}
    res.oblige("LEAP", "PVLDecoder.is_leap_seconds consults both leap-second patterns (calendar and day-of-year)", ok=ok)
    if not ok:
        res.add(Finding("LEAP", "PVLDecoder.is_leap_seconds", "patterns", f"is_leap_seconds consults {sorted(uses)}",
                        where=f"pvl/decoder.py:{fn.lineno}"))
    # PVLDecoder.decode_datetime: trial order date, time, datetime; Z -> UTC; default zone
    fn = canon.canon_method(repo, "PVLDecoder", "decode_datetime")
    # outcome terms of decode_datetime (vsa.symx, private helpers interpreted): which format table gave the value, what
    # was applied to it, and how many attempts had failed before
    from . import symx
    from .entryrules import _parse
    X = symx.SymX(repo, "decoder", lambda c: True, cls="PVLDecoder", terms=True)
    outs = X.run(repo.method("PVLDecoder", "decode_datetime"))
    seen_tables = {}
    bad_type, bad_order, other = [], [], []
    for o in outs:
        if o.kind != "return":
            continue
        text = symx.show(o.value)
        caught = sum(1 for e in o.events if e[0] == "caught" and e[1] == "ValueError")
        tree = _parse(text)
        call = None
        if tree is not None:
            for n in ast.walk(tree):
                if isinstance(n, ast.Call) and norm(n.func).split(".")[-1] == "for_try_except" and len(n.args) == 4:
                    call = n
        if call is None:
            from .entryrules import _canon_cond
            leap = any("is_leap_seconds" in a_ and v_ is True for a_, v_ in (_canon_cond(e[1], e[2]) for e in o.events if e[0] == "if"))
            if not (tree is not None and norm(tree) in ("str(_P_value)", "_P_value") and leap):
                other.append(text)
            continue
        table = norm(call.args[3]).replace("_P_", "")
        chain = []
        cur = tree
        while cur is not call:
            if isinstance(cur, ast.Call) and isinstance(cur.func, ast.Attribute):
                chain.append(cur.func.attr)
                cur = cur.func.value
            else:
                chain.append("?")
                break
        chain = chain[::-1]
        seen_tables.setdefault(table, set()).add(tuple(chain))
        want = {"self.grammar.date_formats": ([("date",)], 0), "self.grammar.time_formats": ([("time",), ("time", "replace")], 1),
                "self.grammar.datetime_formats": ([(), ("replace",)], 2)}.get(table)
        if want is None:
            other.append(text)
            continue
        if tuple(chain) not in want[0]:
            bad_type.append((table, ".".join(chain) or "<nothing>"))
        if caught < want[1]:
            bad_order.append((table, caught))
    tabs = sorted(seen_tables)
    ok = tabs == ["self.grammar.date_formats", "self.grammar.datetime_formats", "self.grammar.time_formats"] and not bad_order and not other
    res.oblige("DT", f"PVLDecoder.decode_datetime tries date, time, then datetime formats of the grammar ({len(outs)} outcome paths)", ok=ok)
    if not ok:
        res.add(Finding("DT", "PVLDecoder.decode_datetime", "format tables", f"decode_datetime consults {tabs}"
                        + (f"; tried out of order: {sorted(set(bad_order))}" if bad_order else "")
                        + (f"; other values returned: {sorted(set(other))[:2]}" if other else ""),
                        where=f"pvl/decoder.py:{fn.lineno}"))
    ok = not bad_type
    res.oblige("DT", "PVLDecoder.decode_datetime returns .date() for date formats and .time() for time formats", ok=ok)
    if not ok:
        res.add(Finding("DT", "PVLDecoder.decode_datetime", ".date()/.time()", "a date or time no longer decodes to the matching "
                        f"Python type: {sorted(set(bad_type))}", where=f"pvl/decoder.py:{fn.lineno}"))
    # zone attachment, on the path conditions of decode_datetime and the private helpers it calls: every
    # <value>.replace(tzinfo=Z) happens only when utcoffset() is None; Z = UTC only when the text ends with 'Z';
    # Z = the grammar's default zone only when it does not
    from . import flow, inline
    raw_fn = repo.full("PVLDecoder", "decode_datetime")
    attach = []
    for owner, f_ in inline.closure(repo, "PVLDecoder", raw_fn, module="decoder"):
        for st, conds in flow.stmts_with_conds(f_.body):
            for c in ast.walk(st):
                if isinstance(c, ast.Call) and isinstance(c.func, ast.Attribute) and c.func.attr == "replace" \
                        and any(k.arg == "tzinfo" for k in c.keywords):
                    z = [k.value for k in c.keywords if k.arg == "tzinfo"][0]
                    attach.append((st, conds, norm(z)))

    def off_none(t, p):
        return isinstance(t, ast.Compare) and len(t.ops) == 1 and "utcoffset()" in norm(t.left) and norm(t.comparators[0]) == "None" \
            and ((isinstance(t.ops[0], ast.Is) and p) or (isinstance(t.ops[0], ast.IsNot) and not p))

    def ends_z(pol):
        return lambda t, p: isinstance(t, ast.Call) and isinstance(t.func, ast.Attribute) and t.func.attr == "endswith" \
            and len(t.args) == 1 and isinstance(t.args[0], ast.Constant) and t.args[0].value == "Z" and p == pol
    utc = [(st, c) for st, c, z in attach if "timezone.utc" in z]
    dflt = [(st, c) for st, c, z in attach if "default_timezone" in z]
    ok = bool(utc) and bool(dflt) and all(flow.holds(c, ends_z(True)) for _, c in utc) and all(flow.holds(c, ends_z(False)) for _, c in dflt) \
        and len(utc) + len(dflt) == len(attach)
    res.oblige("DT", "PVLDecoder.decode_datetime: trailing Z -> UTC, otherwise the grammar's default zone (if any)", ok=ok)
    if not ok:
        res.add(Finding("DT", "PVLDecoder.decode_datetime", "zone attachment", "a trailing Z no longer yields UTC or the default "
                        "zone of the grammar is no longer applied", where=f"pvl/decoder.py:{fn.lineno}"))
    guard = bool(attach) and all(flow.holds(c, off_none) for _, c, _ in attach)
    res.oblige("DT", "PVLDecoder.decode_datetime attaches a zone only to values without one", ok=bool(guard))
    if not guard:
        res.add(Finding("DT", "PVLDecoder.decode_datetime", "utcoffset() is None", "zone attachment is no longer guarded by "
                        "`utcoffset() is None`", where=f"pvl/decoder.py:{fn.lineno}"))
    # ODL: offset = sign * (hours, minutes) of the matched groups
    fn = canon.canon_method(repo, "ODLDecoder", "decode_datetime")
    def group(e, name):
        """e is int(<X>[name]) / <X>[name] for a constant group name"""
        if isinstance(e, ast.Call) and norm(e.func) == "int" and len(e.args) == 1 and not e.keywords:
            e = e.args[0]
        return isinstance(e, ast.Subscript) and isinstance(e.slice, ast.Constant) and e.slice.value == name
    tds = [n for n in ast.walk(fn) if isinstance(n, ast.Call) and norm(n.func).split(".")[-1] == "timedelta" and n.keywords]
    ok = any({k.arg for k in t.keywords} == {"hours", "minutes"} and not t.args
             and all(group(k.value, {"hours": "hour", "minutes": "minute"}[k.arg]) and isinstance(k.value, ast.Call) for k in t.keywords)
             for t in tds)
    res.oblige("DT", "ODLDecoder.decode_datetime: offset = timedelta(hours=<hour group>, minutes=<minute group>)", ok=ok)
    if not ok:
        res.add(Finding("DT", "ODLDecoder.decode_datetime", "offset fields", "the zone offset is no longer built from the hour and "
                        "minute groups of the pattern", where=f"pvl/decoder.py:{fn.lineno}"))
    negs = [n for n in ast.walk(fn) if isinstance(n, (ast.If, ast.IfExp)) and isinstance(n.test, ast.Compare) and len(n.test.ops) == 1
            and isinstance(n.test.ops[0], ast.Eq) and group(n.test.left, "sign")
            and isinstance(n.test.comparators[0], ast.Constant) and n.test.comparators[0].value == "-"]
    arm = lambda n: n.body if isinstance(n, ast.If) else [n.body]           # what happens for '-': statements, or the chosen operand
    ok = bool(negs) and any("-1 * " in norm(b) or isinstance(x, ast.UnaryOp) and isinstance(x.op, ast.USub) and not isinstance(x.operand, ast.Constant)
                            for n in negs for b in arm(n) for x in ast.walk(b))
    res.oblige("DT", "ODLDecoder.decode_datetime: a '-' sign negates the offset", ok=ok)
    if not ok:
        res.add(Finding("DT", "ODLDecoder.decode_datetime", "sign", "the sign group of the zone offset no longer negates the "
                        "offset for '-' only", where=f"pvl/decoder.py:{fn.lineno}"))
    # PDS3: resolves past ODLDecoder (no offsets) and rejects sub-millisecond precision on every path
    fn = canon.canon_method(repo, "PDSLabelDecoder", "decode_datetime")
    sup = [n for n in ast.walk(fn) if isinstance(n, ast.Call) and isinstance(n.func, ast.Attribute) and n.func.attr == "decode_datetime"
           and isinstance(n.func.value, ast.Call) and norm(n.func.value.func) == "super"]
    ok = False
    if sup and len({norm(x) for x in sup}) == 1 and sup[0].func.value.args:
        after = norm(sup[0].func.value.args[0])
        c, target = repo.full_resolved("PDSLabelDecoder", "decode_datetime", after=after)
        ok = c == "PVLDecoder"
    res.oblige("PDS", "PDSLabelDecoder.decode_datetime resolves (MRO skip) to PVLDecoder.decode_datetime: no zone offsets", ok=ok)
    if not ok:
        res.add(Finding("PDS", "PDSLabelDecoder.decode_datetime", "super(ODLDecoder, self)", "PDSLabelDecoder.decode_datetime "
                        "no longer skips ODLDecoder.decode_datetime: PDS3 accepts zone offsets", where=f"pvl/decoder.py:{fn.lineno}"))
    ifs = [n for n in fn.body if isinstance(n, ast.If)]
    ok = any("microsecond" in norm(i.test) and any(isinstance(b, ast.Raise) for b in i.body) for i in ifs) and \
        isinstance(fn.body[-1], ast.Return) and fn.body.index(ifs[0]) < len(fn.body) - 1 if ifs else False
    # the test must apply to both kinds of value that have a microsecond field: time and datetime
    if ok:
        guard = [i for i in ifs if "microsecond" in norm(i.test)][0]
        kinds_ok = True
        for c in ast.walk(guard.test):
            if isinstance(c, ast.Call) and isinstance(c.func, ast.Name) and c.func.id == "isinstance" and len(c.args) == 2:
                ty = c.args[1]
                names = {norm(t).split(".")[-1] for t in (ty.elts if isinstance(ty, ast.Tuple) else [ty])}
                # `datetime` in decoder.py is the class (from datetime import datetime); a time is not an instance of it
                kinds_ok = {"time", "datetime"} <= names
            if isinstance(c, ast.Call) and isinstance(c.func, ast.Name) and c.func.id == "hasattr" and len(c.args) == 2 \
                    and isinstance(c.args[1], ast.Constant) and c.args[1].value not in ("microsecond", "second", "minute", "hour"):
                kinds_ok = False
        res.oblige("PDS", "PDSLabelDecoder.decode_datetime: the precision test covers times and date-times alike", ok=kinds_ok)
        if not kinds_ok:
            res.add(Finding("PDS", "PDSLabelDecoder.decode_datetime", "precision test type guard",
                            "the sub-millisecond precision test of PDSLabelDecoder.decode_datetime is guarded by a type test that "
                            "does not cover both datetime.time and datetime.datetime: PDS3 accepts times (or date-times) with "
                            "microsecond precision", where=f"pvl/decoder.py:{guard.lineno}"))
    res.oblige("PDS", "PDSLabelDecoder.decode_datetime raises for sub-millisecond precision before returning", ok=bool(ok))
    if not ok:
        res.add(Finding("PDS", "PDSLabelDecoder.decode_datetime", "precision test", "the sub-millisecond precision test no "
                        "longer precedes the return", where=f"pvl/decoder.py:{fn.lineno}"))
    # PDS3 encoder: refuses non-UTC zones and sub-ms precision
    fn = canon.canon_method(repo, "PDSLabelEncoder", "encode_time")
    raises = [n for n in ast.walk(fn) if isinstance(n, ast.Raise)]
    conds = " ".join(norm(n.test) for n in ast.walk(fn) if isinstance(n, ast.If))
    ok = len(raises) >= 2 and "microsecond" in conds and ("tzinfo" in conds or "utcoffset" in conds)
    res.oblige("PDS", "PDSLabelEncoder.encode_time refuses sub-millisecond precision and non-UTC zones", ok=ok)
    if not ok:
        res.add(Finding("PDS", "PDSLabelEncoder.encode_time", "refusals", "PDSLabelEncoder.encode_time no longer refuses "
                        "sub-millisecond precision or non-UTC zones", where=f"pvl/encoder.py:{fn.lineno}"))
    # every text PDSLabelEncoder.encode_time returns is returned under the UTC test whose other arm refuses
    from . import flow
    sc = flow.stmts_with_conds(fn.body)

    def zone_conds(conds):
        out = set()
        for test, pol in conds:
            if not isinstance(test, ast.expr):
                continue
            while isinstance(test, ast.UnaryOp) and isinstance(test.op, ast.Not):
                test, pol = test.operand, not pol
            if "tzinfo" in norm(test, 400) or "utcoffset" in norm(test, 400):
                out.add((id(test), pol))
        return out
    refusals = [zone_conds(c) for st, c in sc if isinstance(st, ast.Raise) and zone_conds(c)]
    rets = [(st, zone_conds(c)) for st, c in sc if isinstance(st, ast.Return)]
    res.floor("returns of PDSLabelEncoder.encode_time", len(rets), 1)
    for st, zc in rets:
        ok = any((i, not p) in zc for r in refusals for (i, p) in r)
        res.oblige("PDS", f"PDSLabelEncoder.encode_time `{norm(st, 40)}` is reached only under the UTC test whose other arm raises", ok=ok)
        if not ok:
            res.add(Finding("PDS", "PDSLabelEncoder.encode_time", "return outside the UTC test",
                            f"`{norm(st, 60)}` of PDSLabelEncoder.encode_time is reached without the test that refuses non-UTC "
                            "zones: a time with another zone offset is written as if it were UTC (the text denotes another instant)",
                            where=f"pvl/encoder.py:{st.lineno}"))
    # ODL encoder refuses naive times
    fn = canon.canon_method(repo, "ODLEncoder", "encode_time")
    first = [n for n in fn.body if isinstance(n, ast.If)]
    ok = bool(first) and "tzinfo is None" in norm(first[0].test) and any(isinstance(b, ast.Raise) for b in first[0].body)
    res.oblige("ODL", "ODLEncoder.encode_time refuses a time without zone (ODL cannot write local times)", ok=ok)
    if not ok:
        res.add(Finding("ODL", "ODLEncoder.encode_time", "naive refusal", "ODLEncoder.encode_time no longer refuses naive times",
                        where=f"pvl/encoder.py:{fn.lineno}"))
    zero = [n for n in ast.walk(fn) if isinstance(n, ast.If) and "utcoffset() == datetime.timedelta()" in norm(n.test)]
    ok = bool(zero) and any(isinstance(b, ast.Return) and "'Z'" in norm(b) for z in zero for b in z.body)
    res.oblige("ODL", "ODLEncoder.encode_time writes Z for a zero offset", ok=ok)
    if not ok:
        res.add(Finding("ODL", "ODLEncoder.encode_time", "Z for UTC", "a UTC time is no longer written with a trailing Z",
                        where=f"pvl/encoder.py:{fn.lineno}"))
    # encode_date
    fn = canon.canon_method(repo, "PVLEncoder", "encode_date")
    ds = _directives(fn)
    ok = {"Y", "m", "d"} <= ds or {"Y", "j"} <= ds
    res.oblige("R1", "PVLEncoder.encode_date writes year, month and day", ok=ok)
    if not ok:
        res.add(Finding("R1", "PVLEncoder.encode_date", "fields", f"encode_date formats only {sorted(ds)}",
                        where=f"pvl/encoder.py:{fn.lineno}"))


# ------------------------------------------------------------------ TIME-LANG: what a time writer can return
_STRF = {"H": "([01][0-9]|2[0-3])", "M": "[0-5][0-9]", "S": "[0-5][0-9]", "d": "(0[1-9]|[12][0-9]|3[01])", "m": "(0[1-9]|1[0-2])",
         "y": "[0-9]{2}", "Y": "[0-9]{4}", "j": "(00[1-9]|0[1-9][0-9]|[12][0-9]{2}|3[0-5][0-9]|36[0-6])", "f": "[0-9]{6}",
         "z": r"([+-][0-9]{4}(\.[0-9]+)?)?", "%": "%"}          # what strftime writes for each directive


def _strftime_dfa(spec, facts=None):
    """language of value.strftime(spec) / f"{value:spec}" for the numeric directives; *facts* says what the path
    conditions established about the fields: {"second" | "microsecond": "nz" (non-zero) | "z" (zero)}"""
    facts = facts or {}
    out = SL.EPSILON
    i = 0
    while i < len(spec):
        ch = spec[i]
        if ch == "%" and i + 1 < len(spec):
            d = spec[i + 1]
            if d not in _STRF:
                return None
            L = SL.rx(_STRF[d])
            field = {"S": "second", "f": "microsecond"}.get(d)
            if field and facts.get(field) == "nz":
                L = L - SL.rx("0+")
            elif field and facts.get(field) == "z":
                L = L & SL.rx("0+")
            out = SL.concat(out, L)
            i += 2
        else:
            out = SL.concat(out, SL.lit(ch))
            i += 1
    return out


class _Templates:
    """path-wise evaluation of the string a method returns: every local that holds text is a DFA, branches fork,
    raises end the path; integers formatted with a width ({ms:03d}) are digit runs of that width"""

    def __init__(self, repo, cls):
        self.repo, self.cls = repo, cls
        self.unknown = []

    def expr(self, e, env, defcls):
        if isinstance(e, ast.Constant) and isinstance(e.value, str):
            return SL.lit(e.value)
        if isinstance(e, ast.Name):
            return env.get(e.id)
        if isinstance(e, ast.IfExp):
            a, b = self.expr(e.body, env, defcls), self.expr(e.orelse, env, defcls)
            return None if a is None or b is None else a | b
        if isinstance(e, ast.BinOp) and isinstance(e.op, ast.Add):
            a, b = self.expr(e.left, env, defcls), self.expr(e.right, env, defcls)
            return None if a is None or b is None else SL.concat(a, b)
        if isinstance(e, ast.JoinedStr):
            d = SL.EPSILON
            for v in e.values:
                if isinstance(v, ast.Constant):
                    part = SL.lit(str(v.value))
                else:
                    spec = None
                    if v.format_spec is not None:
                        if not all(isinstance(x, ast.Constant) for x in v.format_spec.values):
                            return None
                        spec = "".join(str(x.value) for x in v.format_spec.values)
                    if spec and "%" in spec:
                        part = _strftime_dfa(spec, env.get("$facts"))
                    elif spec and _re.fullmatch(r"0?>?0?([0-9]+)d?", spec):
                        # a zero-padded integer field: its width (a value wider than its field is the business of the
                        # range checks that precede it, e.g. the millisecond test of the PDS3 writer)
                        part = SL.rx("[0-9]{%d}" % int(_re.fullmatch(r"0?>?0?([0-9]+)d?", spec).group(1)))
                    elif spec is None:
                        part = self.expr(v.value, env, defcls)
                    else:
                        part = None
                    if part is None:
                        return None
                d = SL.concat(d, part)
            return d
        if isinstance(e, ast.Call) and isinstance(e.func, ast.Attribute) and e.func.attr == "strftime" and e.args \
                and isinstance(e.args[0], ast.Constant):
            return _strftime_dfa(str(e.args[0].value), env.get("$facts"))
        if isinstance(e, ast.Call) and isinstance(e.func, ast.Attribute) and e.func.attr in ("rstrip", "lstrip", "strip") \
                and len(e.args) == 1 and isinstance(e.args[0], ast.Constant) and isinstance(e.args[0].value, str) and not e.keywords:
            # the exact image of the language under the strip (a character *set* is stripped, not a suffix)
            base = self.expr(e.func.value, env, defcls)
            if base is None:
                return None
            if e.func.attr in ("rstrip", "strip"):
                base = SL.rstrip_image(base, e.args[0].value)
            if e.func.attr in ("lstrip", "strip"):
                base = SL.lstrip_image(base, e.args[0].value)
            return base
        if isinstance(e, ast.Call) and isinstance(e.func, ast.Attribute) and norm(e.func.value) in ("super()", "self") \
                and e.func.attr.startswith("encode_"):
            after = defcls if norm(e.func.value) == "super()" else None
            c, fn = self.repo.resolve_method(self.cls, e.func.attr, after=after)
            if fn is None:
                return None
            outs = list(self.run(self.repo.full_resolved(self.cls, e.func.attr, after)[1], c))
            return SL.union(outs) if outs else None
        return None

    def run(self, fn, defcls):
        yield from self.block(list(fn.body), {}, defcls)

    @staticmethod
    def field_facts(test, facts):
        """[(facts when the test holds | None if it cannot, facts when it fails | None)] -- the test is read only as far
        as it is the truth of <value>.second / <value>.microsecond, `not`, and `or` / `and` of those; anything else
        leaves the facts as they are on both sides"""
        def field_of(t):
            if isinstance(t, ast.Attribute) and t.attr in ("second", "microsecond"):
                return t.attr
            return None

        def ev(t, facts):
            """list of (truth, facts) alternatives"""
            f = field_of(t)
            if f:
                known = facts.get(f)
                out = []
                if known != "z":
                    out.append((True, dict(facts, **{f: "nz"})))
                if known != "nz":
                    out.append((False, dict(facts, **{f: "z"})))
                return out
            if isinstance(t, ast.UnaryOp) and isinstance(t.op, ast.Not):
                return [(None if tr is None else (not tr), fa) for tr, fa in ev(t.operand, facts)]
            if isinstance(t, ast.BoolOp):
                alts = [(None, facts)]
                is_or = isinstance(t.op, ast.Or)
                for v in t.values:
                    nxt = []
                    for tr, fa in alts:
                        if tr is not None:          # already decided (short circuit)
                            nxt.append((tr, fa))
                            continue
                        for tr2, fa2 in ev(v, fa):
                            if tr2 is None:
                                nxt.append((None, fa2))
                            elif tr2 == is_or:
                                nxt.append((is_or, fa2))
                            else:
                                nxt.append((None, fa2))     # go on to the next operand
                    alts = nxt
                # undecided after the last operand: the value of the last operand decided it the other way
                return [((not is_or) if tr is None else tr, fa) for tr, fa in alts] if all(field_of(v) or isinstance(v, (ast.UnaryOp, ast.BoolOp)) for v in t.values) \
                    else [(None, facts)]
            return [(None, facts)]
        out = []
        for tr, fa in ev(test, facts):
            if tr is None:
                out.append((fa, fa))
            elif tr:
                out.append((fa, None))
            else:
                out.append((None, fa))
        return out

    def block(self, stmts, env, defcls):
        """yields the DFA of every `return <text>` reachable in *stmts* (followed by nothing: callers pass the rest)"""
        if not stmts:
            return
        s, rest = stmts[0], stmts[1:]
        if isinstance(s, ast.Expr):
            yield from self.block(rest, env, defcls)
        elif isinstance(s, ast.Assign) and len(s.targets) == 1 and isinstance(s.targets[0], ast.Name):
            env = dict(env)
            env[s.targets[0].id] = self.expr(s.value, env, defcls)
            yield from self.block(rest, env, defcls)
        elif isinstance(s, ast.Assign):
            env = dict(env)
            for t in s.targets:
                for x in ast.walk(t):
                    if isinstance(x, ast.Name):
                        env[x.id] = None
            yield from self.block(rest, env, defcls)
        elif isinstance(s, ast.AugAssign) and isinstance(s.target, ast.Name) and isinstance(s.op, ast.Add):
            env = dict(env)
            a, b = env.get(s.target.id), self.expr(s.value, env, defcls)
            env[s.target.id] = None if a is None or b is None else SL.concat(a, b)
            yield from self.block(rest, env, defcls)
        elif isinstance(s, ast.If):
            # what the test says about the seconds / microseconds of the value: `if value.microsecond:` ...
            for facts_t, facts_f in self.field_facts(s.test, env.get("$facts") or {}):
                if facts_t is not None:
                    yield from self.block(list(s.body) + rest, dict(env, **{"$facts": facts_t}), defcls)
                if facts_f is not None:
                    yield from self.block(list(s.orelse) + rest, dict(env, **{"$facts": facts_f}), defcls)
        elif isinstance(s, ast.Return):
            d = self.expr(s.value, env, defcls) if s.value is not None else None
            if d is None:
                self.unknown.append(norm(s, 60))
            else:
                yield d
        elif isinstance(s, ast.Raise):
            return
        elif isinstance(s, (ast.Pass, ast.Import, ast.ImportFrom, ast.AugAssign)):
            yield from self.block(rest, env, defcls)
        else:
            raise AnalysisError(f"TIME-LANG: statement `{norm(s, 50)}` in a time writer is not a text-building statement the rule reads")


def rule_time_lang(repo, res, encoders=("PVLEncoder", "PDSLabelEncoder")):
    """TIME-LANG: every text a dialect's encode_time can return (all paths; strftime directives and width-formatted
    integers as digit runs) is a time its own reader accepts.  ODL's zone suffixes are rule R4; here the writers whose
    output has no numeric zone suffix: PVL/ISIS (PVLEncoder) and PDS3."""
    for enc in encoders:
        if not repo.has_cls(enc):
            raise AnalysisError(f"anchor vanished: class {enc}")
        defcls, fn = repo.full_resolved(enc, "encode_time")
        if fn is None:
            raise AnalysisError(f"anchor vanished: {enc}.encode_time")
        t = _Templates(repo, enc)
        outs = list(t.run(fn, defcls))
        if t.unknown or not outs:
            raise AnalysisError(f"TIME-LANG: {enc}.encode_time returns text the rule cannot read: {t.unknown[:2]}")
        W = SL.union(outs)
        from . import lang
        g, d = lang.encoder_pairing(repo, enc)
        rd = lang.Reader(repo, g, d)
        R = rd.classes()["date/time"]
        bad = (W - R).witnesses(3)
        res.oblige("TIME-LANG", f"{enc}.encode_time ({defcls}, {len(outs)} return paths): every text it can write is a time for {d}/{g}", ok=not bad)
        # field widths: hours, minutes and seconds are two digits each, a fraction has at least one digit.  The readers
        # (strptime) also take one-digit fields, so a text such as 12:30:1 loads -- as another instant than the 12:30:10
        # it was written for; a writer that can produce it has cut digits off a fixed-width field
        canon = SL.rx(r"[0-9]{2}:[0-9]{2}(:[0-9]{2}(\.[0-9]+)?)?Z?")
        short = (W - canon).witnesses(3)
        res.oblige("TIME-LANG", f"{enc}.encode_time: hours, minutes and seconds are written with two digits each", ok=not short)
        if short:
            res.add(Finding("TIME-LANG", f"{enc}.encode_time", "writes a time field with other than two digits",
                            f"{enc}.encode_time can return texts such as {short}: a time field is not written with its two digits (or "
                            "a bare decimal point is left), so the text denotes another instant than the value (12:30:1 is read as "
                            "12:30:01) or is not a time at all", witness=short[0], where=f"pvl/encoder.py:{fn.lineno}"))
        if bad:
            res.add(Finding("TIME-LANG", f"{enc}.encode_time", "writes a time its reader does not accept",
                            f"{enc}.encode_time can return texts such as {bad} that {d}.decode_datetime ({g}) does not accept as a "
                            "time: the dumped label does not load, or the value comes back as a string",
                            witness=bad[0], where=f"pvl/encoder.py:{fn.lineno}"))
