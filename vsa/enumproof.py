"""Infeasible raises behind an exhaustive test of an Enum-valued field (conditional triage, computed).

lex_char() ends its ladder over ``preserve["state"]`` with ``raise ValueError("... not a recognized preservation
state")``.  A may-raise analysis reports that plain ValueError at every token read.  It is unreachable when (1) every
dict the lexer module builds with a "state" key gives it a member of the Enum class, and (2) on the path to the
raise the tests on ``<x>["state"]`` have excluded every member.  Both are decided here from the source (path
conditions of vsa.flow on the function with its private tail helpers read in place), so the triage follows the
code when the ladder is moved into a helper or rewritten with early returns -- and disappears when a member is
added that the ladder does not handle."""
import ast

from .core import norm
from . import flow
from .inline import inlined


def enum_members(repo, module):
    out = {}
    for cname, cnode in repo.module(module).classes.items():
        if any(norm(b).split(".")[-1] in ("Enum", "IntEnum", "Flag") for b in cnode.bases):
            out[cname] = [t.id for n in cnode.body if isinstance(n, ast.Assign) for t in n.targets if isinstance(t, ast.Name)]
    return out


def _members_of(expr, ename, repo, module):
    """set of member names denoted by Enum.X / (Enum.X, Enum.Y) / a module constant tuple of those; None otherwise"""
    if isinstance(expr, ast.Name):
        mc = repo.module_constant(module, expr.id)
        if mc is None:
            return None
        expr = mc
    if isinstance(expr, ast.Attribute) and isinstance(expr.value, ast.Name) and expr.value.id == ename:
        return {expr.attr}
    if isinstance(expr, (ast.Tuple, ast.List, ast.Set)):
        out = set()
        for x in expr.elts:
            m = _members_of(x, ename, repo, module)
            if m is None:
                return None
            out |= m
        return out
    return None


def infeasible_raises(repo, module="lexer", field="state"):
    """-> list of (function name that lexically holds the raise, lineno) proven unreachable"""
    enums = enum_members(repo, module)
    mod = repo.module(module)
    # (1) every value stored under the field is a member of one Enum class
    stored = []
    for n in ast.walk(mod.tree):
        if isinstance(n, ast.Call) and isinstance(n.func, ast.Name) and n.func.id == "dict":
            stored += [k.value for k in n.keywords if k.arg == field]
        if isinstance(n, ast.Dict):
            stored += [v for k, v in zip(n.keys, n.values) if isinstance(k, ast.Constant) and k.value == field]
        if isinstance(n, ast.Assign):
            for t in n.targets:
                if isinstance(t, ast.Subscript) and isinstance(t.slice, ast.Constant) and t.slice.value == field:
                    stored.append(n.value)
    ename = None
    for e, members in enums.items():
        if stored and all(isinstance(v, ast.Attribute) and isinstance(v.value, ast.Name) and v.value.id == e and v.attr in members
                          for v in stored):
            ename = e
    if ename is None:
        return []
    universe = set(enums[ename])
    out = []
    owners = {}
    for fname, fn in mod.functions.items():
        for n in ast.walk(fn):
            if isinstance(n, ast.Raise):
                owners[n.lineno] = fname
    for fname, fn in mod.functions.items():
        from .canon import canon
        g = canon(repo, None, fn, module=module)      # helpers read in place, named temporaries substituted
        for st, conds in flow.stmts_with_conds(g.body):
            if not isinstance(st, ast.Raise):
                continue
            remaining = set(universe)
            constrained = False

            def atoms(test, pol):
                while isinstance(test, ast.UnaryOp) and isinstance(test.op, ast.Not):
                    test, pol = test.operand, not pol
                if isinstance(test, ast.BoolOp) and ((isinstance(test.op, ast.And) and pol) or (isinstance(test.op, ast.Or) and not pol)):
                    for v in test.values:
                        yield from atoms(v, pol)
                    return
                yield test, pol
            for test, pol in conds:
                if not isinstance(test, ast.expr):
                    continue
                for t, p in atoms(test, pol):
                    if not (isinstance(t, ast.Compare) and len(t.ops) == 1):
                        continue
                    l, r, op = t.left, t.comparators[0], t.ops[0]
                    if not (isinstance(l, ast.Subscript) and isinstance(l.slice, ast.Constant) and l.slice.value == field):
                        continue
                    ms = _members_of(r, ename, repo, module)
                    if ms is None:
                        continue
                    constrained = True
                    positive = isinstance(op, (ast.Eq, ast.In, ast.Is))
                    if not isinstance(op, (ast.Eq, ast.NotEq, ast.In, ast.NotIn, ast.Is, ast.IsNot)):
                        continue
                    if positive == p:
                        remaining &= ms
                    else:
                        remaining -= ms
            if constrained and not remaining and st.lineno in owners:
                out.append((owners[st.lineno], st.lineno))
    return sorted(set(out))
