"""Triage table: sites a may-analysis reports on the unchanged tree that
reading shows infeasible.  One symbol per entry, one line of reason, keyed by
finding key (rule|function|anchor) -- never wider.
"""

def bundled_quantity_cannot_raise(repo):
    """pvl.collections.Quantity is a plain namedtuple subclass: it defines no __new__/__init__ of its own (or one
    without a raise and without calls other than super().__new__/__init__), so constructing it from (value, str)
    cannot raise ValueError.  Decided from the class body; when it fails the triage entry does not apply."""
    import ast
    if "Quantity" not in repo.classes:
        return False
    ci = repo.classes["Quantity"]
    bases = " ".join(ci.base_exprs)
    if "namedtuple" not in bases and "NamedTuple" not in bases:
        return False
    for m in ("__new__", "__init__", "__post_init__"):
        fn = ci.methods.get(m)
        if fn is None:
            continue
        for n in ast.walk(fn):
            if isinstance(n, ast.Raise):
                return False
            if isinstance(n, ast.Call):
                f = ast.unparse(n.func)
                if not (f.startswith("super(") or f in ("tuple.__new__", "super")):
                    return False
    return True


TABLE = {
    "T3|PVLDecoder.decode_quantity|QuantityError from raise QuantityError [in except ValueError]": {
        "reason": "reachable only when a user-supplied quantity_cls raises ValueError; the five bundled "
                  "configurations use pvl.collections.Quantity, a namedtuple whose constructor cannot raise "
                  "ValueError (checked on the class body: bundled_quantity_cannot_raise); QuantityError is the "
                  "documented result for user classes",
        "properties": None,
        "condition": bundled_quantity_cannot_raise,
    },
    "T3|lex_multichar_comments|ValueError from raise ValueError*": {
        "reason": "unreachable: lex_comment() calls lex_multichar_comments only when char is in c_info['multi_chars'], "
                  "which is non-empty only if the grammar has a multi-character comment pair, so comments is not empty",
        "properties": None,
    },
}


def matches(key, patterns):
    """Exact key, or a pattern ending in '*' that is a prefix of the key (one symbol and exception class; the guard
    text of a raise is not part of the identity of a triaged site)."""
    for p in patterns:
        if p == key or (p.endswith("*") and key.startswith(p[:-1])):
            return True
    return False
