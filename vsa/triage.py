"""Triage table: sites a may-analysis reports on the unchanged tree that
reading shows infeasible.  One symbol per entry, one line of reason, keyed by
finding key (rule|function|anchor) -- never wider.
"""

TABLE = {
    "T3|PVLDecoder.decode_quantity|raise QuantityError [in except ValueError]": {
        "reason": "reachable only when a user-supplied quantity_cls raises ValueError; the five bundled "
                  "configurations use pvl.collections.Quantity, a namedtuple whose constructor cannot raise "
                  "ValueError; QuantityError is the documented result for user classes",
        "properties": None,
    },
}
