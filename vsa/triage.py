"""Triage table: sites a may-analysis reports on the unchanged tree that
reading shows infeasible.  One symbol per entry, one line of reason, keyed by
finding key (rule|function|anchor) -- never wider.
"""

TABLE = {
    "T3|PVLDecoder.decode_quantity|QuantityError from raise QuantityError [in except ValueError]": {
        "reason": "reachable only when a user-supplied quantity_cls raises ValueError; the five bundled "
                  "configurations use pvl.collections.Quantity, a namedtuple whose constructor cannot raise "
                  "ValueError; QuantityError is the documented result for user classes",
        "properties": None,
    },
    "T3|lex_multichar_comments|ValueError from raise ValueError*": {
        "reason": "unreachable: lex_comment() calls lex_multichar_comments only when char is in c_info['multi_chars'], "
                  "which is non-empty only if the grammar has a multi-character comment pair, so comments is not empty",
        "properties": None,
    },
}


def matches(key, patterns):
    """Exact key, or a pattern ending in '*' that is a prefix of the key (one symbol and exception class; the guard
    text of a raise is not part of the identity of a triaged site)."""
    for p in patterns:
        if p == key or (p.endswith("*") and key.startswith(p[:-1])):
            return True
    return False
