"""Rules on the decoders' use of regular-expression groups (GD1, N2)."""
import ast
import re

from .core import Finding, AnalysisError, norm
from . import tables


def _pattern_groups(repo, expr, fn_src_class):
    """Named groups of the pattern a match object comes from, for every grammar class (any grammar instance can
    be paired with any decoder): intersection = names guaranteed to exist."""
    groups_per_grammar = {}
    for g in tables.grammar_classes(repo):
        gi = tables.grammar_instance(repo, g)
        pat = None
        src = norm(expr)
        if src.startswith("self.grammar."):
            rx = getattr(gi, src.split(".")[2], None)
            pat = getattr(rx, "pattern", None)
            if rx is None:
                continue
        elif isinstance(expr, ast.JoinedStr):
            parts = []
            for v in expr.values:
                if isinstance(v, ast.Constant):
                    parts.append(str(v.value))
                else:
                    s2 = norm(v.value)
                    if s2.startswith("self.grammar."):
                        parts.append(str(getattr(gi, s2.split(".")[2])))
                    else:
                        return None
            pat = "".join(parts)
        elif isinstance(expr, ast.Constant) and isinstance(expr.value, str):
            pat = expr.value
        if pat is None:
            return None
        try:
            groups_per_grammar[g] = set(re.compile(pat).groupindex)
        except re.error:
            return None
    return groups_per_grammar


def rule_gd1(repo, res):
    """GD1: every `d["name"]` on a groupdict() refers to a named group that exists in the pattern for every
    grammar class, or is dominated by a `"name" in d` test -- otherwise KeyError escapes the loaders."""
    n = 0
    for dcls in repo.subclasses("PVLDecoder"):
        for m, fn in repo.classes[dcls].methods.items():
            # match variables:  X = <regex>.fullmatch(value)  /  re.fullmatch(<pattern>, value)
            matches = {}
            for x in ast.walk(fn):
                if isinstance(x, ast.Assign) and isinstance(x.targets[0], ast.Name) and isinstance(x.value, ast.Call) \
                        and isinstance(x.value.func, ast.Attribute) and x.value.func.attr in ("fullmatch", "match", "search"):
                    recv = x.value.func.value
                    if norm(recv) == "re":
                        matches[x.targets[0].id] = x.value.args[0]
                    else:
                        matches[x.targets[0].id] = recv
            gdicts = {}
            for x in ast.walk(fn):
                if isinstance(x, ast.Assign) and isinstance(x.targets[0], ast.Name) and isinstance(x.value, ast.Call) \
                        and isinstance(x.value.func, ast.Attribute) and x.value.func.attr == "groupdict" \
                        and isinstance(x.value.func.value, ast.Name) and x.value.func.value.id in matches:
                    gdicts[x.targets[0].id] = matches[x.value.func.value.id]
            for dname, pexpr in gdicts.items():
                per = _pattern_groups(repo, pexpr, dcls)
                if per is None:
                    # loop variable over several regexes (PVLDecoder.decode_non_decimal): resolve through the for loop
                    if isinstance(pexpr, ast.Name):
                        for lp in ast.walk(fn):
                            if isinstance(lp, ast.For) and isinstance(lp.target, ast.Name) and lp.target.id == pexpr.id \
                                    and isinstance(lp.iter, (ast.Tuple, ast.List)):
                                pers = [_pattern_groups(repo, e, dcls) for e in lp.iter.elts]
                                if all(p is not None for p in pers):
                                    per = {}
                                    for p in pers:
                                        for g, names in p.items():
                                            per[g] = per.get(g, names) & names
                    if per is None:
                        res.notes.append(f"GD1: pattern of {dcls}.{m}:{dname} not resolvable; skipped")
                        continue
                guaranteed = set.intersection(*per.values()) if per else set()
                for x in ast.walk(fn):
                    if isinstance(x, ast.Subscript) and isinstance(x.value, ast.Name) and x.value.id == dname \
                            and isinstance(x.slice, ast.Constant) and isinstance(x.slice.value, str) and isinstance(x.ctx, ast.Load):
                        key = x.slice.value
                        n += 1
                        guarded = False
                        a = x
                        while a is not None and a is not fn:
                            p = getattr(a, "_parent", None)
                            if isinstance(p, ast.If) and a in p.body and norm(p.test) in (f"'{key}' in {dname}",):
                                guarded = True
                            if isinstance(p, ast.IfExp) and a is p.body and norm(p.test) in (f"'{key}' in {dname}",):
                                guarded = True
                            a = p
                        ok = key in guaranteed or guarded
                        res.oblige("GD1", f"{dcls}.{m}: {dname}['{key}'] names a group of the pattern for every grammar (or is guarded)", ok=ok)
                        if not ok:
                            lacking = sorted(g for g, names in per.items() if key not in names)
                            res.add(Finding("GD1", f"{dcls}.{m}", f"{dname}['{key}']",
                                            f"{dcls}.{m} reads {dname}['{key}'] without a `'{key}' in {dname}` test, but the "
                                            f"pattern has no group '{key}' for {lacking}: with such a grammar KeyError escapes "
                                            "the decoder's ValueError handlers and the loader", where=f"pvl/decoder.py:{x.lineno}"))
    res.floor("groupdict subscripts in the decoders", n, 8)


def rule_n2(repo, res):
    """N2: the sign, radix and digits groups of a based integer all reach int(...) on every path: a name that
    carries the sign is only ever assigned from the groups (never a constant)."""
    n = 0
    for dcls in repo.subclasses("PVLDecoder"):
        fn = repo.classes[dcls].methods.get("decode_non_decimal")
        if fn is None:
            continue
        rets = [r for r in ast.walk(fn) if isinstance(r, ast.Return) and isinstance(r.value, ast.Call) and norm(r.value.func) == "int"]
        for r in rets:
            n += 1
            call = r.value
            arg = call.args[0] if call.args else None
            base = [k.value for k in call.keywords if k.arg == "base"]
            used = {norm(x) for x in ast.walk(call)}
            # resolve names in the first argument to their definitions
            defs = {}
            for x in ast.walk(fn):
                if isinstance(x, ast.Assign) and isinstance(x.targets[0], ast.Name):
                    defs.setdefault(x.targets[0].id, []).append(x.value)

            def leaves(e):
                if isinstance(e, ast.IfExp):
                    return leaves(e.body) + leaves(e.orelse)
                if isinstance(e, ast.BoolOp):
                    out = []
                    for v in e.values:
                        out += leaves(v)
                    return out
                return [e]
            ok_sign = ok_digits = ok_radix = False
            problems = []
            parts = []
            if isinstance(arg, ast.BinOp) and isinstance(arg.op, ast.Add):
                parts = [arg.left, arg.right]
            for ptn, want in zip(parts, ("sign", "non_decimal")):
                srcs = []
                if isinstance(ptn, ast.Name):
                    for d in defs.get(ptn.id, []):
                        srcs += leaves(d)
                else:
                    srcs = leaves(ptn)
                good = bool(srcs) and all(isinstance(s_, ast.Subscript) and isinstance(s_.slice, ast.Constant)
                                          and (want in str(s_.slice.value)) for s_ in srcs)
                if want == "sign":
                    ok_sign = good
                    if not good:
                        problems.append("the sign operand is `" + ", ".join(sorted({norm(s_) for s_ in srcs})) + "` on some path")
                else:
                    ok_digits = good
                    if not good:
                        problems.append("the digits operand does not come from the non_decimal group")
            ok_radix = bool(base) and "['radix']" in norm(base[0])
            if not ok_radix:
                problems.append("base= does not come from the radix group")
            ok = ok_sign and ok_digits and ok_radix
            res.oblige("N2", f"{dcls}.decode_non_decimal: int(<sign group> + <digits group>, base=int(<radix group>)) on every path", ok=ok)
            if not ok:
                res.add(Finding("N2", f"{dcls}.decode_non_decimal", "sign/digits/radix flow",
                                f"{dcls}.decode_non_decimal does not build the value from the sign, digits and radix groups on "
                                f"every path ({'; '.join(problems)}): a written sign (or radix) is dropped for some grammar/"
                                "decoder pairing and the integer has the wrong value", where=f"pvl/decoder.py:{r.lineno}"))
    res.floor("decode_non_decimal int() returns", n, 3)
