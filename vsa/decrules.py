"""Rules on the decoders' use of regular-expression groups (GD1, N2)."""
import ast
import re

from .core import Finding, AnalysisError, norm
from . import tables


def _pattern_groups(repo, expr, fn_src_class):
    """Named groups of the pattern a match object comes from, for every grammar class (any grammar instance can
    be paired with any decoder): intersection = names guaranteed to exist."""
    groups_per_grammar = {}
    for g in tables.grammar_classes(repo):
        gi = tables.grammar_instance(repo, g)
        pat = None
        src = norm(expr)
        if src.startswith("self.grammar."):
            rx = getattr(gi, src.split(".")[2], None)
            pat = getattr(rx, "pattern", None)
            if rx is None:
                continue
        elif isinstance(expr, ast.JoinedStr):
            parts = []
            for v in expr.values:
                if isinstance(v, ast.Constant):
                    parts.append(str(v.value))
                else:
                    s2 = norm(v.value)
                    if s2.startswith("self.grammar."):
                        parts.append(str(getattr(gi, s2.split(".")[2])))
                    else:
                        return None
            pat = "".join(parts)
        elif isinstance(expr, ast.Constant) and isinstance(expr.value, str):
            pat = expr.value
        if pat is None:
            return None
        try:
            groups_per_grammar[g] = set(re.compile(pat).groupindex)
        except re.error:
            return None
    return groups_per_grammar


def _decoder_functions(repo):
    """(owner class or None, name, fn) for every function of decoder.py."""
    mod = repo.module("decoder")
    out = []
    from .inline import inline_all
    log = []
    for name, fn in mod.functions.items():
        out.append((None, name, inline_all(repo, None, fn, module="decoder", log=log)))
    for cname, cnode in mod.classes.items():
        for n in cnode.body:
            if isinstance(n, ast.FunctionDef):
                out.append((cname, n.name, inline_all(repo, cname, n, module="decoder", log=log)))
    # a private thin helper that was read in place at its call sites is judged there, not on its own
    # (its parameters stand for the caller's groups)
    return [(o, n, f) for (o, n, f) in out if not (n.startswith("_") and n in log)]


def _match_patterns(repo, fn):
    """match variables of *fn* -> pattern expression (receiver of .fullmatch or first argument of re.fullmatch)."""
    matches = {}
    for x in ast.walk(fn):
        if isinstance(x, ast.Assign) and isinstance(x.targets[0], ast.Name) and isinstance(x.value, ast.Call) \
                and isinstance(x.value.func, ast.Attribute) and x.value.func.attr in ("fullmatch", "match", "search"):
            recv = x.value.func.value
            matches[x.targets[0].id] = x.value.args[0] if norm(recv) == "re" else recv
    return matches


def _resolve_groups(repo, fn, pexpr, owner):
    per = _pattern_groups(repo, pexpr, owner)
    if per is None and isinstance(pexpr, ast.Name):
        for lp in ast.walk(fn):
            if isinstance(lp, ast.For) and isinstance(lp.target, ast.Name) and lp.target.id == pexpr.id \
                    and isinstance(lp.iter, (ast.Tuple, ast.List)):
                pers = [_pattern_groups(repo, e, owner) for e in lp.iter.elts]
                if all(p is not None for p in pers):
                    per = {}
                    for p in pers:
                        for g, names in p.items():
                            per[g] = per.get(g, names) & names
    return per


def groupdict_sites(repo):
    """(owner, function name, fn, groupdict variable, {grammar: group names} or None) for each groupdict() result,
    following match objects passed to helper functions of the same module."""
    funcs = _decoder_functions(repo)
    sites = []
    # helpers: functions that call .groupdict() on a parameter
    helper_params = {}
    for owner, name, fn in funcs:
        params = [a.arg for a in fn.args.args]
        for x in ast.walk(fn):
            if isinstance(x, ast.Assign) and isinstance(x.targets[0], ast.Name) and isinstance(x.value, ast.Call) \
                    and isinstance(x.value.func, ast.Attribute) and x.value.func.attr == "groupdict" \
                    and isinstance(x.value.func.value, ast.Name):
                mv = x.value.func.value.id
                matches = _match_patterns(repo, fn)
                if mv in matches:
                    sites.append((owner, name, fn, x.targets[0].id, _resolve_groups(repo, fn, matches[mv], owner)))
                elif mv in params:
                    helper_params[name] = (owner, fn, x.targets[0].id, params.index(mv))
    # callers of helpers
    for hname, (howner, hfn, dname, pidx) in helper_params.items():
        per_all = None
        ncallers = 0
        for owner, name, fn in funcs:
            matches = _match_patterns(repo, fn)
            for c in ast.walk(fn):
                if isinstance(c, ast.Call) and ((isinstance(c.func, ast.Name) and c.func.id == hname) or
                                                (isinstance(c.func, ast.Attribute) and c.func.attr == hname)):
                    # positional index: methods drop self
                    idx = pidx - (1 if (howner is not None and isinstance(c.func, ast.Attribute) and
                                        "staticmethod" not in [norm(d) for d in hfn.decorator_list]) else 0)
                    if isinstance(c.func, ast.Attribute) and howner is not None and "staticmethod" in [norm(d) for d in hfn.decorator_list]:
                        idx = pidx
                    if 0 <= idx < len(c.args) and isinstance(c.args[idx], ast.Name) and c.args[idx].id in matches:
                        per = _resolve_groups(repo, fn, matches[c.args[idx].id], owner)
                        ncallers += 1
                        if per is None:
                            per_all = None
                            break
                        if per_all is None:
                            per_all = dict(per)
                        else:
                            for g in per:
                                per_all[g] = per_all.get(g, per[g]) & per[g]
        sites.append((howner, hname, hfn, dname, per_all if ncallers else None))
    return sites


def rule_gd1(repo, res):
    """GD1: every `d["name"]` on a groupdict() refers to a named group that exists in the pattern for every
    grammar class, or is dominated by a `"name" in d` test -- otherwise KeyError escapes the loaders."""
    n = 0
    for owner, m, fn, dname, per in groupdict_sites(repo):
        q = f"{owner}.{m}" if owner else m
        if per is None:
            res.notes.append(f"GD1: pattern of {q}:{dname} not resolvable; skipped")
            continue
        guaranteed = set.intersection(*per.values()) if per else set()
        conds_of = None
        for x in ast.walk(fn):
            if isinstance(x, ast.Subscript) and isinstance(x.value, ast.Name) and x.value.id == dname \
                    and isinstance(x.slice, ast.Constant) and isinstance(x.slice.value, str) and isinstance(x.ctx, ast.Load):
                key = x.slice.value
                n += 1
                guarded = False
                a = x
                while a is not None and a is not fn:
                    p = getattr(a, "_parent", None)
                    if isinstance(p, ast.If) and a in p.body and norm(p.test) in (f"'{key}' in {dname}",):
                        guarded = True
                    if isinstance(p, ast.IfExp) and a is p.body and norm(p.test) in (f"'{key}' in {dname}",):
                        guarded = True
                    if isinstance(p, ast.IfExp) and a is p.orelse and norm(p.test) in (f"'{key}' not in {dname}",):
                        guarded = True
                    a = p
                if not guarded:
                    # path conditions of the statement that holds the access (guard clauses with early exits included)
                    from . import flow as _flow
                    if conds_of is None:
                        conds_of = _flow.conds_map(fn.body)
                    a = x
                    while a is not None and id(a) not in conds_of:
                        a = getattr(a, "_parent", None)

                    def has_key(test, pol, key=key):
                        if isinstance(test, ast.Compare) and len(test.ops) == 1 and isinstance(test.left, ast.Constant) and test.left.value == key \
                                and isinstance(test.comparators[0], ast.Name) and test.comparators[0].id == dname:
                            return (isinstance(test.ops[0], ast.In) and pol) or (isinstance(test.ops[0], ast.NotIn) and not pol)
                        return False
                    if a is not None and _flow.holds(conds_of[id(a)], has_key):
                        guarded = True
                ok = key in guaranteed or guarded
                res.oblige("GD1", f"{q}: {dname}['{key}'] names a group of the pattern for every grammar (or is guarded)", ok=ok)
                if not ok:
                    lacking = sorted(g for g, names in per.items() if key not in names)
                    res.add(Finding("GD1", q, f"{dname}['{key}']",
                                    f"{q} reads {dname}['{key}'] without a `'{key}' in {dname}` test, but the "
                                    f"pattern has no group '{key}' for {lacking}: with such a grammar KeyError escapes "
                                    "the decoder's ValueError handlers and the loader", where=f"pvl/decoder.py:{x.lineno}"))
    res.floor("groupdict subscripts in the decoders", n, 6)


def rule_n2(repo, res):
    """N2: the sign, radix and digits groups of a based integer all reach int(...) on every path: a name that
    carries the sign is only ever assigned from the groups (never a constant)."""
    n = 0
    for owner, fname, fn in _decoder_functions(repo):
        dcls = owner or "decoder"
        rets = [r for r in ast.walk(fn) if isinstance(r, ast.Return) and isinstance(r.value, ast.Call) and norm(r.value.func) == "int"
                and any(k.arg == "base" for k in r.value.keywords)
                and any(isinstance(x, ast.Subscript) for x in ast.walk(r.value))]
        if not rets:
            continue
        for r in rets:
            n += 1
            call = r.value
            arg = call.args[0] if call.args else None
            base = [k.value for k in call.keywords if k.arg == "base"]
            used = {norm(x) for x in ast.walk(call)}
            # resolve names in the first argument to their definitions
            defs = {}
            for x in ast.walk(fn):
                if isinstance(x, ast.Assign) and isinstance(x.targets[0], ast.Name):
                    defs.setdefault(x.targets[0].id, []).append(x.value)
                # a, b = <x>, <y>
                if isinstance(x, ast.Assign) and isinstance(x.targets[0], ast.Tuple) and isinstance(x.value, ast.Tuple) \
                        and len(x.targets[0].elts) == len(x.value.elts):
                    for t_, v_ in zip(x.targets[0].elts, x.value.elts):
                        if isinstance(t_, ast.Name):
                            defs.setdefault(t_.id, []).append(v_)

            def group_name(e):
                """constant group name of <groups>[name] / <groups>.get(name, default), else None"""
                if isinstance(e, ast.Subscript) and isinstance(e.slice, ast.Constant):
                    return str(e.slice.value)
                if isinstance(e, ast.Call) and isinstance(e.func, ast.Attribute) and e.func.attr == "get" and e.args \
                        and isinstance(e.args[0], ast.Constant):
                    return str(e.args[0].value)
                return None

            def leaves(e, depth=0):
                if isinstance(e, ast.Name) and e.id in defs and depth < 4:
                    out = []
                    for d_ in defs[e.id]:
                        out += leaves(d_, depth + 1)
                    return out
                if isinstance(e, ast.IfExp):
                    return leaves(e.body) + leaves(e.orelse)
                if isinstance(e, ast.BoolOp):
                    out = []
                    for v in e.values:
                        out += leaves(v)
                    return out
                return [e]
            ok_sign = ok_digits = ok_radix = False
            problems = []
            parts = []
            if isinstance(arg, ast.BinOp) and isinstance(arg.op, ast.Add):
                parts = [arg.left, arg.right]
            for ptn, want in zip(parts, ("sign", "non_decimal")):
                srcs = []
                if isinstance(ptn, ast.Name):
                    for d in defs.get(ptn.id, []):
                        srcs += leaves(d)
                else:
                    srcs = leaves(ptn)
                good = bool(srcs) and all(group_name(s_) is not None and (want in group_name(s_)) for s_ in srcs)
                if want == "sign":
                    ok_sign = good
                    if not good:
                        problems.append("the sign operand is `" + ", ".join(sorted({norm(s_) for s_ in srcs})) + "` on some path")
                else:
                    ok_digits = good
                    if not good:
                        problems.append("the digits operand does not come from the non_decimal group")
            ok_radix = bool(base) and "['radix']" in norm(base[0])
            if not ok_radix:
                problems.append("base= does not come from the radix group")
            ok = ok_sign and ok_digits and ok_radix
            res.oblige("N2", f"{dcls}.{fname}: int(<sign group> + <digits group>, base=int(<radix group>)) on every path", ok=ok)
            if not ok:
                res.add(Finding("N2", f"{dcls}.{fname}", "sign/digits/radix flow",
                                f"{dcls}.{fname} does not build the value from the sign, digits and radix groups on "
                                f"every path ({'; '.join(problems)}): a written sign (or radix) is dropped for some grammar/"
                                "decoder pairing and the integer has the wrong value", where=f"pvl/decoder.py:{r.lineno}"))
    res.floor("based-integer int(..., base=...) returns in decoder.py", n, 1)


def rule_fmt(repo, res, modules=("parser", "lexer", "decoder", "token", "exceptions", "__init__")):
    """FMT: str.format() is applied to constant templates only.  A template that already contains interpolated
    run-time text (an f-string, or adjacent literals one of which is an f-string: `'... {}' f'{t}'.format(x)` parses as
    one joined string) turns braces of the *label text* into replacement fields: KeyError / IndexError / AttributeError
    escape the loader for a token such as "{b}"."""
    n = 0
    for mname in modules:
        if mname not in repo.modules:
            continue
        for x in ast.walk(repo.module(mname).tree):
            if isinstance(x, ast.Call) and isinstance(x.func, ast.Attribute) and x.func.attr in ("format", "format_map"):
                recv = x.func.value
                n += 1
                dyn = any(isinstance(y, ast.FormattedValue) for y in ast.walk(recv)) if isinstance(recv, (ast.JoinedStr, ast.BinOp)) else False
                res.oblige("FMT", f"pvl/{mname}.py: `{norm(x, 50)}` formats a constant template", ok=not dyn, nontrivial=False)
                if dyn:
                    res.add(Finding("FMT", f"{mname}", f"format() on a template with interpolated text",
                                    f"`{norm(x, 80)}` in pvl/{mname}.py applies .format() to a string that already holds interpolated "
                                    "run-time text: braces in that text (token text comes from the label) are read as replacement fields, "
                                    "so KeyError / IndexError / AttributeError escape instead of the documented error types",
                                    where=f"pvl/{mname}.py:{x.lineno}"))
    res.oblige("FMT", f"{n} str.format() call(s) on the load path examined", ok=True, nontrivial=False)


def rule_real_ops(repo, res):
    """REAL-OPS: what the caller's real class returns is handed on, not computed with: in decode_decimal, a comparison or
    arithmetic on the value made by `self.real_cls(...)` (`real != real`, `abs(real) == float("inf")`) lies inside the try
    that turns decimal.InvalidOperation into ValueError -- or does not occur.  With real_cls=Decimal such operations raise
    InvalidOperation for a signalling NaN (`sNaN`), an ArithmeticError that no handler of the loader catches."""
    import ast
    from .core import Finding, norm
    n = 0
    for cname in sorted(repo.subclasses("PVLDecoder")):
        fn = repo.classes[cname].methods.get("decode_decimal")
        if fn is None:
            continue
        reals = set()
        for a in ast.walk(fn):
            if isinstance(a, ast.Assign) and isinstance(a.value, ast.Call) and norm(a.value.func) == "self.real_cls":
                for t in a.targets:
                    if isinstance(t, ast.Name):
                        reals.add(t.id)
        for x in ast.walk(fn):
            uses = isinstance(x, (ast.Compare, ast.BinOp, ast.UnaryOp)) or (isinstance(x, ast.Call) and norm(x.func) in ("abs", "round", "float", "int", "math.isnan", "math.isinf", "math.isfinite"))
            if not uses or not any(isinstance(y, ast.Name) and y.id in reals for y in ast.iter_child_nodes(x) if not isinstance(y, ast.operator)) \
                    and not (isinstance(x, ast.Call) and any(isinstance(y, ast.Name) and y.id in reals for y in x.args)):
                continue
            n += 1
            covered = False
            p = x
            while p is not None and p is not fn:
                q = getattr(p, "_parent", None)
                if isinstance(q, ast.Try) and p in q.body and any(
                        h.type is None or any(k in norm(h.type) for k in ("InvalidOperation", "ArithmeticError", "Exception")) for h in q.handlers):
                    covered = True
                p = q
            res.oblige("REAL-OPS", f"{cname}.decode_decimal: `{norm(x, 40)}` on the real_cls value is covered by the InvalidOperation handler", ok=covered)
            if not covered:
                res.add(Finding("REAL-OPS", f"{cname}.decode_decimal", f"`{norm(x, 40)}` outside the guarded body",
                                f"{cname}.decode_decimal computes `{norm(x, 50)}` with the value the caller's real class returned, outside the "
                                "try that converts decimal.InvalidOperation: with real_cls=Decimal and a signalling NaN this raises "
                                "InvalidOperation (an ArithmeticError), which escapes the loader", where=f"pvl/decoder.py:{x.lineno}"))
    res.oblige("REAL-OPS", f"{n} operation(s) on real_cls values in decode_decimal examined", ok=True, nontrivial=False)
