"""String languages (DESIGN 2.7): regex syntax tree -> NFA -> DFA over an
explicit alphabet of representative characters; product, complement,
concatenation, prefix closure, Moore minimisation, shortest witnesses.

No regular expression is ever *matched*; patterns are parsed with the
standard library's own parser (re._parser) and translated.
"""
import re
import re._parser as rp
import re._constants as rc
import _strptime
from collections import deque

from .core import AnalysisError

# every ASCII code point + one representative per non-ASCII class that any predicate in play can tell apart:
# C1 control, no-break space, Latin-1 symbol, Latin-1 letter, letter above U+00FF, non-ASCII decimal digit,
# Unicode line separator
REPS = [chr(i) for i in range(128)] + ["\x85", "\xa0", "\xd7", "\xe9", "\u0100", "\u0663", "\u2028"]
NSYM = len(REPS)
IDX = {c: i for i, c in enumerate(REPS)}
ALLSYMS = frozenset(range(NSYM))


def syms(chars):
    return frozenset(IDX[c] for c in chars if c in IDX)


def chars_where(pred):
    return frozenset(i for i, c in enumerate(REPS) if pred(c))


class DFA:
    """Complete DFA; states 0..n-1, start 0; trans[i] is a tuple indexed by symbol."""
    __slots__ = ("trans", "accept")

    def __init__(self, trans, accept):
        self.trans = trans
        self.accept = frozenset(accept)

    @staticmethod
    def from_nfa(nfa, start, final):
        eps, moves = nfa.eps, nfa.moves

        def closure(S):
            S = set(S)
            stack = list(S)
            while stack:
                s = stack.pop()
                for t in eps.get(s, ()):
                    if t not in S:
                        S.add(t)
                        stack.append(t)
            return frozenset(S)
        start_s = closure({start})
        idx = {start_s: 0}
        trans = [None]
        accept = set()
        q = deque([start_s])
        while q:
            S = q.popleft()
            i = idx[S]
            if final in S:
                accept.add(i)
            by = [None] * NSYM
            for s in S:
                for (cs, t) in moves.get(s, ()):
                    for c in cs:
                        if by[c] is None:
                            by[c] = {t}
                        else:
                            by[c].add(t)
            row = []
            cache = {}
            for c in range(NSYM):
                key = frozenset(by[c]) if by[c] else frozenset()
                T = cache.get(key)
                if T is None:
                    T = closure(key)
                    cache[key] = T
                j = idx.get(T)
                if j is None:
                    j = len(trans)
                    idx[T] = j
                    trans.append(None)
                    q.append(T)
                row.append(j)
            trans[i] = tuple(row)
        return DFA(trans, accept).minimize()

    def complement(self):
        return DFA(self.trans, set(range(len(self.trans))) - self.accept)

    def product(self, other, op):
        idx = {(0, 0): 0}
        trans = [None]
        accept = set()
        q = deque([(0, 0)])
        ta, tb = self.trans, other.trans
        aa, ab = self.accept, other.accept
        while q:
            a, b = q.popleft()
            i = idx[(a, b)]
            if op(a in aa, b in ab):
                accept.add(i)
            row = []
            ra, rb = ta[a], tb[b]
            for c in range(NSYM):
                n = (ra[c], rb[c])
                j = idx.get(n)
                if j is None:
                    j = len(trans)
                    idx[n] = j
                    trans.append(None)
                    q.append(n)
                row.append(j)
            trans[i] = tuple(row)
        return DFA(trans, accept).minimize()

    def minimize(self):
        """Moore partition refinement (reachable states only by construction)."""
        n = len(self.trans)
        part = [1 if i in self.accept else 0 for i in range(n)]
        nblocks = len(set(part))
        while True:
            sig, new = {}, []
            for i in range(n):
                row = self.trans[i]
                key = (part[i],) + tuple(part[t] for t in row)
                b = sig.get(key)
                if b is None:
                    b = len(sig)
                    sig[key] = b
                new.append(b)
            part = new
            if len(sig) == nblocks:
                break
            nblocks = len(sig)
        remap = {part[0]: 0}
        for b in part:
            if b not in remap:
                remap[b] = len(remap)
        trans = [None] * len(remap)
        accept = set()
        for i in range(n):
            b = remap[part[i]]
            if trans[b] is None:
                trans[b] = tuple(remap[part[t]] for t in self.trans[i])
            if i in self.accept:
                accept.add(b)
        return DFA(trans, accept)

    def __and__(self, o):
        return self.product(o, lambda x, y: x and y)

    def __or__(self, o):
        return self.product(o, lambda x, y: x or y)

    def __sub__(self, o):
        return self.product(o, lambda x, y: x and not y)

    def __invert__(self):
        return self.complement()

    def witness(self):
        """Shortest accepted string or None; prefers letters/digits for readability."""
        order = sorted(range(NSYM), key=lambda i: (not REPS[i].isalnum(), not REPS[i].isascii(), REPS[i]))
        prev = {0: None}
        q = deque([0])
        while q:
            s = q.popleft()
            if s in self.accept:
                out = []
                while prev[s] is not None:
                    s, c = prev[s]
                    out.append(REPS[c])
                return "".join(reversed(out))
            row = self.trans[s]
            for c in order:
                t = row[c]
                if t not in prev:
                    prev[t] = (s, c)
                    q.append(t)
        return None

    def witnesses(self, k=4):
        res = []
        d = self
        for _ in range(k):
            w = d.witness()
            if w is None:
                break
            res.append(w)
            d = d - lit(w)
        return res

    def empty(self):
        return not self.accept or self.witness() is None

    def accepts(self, w):
        """Membership of a concrete string (characters outside REPS are mapped to their class representative)."""
        s = 0
        for ch in w:
            s = self.trans[s][IDX[rep_of(ch)]]
        return s in self.accept

    def nstates(self):
        return len(self.trans)


def rep_of(ch):
    if ch in IDX:
        return ch
    o = ord(ch)
    if ch.isdigit():
        return "\u0663"
    if ch in ("\u2028", "\u2029"):
        return " "
    if 0x80 <= o <= 0x9f:
        return "\x85"
    if ch.isspace():
        return "\xa0"
    if ch.isalpha():
        return "\xe9" if o <= 255 else "\u0100"
    return "\xd7"


class NFA:
    def __init__(self):
        self.n = 0
        self.eps = {}
        self.moves = {}

    def new(self):
        self.n += 1
        return self.n - 1

    def e(self, a, b):
        self.eps.setdefault(a, set()).add(b)

    def m(self, a, cs, b):
        cs = frozenset(cs)
        if cs:
            self.moves.setdefault(a, []).append((cs, b))


def _cat_digit(c):
    return c.isdigit()      # re \d is Unicode-aware for str patterns


CATS = {
    rc.CATEGORY_DIGIT: chars_where(_cat_digit),
    rc.CATEGORY_NOT_DIGIT: chars_where(lambda c: not _cat_digit(c)),
    rc.CATEGORY_SPACE: chars_where(lambda c: c.isspace()),
    rc.CATEGORY_NOT_SPACE: chars_where(lambda c: not c.isspace()),
    rc.CATEGORY_WORD: chars_where(lambda c: c.isalnum() or c == "_"),
    rc.CATEGORY_NOT_WORD: chars_where(lambda c: not (c.isalnum() or c == "_")),
}


def _case(cs):
    out = set(cs)
    for i in cs:
        c = REPS[i]
        for v in (c.upper(), c.lower()):
            if v in IDX:
                out.add(IDX[v])
    return frozenset(out)


def charset(items, ic=False):
    neg = False
    cs = set()
    for op, av in items:
        if op is rc.NEGATE:
            neg = True
        elif op is rc.LITERAL:
            if chr(av) in IDX:
                cs.add(IDX[chr(av)])
        elif op is rc.RANGE:
            cs |= {i for i, c in enumerate(REPS) if av[0] <= ord(c) <= av[1]}
        elif op is rc.CATEGORY:
            if av not in CATS:
                raise AnalysisError(f"regex category {av} not supported")
            cs |= CATS[av]
        else:
            raise AnalysisError(f"regex set item {op} not supported")
    if ic:
        cs = _case(cs)
    return (ALLSYMS - cs) if neg else frozenset(cs)


def build(nfa, seq, start, ic):
    cur = start
    for op, av in seq:
        nxt = nfa.new()
        if op is rc.LITERAL:
            cs = syms([chr(av)])
            nfa.m(cur, _case(cs) if ic else cs, nxt)
        elif op is rc.NOT_LITERAL:
            nfa.m(cur, ALLSYMS - syms([chr(av)]), nxt)
        elif op is rc.ANY:
            nfa.m(cur, ALLSYMS - syms(["\n"]), nxt)
        elif op is rc.IN:
            nfa.m(cur, charset(av, ic), nxt)
        elif op is rc.BRANCH:
            for alt in av[1]:
                end = build(nfa, alt, cur, ic)
                nfa.e(end, nxt)
        elif op is rc.SUBPATTERN:
            end = build(nfa, av[3], cur, ic)
            nfa.e(end, nxt)
        elif op in (rc.MAX_REPEAT, rc.MIN_REPEAT):
            lo, hi, sub = av
            c = cur
            for _ in range(lo):
                c = build(nfa, sub, c, ic)
            if hi is rc.MAXREPEAT:
                loop = nfa.new()
                nfa.e(c, loop)
                end = build(nfa, sub, loop, ic)
                nfa.e(end, loop)
                nfa.e(loop, nxt)
            else:
                nfa.e(c, nxt)
                for _ in range(hi - lo):
                    c = build(nfa, sub, c, ic)
                    nfa.e(c, nxt)
        elif op is rc.CATEGORY:
            if av not in CATS:
                raise AnalysisError(f"regex category {av} not supported")
            nfa.m(cur, CATS[av], nxt)
        elif op is rc.AT:
            # anchors: only meaningful at the ends with fullmatch semantics
            nfa.e(cur, nxt)
        else:
            raise AnalysisError(f"regex opcode {op} not supported")
        cur = nxt
    return cur


_RX = {}


def rx(pattern, ic=False):
    """DFA of the language fully matched by *pattern*."""
    key = (pattern, ic)
    if key in _RX:
        return _RX[key]
    try:
        parsed = rp.parse(pattern)
    except re.error as e:
        raise AnalysisError(f"regular expression {pattern!r} does not parse: {e}")
    if parsed.state.flags & re.IGNORECASE:
        ic = True
    nfa = NFA()
    s = nfa.new()
    end = build(nfa, parsed, s, ic)
    d = DFA.from_nfa(nfa, s, end)
    _RX[key] = d
    return d


def seq_dfa(seq, ic=False):
    nfa = NFA()
    s = nfa.new()
    end = build(nfa, seq, s, ic)
    return DFA.from_nfa(nfa, s, end)


def lit(w):
    return rx(re.escape(w))


def star(cs):
    nfa = NFA()
    s = nfa.new()
    nfa.m(s, cs, s)
    return DFA.from_nfa(nfa, s, s)


EVERYTHING = star(ALLSYMS)
EMPTY = ~EVERYTHING
EPSILON = lit("")


def anyof(words, ic=False):
    words = [w for w in words]
    if not words:
        return EMPTY
    return rx("|".join(re.escape(w) for w in words), ic)


def contains_any_char(cs):
    cs = frozenset(cs)
    if not cs:
        return EMPTY
    nfa = NFA()
    a, b = nfa.new(), nfa.new()
    nfa.m(a, ALLSYMS, a)
    nfa.m(a, cs, b)
    nfa.m(b, ALLSYMS, b)
    return DFA.from_nfa(nfa, a, b)


def contains_substr(sub):
    if sub == "":
        return EVERYTHING
    nfa = NFA()
    a = nfa.new()
    nfa.m(a, ALLSYMS, a)
    cur = a
    for ch in sub:
        n = nfa.new()
        nfa.m(cur, syms([ch]), n)
        cur = n
    nfa.m(cur, ALLSYMS, cur)
    return DFA.from_nfa(nfa, a, cur)


def startswith(k):
    return concat(lit(k), EVERYTHING)


def endswith(k):
    return concat(EVERYTHING, lit(k))


def first_in(cs):
    n = NFA()
    a, b = n.new(), n.new()
    n.m(a, cs, b)
    n.m(b, ALLSYMS, b)
    return DFA.from_nfa(n, a, b)


def last_in(cs):
    n = NFA()
    a, b = n.new(), n.new()
    n.m(a, ALLSYMS, a)
    n.m(a, cs, b)
    return DFA.from_nfa(n, a, b)


def length_eq(k):
    n = NFA()
    states = [n.new() for _ in range(k + 1)]
    for i in range(k):
        n.m(states[i], ALLSYMS, states[i + 1])
    return DFA.from_nfa(n, states[0], states[k])


def length_gt(k):
    return concat(length_eq(k + 1), EVERYTHING)


def union(ds):
    ds = list(ds)
    if not ds:
        return EMPTY
    out = ds[0]
    for d in ds[1:]:
        out = out | d
    return out


def _embed(nfa, d):
    S = [nfa.new() for _ in d.trans]
    for i, row in enumerate(d.trans):
        by = {}
        for c, t in enumerate(row):
            by.setdefault(t, set()).add(c)
        for t, cs in by.items():
            nfa.m(S[i], cs, S[t])
    return S


def concat(a, b):
    nfa = NFA()
    A = _embed(nfa, a)
    B = _embed(nfa, b)
    for i in a.accept:
        nfa.e(A[i], B[0])
    end = nfa.new()
    for i in b.accept:
        nfa.e(B[i], end)
    return DFA.from_nfa(nfa, A[0], end)


def prefix_closure(d):
    n = len(d.trans)
    rev = {i: set() for i in range(n)}
    for i, row in enumerate(d.trans):
        for t in row:
            rev[t].add(i)
    good = set(d.accept)
    stack = list(good)
    while stack:
        s = stack.pop()
        for p in rev[s]:
            if p not in good:
                good.add(p)
                stack.append(p)
    return DFA(d.trans, good).minimize()


def last_chars(d):
    """Set of characters that can end a string of the language."""
    n = len(d.trans)
    reach = {0}
    stack = [0]
    while stack:
        s = stack.pop()
        for t in d.trans[s]:
            if t not in reach:
                reach.add(t)
                stack.append(t)
    out = set()
    for s in reach:
        for c, t in enumerate(d.trans[s]):
            if t in d.accept:
                out.add(REPS[c])
    return out


def alphabet_of(d):
    """Characters that occur in at least one string of the language."""
    n = len(d.trans)
    reach = {0}
    stack = [0]
    while stack:
        s = stack.pop()
        for t in d.trans[s]:
            if t not in reach:
                reach.add(t)
                stack.append(t)
    rev = {i: set() for i in range(n)}
    for i, row in enumerate(d.trans):
        for t in row:
            rev[t].add(i)
    co = set(d.accept)
    stack = list(co)
    while stack:
        s = stack.pop()
        for p_ in rev[s]:
            if p_ not in co:
                co.add(p_)
                stack.append(p_)
    out = set()
    for s in reach & co:
        for c, t in enumerate(d.trans[s]):
            if t in co:
                out.add(REPS[c])
    return out


def first_chars_of_pattern(pattern):
    """Characters that can start a match of *pattern* (regex syntax tree)."""
    d = prefix_closure(rx(pattern))
    return {REPS[c] for c, t in enumerate(d.trans[0]) if t in d.accept}


# ------------------------------------------------------------ library models
# int(x, 10):  [+-]?\d(_?\d)*  (surrounding white space is stripped by int(); token text has none)
INT10 = rx(r"[+-]?\d(_?\d)*")
# float(x): Python language reference, float(); case-insensitive inf/infinity/nan
FLOAT = rx(r"[+-]?(\d(_?\d)*\.?(\d(_?\d)*)?|\.\d(_?\d)*)([eE][+-]?\d(_?\d)*)?") | rx(r"[+-]?(inf|infinity|nan)", ic=True)
_TRE = None


def strptime_dfa(fmt):
    """Language datetime.strptime(s, fmt) can accept (over-approximation:
    calendar validity is applied afterwards); directive patterns are those of
    _strptime.TimeRE, matched case-insensitively as strptime does."""
    global _TRE
    if _TRE is None:
        _TRE = _strptime.TimeRE()
    try:
        pat = _TRE.pattern(fmt)
    except (KeyError, ValueError) as e:
        raise AnalysisError(f"strptime format {fmt!r} not understood: {e}")
    return rx(pat, ic=True)


def rstrip_image(d, chars):
    """{ x.rstrip(chars) : x in L(d) }: x stripped = a word w not ending in *chars* such that w . chars* meets L(d)"""
    cs = syms(chars)
    n = len(d.trans)
    # states from which an accepting state is reachable by characters of *chars* only
    rev = {i: set() for i in range(n)}
    for i, row in enumerate(d.trans):
        for c in cs:
            rev[row[c]].add(i)
    good = set(d.accept)
    stack = list(good)
    while stack:
        s = stack.pop()
        for p in rev[s]:
            if p not in good:
                good.add(p)
                stack.append(p)
    widened = DFA(d.trans, good).minimize()
    return widened - last_in(cs)


def lstrip_image(d, chars):
    """{ x.lstrip(chars) : x in L(d) }"""
    cs = syms(chars)
    # after reading any run of *chars* from the start: union of the languages from those states, minus words that
    # start with a character of *chars*
    reach = {0}
    stack = [0]
    while stack:
        s = stack.pop()
        for c in cs:
            t = d.trans[s][c]
            if t not in reach:
                reach.add(t)
                stack.append(t)
    outs = []
    for q in reach:
        # the DFA started in q: renumber so that q is state 0
        perm = {q: 0, 0: q}
        m = lambda i: perm.get(i, i)
        trans = [None] * len(d.trans)
        for i, row in enumerate(d.trans):
            trans[m(i)] = tuple(m(t) for t in row)
        outs.append(DFA(trans, {m(a) for a in d.accept}).minimize())
    return union(outs) - first_in(cs)
