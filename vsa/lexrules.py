"""Structural rules on pvl/lexer.py and pvl/exceptions.py (I2, I3, laziness,
lex_preserve)."""
import ast

from .core import Finding, AnalysisError, norm


def _contains(node, pred):
    return any(pred(n) for n in ast.walk(node))


def _is_call_to(n, name):
    return isinstance(n, ast.Call) and ((isinstance(n.func, ast.Name) and n.func.id == name) or
                                        (isinstance(n.func, ast.Attribute) and n.func.attr == name))


def main_loop(repo):
    """The character loop of lexer(): ``for i, char in enumerate(s)``."""
    fn = repo.full_function("lexer", "lexer")
    params = [a.arg for a in fn.args.args]
    if not params:
        raise AnalysisError("lexer() has no parameters")
    svar = params[0]
    for n in ast.walk(fn):
        if isinstance(n, ast.For) and isinstance(n.iter, ast.Call) and isinstance(n.iter.func, ast.Name) \
                and n.iter.func.id == "enumerate" and n.iter.args and isinstance(n.iter.args[0], ast.Name) \
                and n.iter.args[0].id == svar and isinstance(n.target, ast.Tuple) and len(n.target.elts) == 2:
            return fn, svar, n, n.target.elts[0].id, n.target.elts[1].id
    raise AnalysisError("anchor vanished: the `for i, char in enumerate(s)` loop of lexer()")


def _guard_of(stmt, charvar):
    """Is *stmt* `if not X.char_allowed(char): raise LexerError(...)` ? -> the Raise node"""
    if not isinstance(stmt, ast.If):
        return None
    t, refused, allowed = stmt.test, stmt.body, stmt.orelse
    neg = False
    while isinstance(t, ast.UnaryOp) and isinstance(t.op, ast.Not):
        t, neg = t.operand, not neg
    if not neg:
        refused, allowed = allowed, refused       # if char_allowed(char): <go on> else: raise
    if _is_call_to(t, "char_allowed") and t.args and isinstance(t.args[0], ast.Name) and t.args[0].id == charvar:
        # the refused branch ends in the raise, the allowed branch does nothing (it falls through to the rest of the loop)
        if all(isinstance(b, ast.Pass) or (isinstance(b, ast.Expr) and isinstance(b.value, ast.Constant)) for b in allowed):
            for b in refused:
                if isinstance(b, ast.Raise) and b.exc is not None and "LexerError" in norm(b.exc):
                    return b
    return None


def rule_i2(repo, res):
    """I2: the char_allowed(char) test with a LexerError raise dominates
    lex_char and every yield of the loop body, whatever the preserve state."""
    fn, svar, loop, ivar, charvar = main_loop(repo)
    body = loop.body
    interesting = lambda n: isinstance(n, (ast.Yield, ast.YieldFrom)) or _is_call_to(n, "lex_char")
    guard = None
    # form (b): the whole body under `if X.char_allowed(char): ... else: raise LexerError`
    if len(body) == 1 and isinstance(body[0], ast.If) and _is_call_to(body[0].test, "char_allowed") and \
            any(isinstance(b, ast.Raise) and b.exc is not None and "LexerError" in norm(b.exc) for b in body[0].orelse):
        guard = [b for b in body[0].orelse if isinstance(b, ast.Raise)][0]
        ok_all = True
        sites = [n for n in ast.walk(body[0]) if interesting(n)]
    else:
        ok_all = True
        sites = []
        seen_guard = False
        for s in body:
            g = _guard_of(s, charvar)
            if g is not None and not seen_guard:
                seen_guard = True
                guard = g
                continue
            for n in ast.walk(s):
                if interesting(n):
                    sites.append(n)
                    if not seen_guard:
                        ok_all = False
                        anchor = norm(getattr(n, "_parent", n), 100)
                        res.add(Finding("I2", "lexer.lexer", anchor,
                                        f"`{anchor}` in the character loop of lexer() is reached without the "
                                        f"char_allowed({charvar}) check: a character outside the dialect's set is "
                                        "accumulated or yielded instead of raising LexerError",
                                        where=f"pvl/lexer.py:{n.lineno}"))
    if guard is None:
        res.add(Finding("I2", "lexer.lexer", "no char_allowed guard",
                        "the character loop of lexer() has no `if not g.char_allowed(char): raise LexerError` "
                        "guard at its top level: characters are never checked against the dialect's set",
                        where=f"pvl/lexer.py:{loop.lineno}"))
        ok_all = False
    for n in sites:
        res.oblige("I2", f"lexer `{norm(getattr(n, '_parent', n), 80)}` dominated by the char_allowed guard", ok=ok_all)
    res.floor("I2 sites (lex_char call + yields)", len(sites), 2)
    # the guard must not depend on the preserve state: its test mentions only char_allowed(char)
    # (form (a) is an unconditional top-level statement of the loop body: established above)
    return guard, (fn, svar, loop, ivar, charvar)


def linear(e, syms):
    """Linear form of an arithmetic expression over opaque atoms: {atom_src: coeff, '': const}."""
    if isinstance(e, ast.Constant) and isinstance(e.value, int):
        return {"": e.value}
    if isinstance(e, ast.BinOp) and isinstance(e.op, (ast.Add, ast.Sub)):
        a, b = linear(e.left, syms), linear(e.right, syms)
        sign = 1 if isinstance(e.op, ast.Add) else -1
        out = dict(a)
        for k, v in b.items():
            out[k] = out.get(k, 0) + sign * v
        return {k: v for k, v in out.items() if v != 0 or k == ""}
    if isinstance(e, ast.UnaryOp) and isinstance(e.op, ast.USub):
        return {k: -v for k, v in linear(e.operand, syms).items()}
    return {norm(e): 1}


def rule_i3(repo, res, guard_info):
    """I3: pos/lineno/colno of LexerError come from one definition of the
    position and one doc; firstpos/linecount have their documented form; the
    raise site that is not preceded by lex_char passes a lexeme containing the
    offending character."""
    exc = repo.module("exceptions")
    # firstpos(sub, pos) == pos - len(sub) + 1
    from . import canon as _canon0
    fp = _canon0.canon_function(repo, "exceptions", "firstpos")
    p = [a.arg for a in fp.args.args]
    rets = [n for n in ast.walk(fp) if isinstance(n, ast.Return)]
    ok = False
    if len(p) == 2 and len(rets) == 1 and rets[0].value is not None:
        lf = linear(rets[0].value, p)
        lf = {k: v for k, v in lf.items() if v != 0}
        ok = lf == {p[1]: 1, f"len({p[0]})": -1, "": 1}
    res.oblige("I3", "firstpos(sub, pos) == pos - len(sub) + 1", ok=ok)
    if not ok:
        res.add(Finding("I3", "exceptions.firstpos", "return value",
                        "firstpos() no longer returns pos - len(sub) + 1 (the index of the first character of a "
                        "lexeme whose last character is at pos): every token position and error position shifts",
                        where=f"pvl/exceptions.py:{fp.lineno}"))
    # linecount(doc, end, start=0) == doc.count("\n", start, end) + 1
    from . import canon as _canon
    lc = _canon.canon_function(repo, "exceptions", "linecount")         # named temporaries (newlines = doc.count(..)) read in place
    p = [a.arg for a in lc.args.args]
    rets = [n for n in ast.walk(lc) if isinstance(n, ast.Return)]
    ok = False
    if len(p) >= 2 and len(rets) == 1 and rets[0].value is not None:
        lf = linear(rets[0].value, p)
        start = p[2] if len(p) > 2 else "0"
        want = f"{p[0]}.count('\\n', {start}, {p[1]})"
        ok = {k: v for k, v in lf.items() if v} == {want: 1, "": 1}
        if ok and len(p) > 2:
            d = lc.args.defaults
            ok = len(d) == 1 and isinstance(d[0], ast.Constant) and d[0].value == 0
    res.oblige("I3", "linecount(doc, end, start=0) == doc.count('\\n', start, end) + 1", ok=ok)
    if not ok:
        res.add(Finding("I3", "exceptions.linecount", "return value",
                        "linecount() no longer returns doc.count('\\n', start, end) + 1 (1-based line of position end)",
                        where=f"pvl/exceptions.py:{lc.lineno}"))
    # LexerError.__init__
    init = repo.method("LexerError", "__init__")
    p = [a.arg for a in init.args.args]   # self msg doc pos lexeme
    if len(p) != 5:
        raise AnalysisError("LexerError.__init__ signature changed; rule I3 needs (self, msg, doc, pos, lexeme)")
    _, msg, doc, pos, lexeme = p
    # compared in canonical form (thin helpers inlined, single-assignment locals and attributes substituted),
    # so that a named temporary or an inlined firstpos() reads the same
    from . import canon, inline
    cinit = canon.canon_method(repo, "LexerError", "__init__", public=True)
    assigns = {}
    for n in cinit.body:
        if isinstance(n, ast.Assign) and len(n.targets) == 1:
            assigns[norm(n.targets[0])] = n.value

    def expected(src):
        e = ast.parse(src, mode="eval").body
        return inline.inline_expr(repo, None, "exceptions", e, public=True)
    vpos, vline, vcol = assigns.get("self.pos"), assigns.get("self.lineno"), assigns.get("self.colno")
    P = f"firstpos({lexeme}, {pos})"
    ok_pos = vpos is not None and norm(vpos) == norm(expected(P))
    ok_line = vline is not None and norm(vline) == norm(expected(f"linecount({doc}, {P})"))
    ok_col = False
    if vcol is not None:
        nz = lambda d: {k: v for k, v in d.items() if v}
        ok_col = nz(linear(vcol, p)) == nz(linear(expected(f"{P} - {doc}.rfind('\\n', 0, {P})"), p))
    for what, ok in (("self.pos = firstpos(lexeme, pos)", ok_pos), ("lineno = linecount(doc, self.pos)", ok_line),
                     ("colno = self.pos - doc.rfind('\\n', 0, self.pos)", ok_col)):
        res.oblige("I3", "LexerError.__init__: " + what, ok=ok)
        if not ok:
            res.add(Finding("I3", "LexerError.__init__", what.split(" = ")[0],
                            f"LexerError.__init__ no longer computes `{what}`: pos, lineno and colno are not derived "
                            "from one definition of the position and one doc, so they can disagree with each other "
                            "and with the text", where=f"pvl/exceptions.py:{init.lineno}"))
    # raise sites in lexer()
    guard, (fn, svar, loop, ivar, charvar) = guard_info
    sites = [n for n in ast.walk(fn) if isinstance(n, ast.Raise) and isinstance(n.exc, ast.Call) and "LexerError" in norm(n.exc.func)]
    res.floor("LexerError construction sites in lexer()", len(sites), 2)
    lexvars = {norm(t) for n in ast.walk(loop) if isinstance(n, ast.Assign) for t in n.targets
               if isinstance(t, ast.Tuple) and _is_call_to(n.value, "lex_char") for t in t.elts[:1]}
    for r in sites:
        args = r.exc.args
        if len(args) != 4:
            res.oblige("I3", f"lexer `{norm(r, 60)}` argument count", ok=False)
            res.add(Finding("I3", "lexer.lexer", "LexerError arguments", "LexerError constructed with other than "
                            "(msg, doc, pos, lexeme)", where=f"pvl/lexer.py:{r.lineno}"))
            continue
        a_doc, a_pos, a_lex = args[1], args[2], args[3]
        ok_doc = isinstance(a_doc, ast.Name) and a_doc.id == svar
        res.oblige("I3", f"lexer raise [{norm(args[0], 30)}]: doc argument is the lexed string", ok=ok_doc)
        if not ok_doc:
            res.add(Finding("I3", "lexer.lexer", f"doc argument of LexerError [{norm(args[0], 30)}]",
                            "LexerError in lexer() is not given the string being lexed as doc: line and column are "
                            "computed against another text", where=f"pvl/lexer.py:{r.lineno}"))
        if r is guard:
            # the offending character has not been appended to lexeme (lex_char has not run yet)
            ok = isinstance(a_pos, ast.Name) and a_pos.id == ivar and (
                (isinstance(a_lex, ast.Name) and a_lex.id == charvar) or
                (isinstance(a_lex, ast.BinOp) and isinstance(a_lex.op, ast.Add) and isinstance(a_lex.right, ast.Name)
                 and a_lex.right.id == charvar))
            res.oblige("I3", "lexer char_allowed raise site: (pos, lexeme) satisfy firstpos's contract", ok=ok)
            if not ok:
                res.add(Finding("I3", "lexer.lexer", "LexerError(…, s, i, lexeme) at the char_allowed guard",
                                f"at the character-set guard the offending character s[{ivar}] is not part of "
                                f"`{norm(a_lex)}` (lex_char has not run for it), but firstpos() assumes that "
                                f"`{norm(a_pos)}` indexes the last character of the lexeme: pos and colno are "
                                "one too large (and inconsistent with the character reported)",
                                where=f"pvl/lexer.py:{r.lineno}"))
        else:
            ok = isinstance(a_pos, ast.Name) and a_pos.id == ivar
            res.oblige("I3", f"lexer raise [{norm(args[0], 30)}]: pos argument is the loop index", ok=ok)
            if not ok:
                res.add(Finding("I3", "lexer.lexer", f"pos argument of LexerError [{norm(args[0], 30)}]",
                                "pos argument is not the current index", where=f"pvl/lexer.py:{r.lineno}"))


def rule_lazy(repo, res):
    """The lexer is a generator and reads its text only near the current
    index: uses of *s* are enumerate(s), _prev_char/_next_char(s, i),
    s.startswith(…, i + 1), and as the doc argument of LexerError."""
    fn, svar, loop, ivar, charvar = main_loop(repo)
    is_gen = any(isinstance(n, (ast.Yield, ast.YieldFrom)) for n in ast.walk(fn))
    res.oblige("LAZY", "lexer() is a generator function", ok=is_gen)
    if not is_gen:
        res.add(Finding("LAZY", "lexer.lexer", "not a generator",
                        "lexer() is no longer a generator: the whole text (including everything after END) is "
                        "lexed before the parser sees the first token", where=f"pvl/lexer.py:{fn.lineno}"))
    total = [0]

    def check_uses(f_, svar_, ivar_, depth=0):
        uses = [n for n in ast.walk(f_) if isinstance(n, ast.Name) and n.id == svar_ and isinstance(n.ctx, ast.Load)]
        total[0] += len(uses)
        for u in uses:
            p = getattr(u, "_parent", None)
            ok = False
            if isinstance(p, ast.Call) and isinstance(p.func, ast.Name) and p.func.id == "enumerate":
                ok = True
            elif isinstance(p, ast.Call) and isinstance(p.func, ast.Name) and p.func.id in ("_prev_char", "_next_char") \
                    and len(p.args) == 2 and isinstance(p.args[1], ast.Name) and p.args[1].id == ivar_:
                ok = True
            elif isinstance(p, ast.Call) and "LexerError" in norm(p.func):
                ok = True
            elif isinstance(p, ast.Attribute) and p.attr == "startswith":
                call = getattr(p, "_parent", None)
                ok = isinstance(call, ast.Call) and len(call.args) >= 2
            elif isinstance(p, ast.Subscript) and not isinstance(p.slice, ast.Slice):
                ok = True
            elif isinstance(p, ast.Call) and isinstance(p.func, ast.Name) and p.func.id == "len":
                ok = True
            elif isinstance(p, ast.Call) and isinstance(p.func, ast.Name) and p.func.id in repo.module("lexer").functions \
                    and u in p.args and depth < 4 and not p.keywords:
                # handed to another helper of lexer.py together with the index: the helper's uses are checked instead
                h = repo.full_function("lexer", p.func.id)
                hp = [a.arg for a in h.args.args]
                if len(hp) == len(p.args):
                    hs = hp[p.args.index(u)]
                    hi = None
                    for a_, pn in zip(p.args, hp):
                        if isinstance(a_, ast.Name) and a_.id == ivar_:
                            hi = pn
                    check_uses(h, hs, hi, depth + 1)
                    ok = True
            anchor = norm(getattr(p, "_parent", p) if isinstance(p, ast.Attribute) else p, 90)
            res.oblige("LAZY", f"{f_.name} use of the text: `{anchor}`", ok=ok)
            if not ok:
                res.add(Finding("LAZY", "lexer.lexer", anchor,
                                f"{f_.name}() uses the text being lexed in `{anchor}`, which is not one of the bounded "
                                "look-around forms (enumerate, _prev_char/_next_char at i, startswith at i+1): "
                                "text after the END statement can influence or delay the result",
                                where=f"pvl/lexer.py:{u.lineno}"))
    check_uses(fn, svar, ivar)
    uses = [None] * total[0]
    res.floor("uses of the text in lexer()", len(uses), 4)


def rule_preserve(repo, res):
    """lex_preserve returns lexeme + char on all paths (white space inside
    comments, quotes and units is kept)."""
    fn = repo.full_function("lexer", "lex_preserve")
    p = [a.arg for a in fn.args.args]
    rets = [n for n in ast.walk(fn) if isinstance(n, ast.Return)]
    res.floor("lex_preserve returns", len(rets), 1)
    for r in rets:
        ok = isinstance(r.value, ast.Tuple) and r.value.elts and norm(r.value.elts[0]) == f"{p[1]} + {p[0]}"
        res.oblige("PRESERVE", f"lex_preserve `{norm(r, 70)}` returns lexeme + char", ok=ok)
        if not ok:
            res.add(Finding("PRESERVE", "lexer.lex_preserve", norm(r, 70),
                            "lex_preserve() has a path that does not return lexeme + char: a character inside a "
                            "comment, quoted string or units expression is dropped or altered",
                            where=f"pvl/lexer.py:{r.lineno}"))


def rule_preserve_first(repo, res):
    """PRESERVE-FIRST: inside a comment, quoted string or units expression everything is consumed verbatim: the
    helpers that can open such a state test `preserve["state"]` before they look at the character class."""
    for name in ("lex_char", "lex_singlechar_comments"):
        fn = repo.full_function("lexer", name)
        first = None
        for st in fn.body:
            if isinstance(st, ast.If):
                first = st
                break
        ok = first is not None and "preserve['state']" in norm(first.test)
        res.oblige("PRESERVE-FIRST", f"{name}: the preservation state is tested before the character class", ok=ok)
        if not ok:
            res.add(Finding("PRESERVE-FIRST", f"lexer.{name}", "first test",
                            f"{name}() looks at the character (`{norm(first.test, 50) if first else ''}`) before testing "
                            "preserve['state']: a comment opener, quote or units delimiter inside a comment/quoted string "
                            "re-arms the state and ends the lexeme at the wrong place",
                            where=f"pvl/lexer.py:{fn.lineno}"))


def rule_lookahead(repo, res):
    """LEX-LOOKAHEAD: char_allowed is consulted for the look-ahead character where the lexer decides to end a lexeme
    (the yield condition of lexer() and lex_continue()), and for the current character only at the guard."""
    fn, svar, loop, ivar, charvar = main_loop(repo)
    nexts = {norm(n.targets[0]) for n in ast.walk(fn) if isinstance(n, ast.Assign) and _is_call_to(n.value, "_next_char")}
    res.floor("look-ahead variable in lexer()", len(nexts), 1)
    guard = None
    for s_ in loop.body:
        g = _guard_of(s_, charvar)
        if g is not None:
            guard = s_
            break
    # (the end-of-lexeme decision itself is decided on the language model: langrules.rule_lookahead_lang)
    from .inline import closure
    cl = closure(repo, None, fn, module="lexer")
    n = sum(1 for (_o, f_) in cl for c in ast.walk(f_) if _is_call_to(c, "char_allowed")
            and not (f_ is fn and guard is not None and any(c is x for x in ast.walk(guard))))
    for (_o, f_) in cl:
        hp = [a.arg for a in f_.args.args]
        for c in ast.walk(f_):
            if not _is_call_to(c, "char_allowed"):
                continue
            if f_ is fn and guard is not None and any(c is x for x in ast.walk(guard)):
                continue
            arg = norm(c.args[0]) if c.args else ""
            ok = (arg in nexts) if f_ is fn else True
            if f_ is fn:
                res.oblige("LEX-LOOKAHEAD", f"lexer(): `{norm(c)}` outside the guard tests the look-ahead character", ok=ok)
                if not ok:
                    res.add(Finding("LEX-LOOKAHEAD", "lexer.lexer", norm(c),
                                    f"the end-of-lexeme decision of lexer() calls `{norm(c)}`; the current character has already "
                                    "passed the guard, so this test is vacuous: a lexeme is no longer ended before a character "
                                    "outside the dialect's set (END directly followed by binary data raises instead of "
                                    "returning the label)", where=f"pvl/lexer.py:{c.lineno}"))
    res.floor("char_allowed look-ahead tests in lexer() and its helpers", n, 1)
    lc = repo.full_function("lexer", "lex_continue")
    params = [a.arg for a in lc.args.args]
    calls = [c for c in ast.walk(lc) if _is_call_to(c, "char_allowed")]
    ok = bool(calls) and all(c.args and norm(c.args[0]) == params[1] for c in calls)
    res.oblige("LEX-LOOKAHEAD", "lex_continue(): char_allowed is asked about next_char", ok=ok)
    if not ok:
        res.add(Finding("LEX-LOOKAHEAD", "lexer.lex_continue", "char_allowed(next_char)",
                        "lex_continue() no longer refuses to continue a lexeme into a character outside the dialect's set",
                        where=f"pvl/lexer.py:{lc.lineno}"))


def rule_preserve_open(repo, res):
    """PRESERVE-OPEN: whether a character opens a comment depends on that character and the one before it (and the
    current state), never on the character that follows: an opener is an opener wherever it stands.  Path conditions
    of every return of lex_multichar_comments / lex_singlechar_comments that hands back state=Preserve.COMMENT."""
    from . import flow
    n = 0
    # which parameter of each lexer helper receives the look-ahead character: propagated from lexer(), where it is the
    # variable assigned from _next_char(...), along the calls between the functions of lexer.py
    mod = repo.module("lexer")
    role = {}
    lf = repo.full_function("lexer", "lexer")
    start = {norm(a.targets[0]) for a in ast.walk(lf) if isinstance(a, ast.Assign) and _is_call_to(a.value, "_next_char")}
    work = [("lexer", start)]
    seen = set()
    while work:
        fname_, names = work.pop()
        if (fname_, frozenset(names)) in seen or fname_ not in mod.functions:
            continue
        seen.add((fname_, frozenset(names)))
        for c in ast.walk(repo.full_function("lexer", fname_)):
            if isinstance(c, ast.Call) and isinstance(c.func, ast.Name) and c.func.id in mod.functions:
                hp = [a.arg for a in repo.full_function("lexer", c.func.id).args.args]
                got = {hp[i] for i, a in enumerate(c.args) if i < len(hp) and isinstance(a, ast.Name) and a.id in names}
                got |= {k.arg for k in c.keywords if k.arg and isinstance(k.value, ast.Name) and k.value.id in names}
                if got:
                    role.setdefault(c.func.id, set()).update(got)
                    work.append((c.func.id, role[c.func.id]))
    for fname in ("lex_multichar_comments", "lex_singlechar_comments"):
        fn = repo.full_function("lexer", fname)
        nxts = role.get(fname, set())
        for st, conds in flow.stmts_with_conds(fn.body):
            if not isinstance(st, (ast.Return, ast.Assign)):
                continue
            src = norm(st, 300)
            if "Preserve.COMMENT" not in src:
                continue
            n += 1
            la = [norm(t, 60) for t, p in conds if isinstance(t, ast.expr) and any(isinstance(x, ast.Name) and x.id in nxts for x in ast.walk(t))]
            res.oblige("PRESERVE-OPEN", f"{fname}: entering the comment state (`{norm(st, 50)}`) does not depend on the look-ahead character", ok=not la)
            if la:
                res.add(Finding("PRESERVE-OPEN", f"lexer.{fname}", "comment opener depends on the next character",
                                f"{fname} enters the comment state only under `{la[0]}`: a comment whose text starts with that character is "
                                "not recognised as a comment (its opener is taken for something else), so inserting it where white space is "
                                "allowed breaks the label", where=f"pvl/lexer.py:{st.lineno}"))
    res.floor("comment-opening returns in the lexer helpers", n, 1)


def rule_lex_text(repo, res):
    """LEX-TEXT: the lexer walks the text it was given: the text parameter of lexer() is never rebound (no
    `s = s.replace(...)`, `s = s.strip()` ...) and the character loop enumerates that parameter.  Token positions are
    indices into the caller's text -- the parser counts lines and looks for '=' in *its* copy with them, and LexerError
    reports pos/lineno/colno against it -- so a private, rewritten copy shifts every position after the first rewrite,
    and changes what stands inside quoted strings."""
    import ast
    fn = repo.full_function("lexer", "lexer")
    params = [a.arg for a in fn.args.args]
    if not params:
        raise AnalysisError("anchor vanished: the text parameter of lexer.lexer")
    text = params[0]
    rebound = [x for x in ast.walk(fn) if isinstance(x, (ast.Assign, ast.AugAssign, ast.AnnAssign))
               and any(isinstance(t, ast.Name) and t.id == text for t in (x.targets if isinstance(x, ast.Assign) else [x.target]))]
    loops = [x for x in ast.walk(fn) if isinstance(x, ast.For) and isinstance(x.iter, ast.Call) and norm(x.iter.func) == "enumerate"
             and x.iter.args and isinstance(x.iter.args[0], ast.Name)]
    res.floor("character loops of lexer()", len(loops), 1)
    ok = not rebound and all(l.iter.args[0].id == text for l in loops)
    res.oblige("LEX-TEXT", f"lexer() enumerates its text parameter `{text}` itself; the parameter is never rebound", ok=ok)
    if not ok:
        what = f"`{norm(rebound[0], 60)}`" if rebound else f"the loop runs over `{norm(loops[0].iter.args[0])}`"
        res.add(Finding("LEX-TEXT", "lexer.lexer", "the lexer works on a rewritten copy of the text",
                        f"lexer(): {what}: token positions (and the positions in LexerError) then index a private copy of the text, "
                        "not the text the caller holds -- line numbers of missing values and error columns drift after the first "
                        "rewritten place, and characters inside quoted strings are changed",
                        where=f"pvl/lexer.py:{(rebound[0] if rebound else loops[0]).lineno}"))
