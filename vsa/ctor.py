"""Abstract interpretation of constructors: which classes end up in an object's attributes.

``construct(repo, "ODLEncoder")`` interprets ``ODLEncoder.__init__`` -- through its ``super().__init__`` chain and
any helper of the class it calls -- with every parameter at its default (or the keyword values given), and returns
the abstract instance: ``inst.attrs["grammar"]`` is ``Inst("ODLGrammar")``, ``inst.attrs["end_delimiter"]`` is
``Const(False)`` and so on.  The rules used to *search* the constructor text for ``if x is None: x = Cls()``; a
search that does not find the idiom in the subclass silently falls through to the base class's defaults, i.e. to
the wrong pairing.  The interpreter follows the code instead; what it cannot decide is ``UNK`` and a consumer that
needs the value fails closed (AnalysisError).

Values: NONE, Const(v), ClassRef(name), Inst(cls, attrs), Tup(items), UNK.
"""
import ast

from .core import AnalysisError, norm


class V:
    pass


class _Unk(V):
    def __repr__(self):
        return "UNK"


class _NoneV(V):
    def __repr__(self):
        return "NONE"


UNK, NONE = _Unk(), _NoneV()


class Const(V):
    def __init__(self, v):
        self.v = v

    def __repr__(self):
        return f"Const({self.v!r})"


class ClassRef(V):
    def __init__(self, name):
        self.name = name

    def __repr__(self):
        return f"ClassRef({self.name})"


class Inst(V):
    def __init__(self, cls):
        self.cls, self.attrs = cls, {}
        self.ctor_args = ([], {})

    def __repr__(self):
        return f"Inst({self.cls})"


class Tup(V):
    def __init__(self, items):
        self.items = list(items)


class DictV(V):
    """a dict with constant string keys (insertion order kept)"""
    def __init__(self, items=()):
        self.items = list(items)

    def get(self, k, default=None):
        for a, b in self.items:
            if a == k:
                return b
        return default

    def set(self, k, v):
        for i, (a, b) in enumerate(self.items):
            if a == k:
                self.items[i] = (k, v)
                return
        self.items.append((k, v))

    def __repr__(self):
        return "DictV(" + ", ".join(f"{k}={v!r}" for k, v in self.items) + ")"


class FnRef(V):
    def __init__(self, node, module):
        self.node, self.module = node, module


class PartialV(V):
    """functools.partial(callee, *args, **kw) -- callee a ClassRef / FnRef / LambdaV"""
    def __init__(self, callee, args, kw):
        self.callee, self.args, self.kw = callee, list(args), dict(kw)

    def __repr__(self):
        return f"partial({self.callee!r})"


class LambdaV(V):
    def __init__(self, node, env, self_inst, cls):
        self.node, self.env, self.self_inst, self.cls = node, env, self_inst, cls

    def __repr__(self):
        return "<lambda>"


class _Raise(Exception):
    pass


class _Return(Exception):
    def __init__(self, value):
        self.value = value


MAX_DEPTH = 12


class Interp:
    def __init__(self, repo):
        self.repo = repo
        self.depth = 0

    # ---- expressions
    def truth(self, v):
        if v is NONE:
            return False
        if isinstance(v, Const):
            return bool(v.v)
        if isinstance(v, (Inst, ClassRef)):
            return True
        if isinstance(v, Tup):
            return bool(v.items)
        return None

    def ev(self, e, env, self_inst, cls):
        if isinstance(e, ast.Constant):
            return NONE if e.value is None else Const(e.value)
        if isinstance(e, ast.Name):
            if e.id in env:
                return env[e.id]
            if e.id in self.repo.classes:
                return ClassRef(e.id)
            if e.id in ("True", "False"):
                return Const(e.id == "True")
            return UNK
        if isinstance(e, ast.Attribute):
            base = self.ev(e.value, env, self_inst, cls)
            if isinstance(base, Inst):
                if e.attr in base.attrs:
                    return base.attrs[e.attr]
            return UNK
        if isinstance(e, (ast.Tuple, ast.List)):
            return Tup(self.ev(x, env, self_inst, cls) for x in e.elts)
        if isinstance(e, ast.Dict):
            d = DictV()
            for k, v in zip(e.keys, e.values):
                if k is None:
                    inner = self.ev(v, env, self_inst, cls)
                    if not isinstance(inner, DictV):
                        return UNK
                    for a, b in inner.items:
                        d.set(a, b)
                else:
                    kv = self.ev(k, env, self_inst, cls)
                    if not (isinstance(kv, Const) and isinstance(kv.v, str)):
                        return UNK
                    d.set(kv.v, self.ev(v, env, self_inst, cls))
            return d
        if isinstance(e, ast.DictComp) and len(e.generators) == 1 and not e.generators[0].ifs:
            it = self.ev(e.generators[0].iter, env, self_inst, cls)
            if isinstance(it, DictV):        # iterating .items() is handled in call(); a bare dict iterates keys
                it = Tup(Const(k) for k, _ in it.items)
            if not isinstance(it, Tup):
                return UNK
            d = DictV()
            for item in it.items:
                env2 = dict(env)
                self.assign(e.generators[0].target, item, env2, self_inst)
                kv = self.ev(e.key, env2, self_inst, cls)
                if not (isinstance(kv, Const) and isinstance(kv.v, str)):
                    return UNK
                d.set(kv.v, self.ev(e.value, env2, self_inst, cls))
            return d
        if isinstance(e, ast.Subscript):
            base = self.ev(e.value, env, self_inst, cls)
            idx = self.ev(e.slice, env, self_inst, cls)
            if isinstance(base, DictV) and isinstance(idx, Const):
                return base.get(idx.v, UNK)
            if isinstance(base, Tup) and isinstance(idx, Const) and isinstance(idx.v, int) and -len(base.items) <= idx.v < len(base.items):
                return base.items[idx.v]
            return UNK
        if isinstance(e, ast.IfExp):
            t = self.truth(self.ev(e.test, env, self_inst, cls))
            if t is None:
                return UNK
            return self.ev(e.body if t else e.orelse, env, self_inst, cls)
        if isinstance(e, ast.UnaryOp) and isinstance(e.op, ast.Not):
            t = self.truth(self.ev(e.operand, env, self_inst, cls))
            return UNK if t is None else Const(not t)
        if isinstance(e, ast.BoolOp):
            last = UNK
            for v in e.values:
                last = self.ev(v, env, self_inst, cls)
                t = self.truth(last)
                if t is None:
                    return UNK
                if isinstance(e.op, ast.And) and not t:
                    return last
                if isinstance(e.op, ast.Or) and t:
                    return last
            return last
        if isinstance(e, ast.Compare) and len(e.ops) == 1:
            l = self.ev(e.left, env, self_inst, cls)
            r = self.ev(e.comparators[0], env, self_inst, cls)
            op = e.ops[0]
            if isinstance(op, (ast.Is, ast.IsNot)) and r is NONE:
                if l is UNK:
                    return UNK
                return Const((l is NONE) == isinstance(op, ast.Is))
            if isinstance(op, (ast.Eq, ast.NotEq)) and isinstance(l, Const) and isinstance(r, Const):
                return Const((l.v == r.v) == isinstance(op, ast.Eq))
            return UNK
        if isinstance(e, ast.Call):
            return self.call(e, env, self_inst, cls)
        if isinstance(e, ast.Lambda):
            return LambdaV(e, dict(env), self_inst, cls)
        return UNK

    def imported_fn(self, name, cls):
        """a function the module of *cls* defines or imports from another module of the package -> FunctionDef or None"""
        if cls not in self.repo.classes:
            return None
        mod = self.repo.classes[cls].module
        if name in mod.functions:
            return mod.functions[name]
        if name in mod.imports:
            src, orig = mod.imports[name]
            tgt = None
            if src in (self.repo.PKG, "."):
                tgt = "__init__"
            elif src.startswith(".") or src.startswith(self.repo.PKG + "."):
                tgt = src.lstrip(".").split(".")[-1]
            if tgt in self.repo.modules and orig in self.repo.module(tgt).functions:
                return self.repo.module(tgt).functions[orig]
        return None

    def apply(self, callee, args, kw, self_inst, cls):
        """call of a value: a class, a function of the package, a partial or a lambda"""
        if isinstance(callee, ClassRef):
            return self.instantiate(callee.name, args, kw)
        if isinstance(callee, FnRef) and self.depth < MAX_DEPTH:
            return self.run_fn(callee.node, self_inst, cls, args, kw, bind_self=False)
        if isinstance(callee, PartialV):
            merged = dict(callee.kw)
            merged.update(kw)
            return self.apply(callee.callee, callee.args + list(args), merged, self_inst, cls)
        if isinstance(callee, LambdaV) and self.depth < MAX_DEPTH:
            a = callee.node.args
            env2 = dict(callee.env)
            for p_, v_ in zip([x.arg for x in a.posonlyargs + a.args], args):
                env2[p_] = v_
            env2.update(kw)
            self.depth += 1
            try:
                return self.ev(callee.node.body, env2, callee.self_inst, callee.cls)
            finally:
                self.depth -= 1
        return UNK

    def issub(self, c, base):
        return base in self.repo.mro(c)

    def call(self, e, env, self_inst, cls):
        f = e.func
        fs = norm(f)
        args = [self.ev(a, env, self_inst, cls) for a in e.args if not isinstance(a, ast.Starred)]
        kw = {}
        starred = any(isinstance(a, ast.Starred) for a in e.args)
        for k in e.keywords:
            v_ = self.ev(k.value, env, self_inst, cls)
            if k.arg:
                kw[k.arg] = v_
            elif isinstance(v_, DictV):              # **d with a known dict
                for a_, b_ in v_.items:
                    kw[a_] = b_
            else:
                starred = True
        if fs in ("dict", "OrderedDict", "collections.OrderedDict") and not starred:
            d = DictV()
            if len(args) == 1 and isinstance(args[0], DictV):
                for a_, b_ in args[0].items:
                    d.set(a_, b_)
            elif args:
                return UNK
            for a_, b_ in kw.items():
                d.set(a_, b_)
            return d
        if isinstance(f, ast.Attribute) and f.attr == "update" and not starred:
            base = self.ev(f.value, env, self_inst, cls)
            if isinstance(base, DictV):
                if len(args) == 1 and isinstance(args[0], DictV):
                    for a_, b_ in args[0].items:
                        base.set(a_, b_)
                elif args:
                    raise AnalysisError(f"dict.update with an argument the table evaluation cannot read: {norm(e, 60)}")
                for a_, b_ in kw.items():
                    base.set(a_, b_)
                return NONE
        if isinstance(f, ast.Attribute) and f.attr in ("items", "keys", "values") and not e.args:
            base = self.ev(f.value, env, self_inst, cls)
            if isinstance(base, DictV):
                if f.attr == "items":
                    return Tup(Tup([Const(k), v]) for k, v in base.items)
                if f.attr == "keys":
                    return Tup(Const(k) for k, _ in base.items)
                return Tup(v for _, v in base.items)
        if fs.split(".")[-1].lstrip("_") == "partial" and args and not starred and isinstance(args[0], (ClassRef, FnRef, LambdaV, PartialV)):
            return PartialV(args[0], args[1:], kw)
        if isinstance(f, ast.Name) and isinstance(env.get(f.id), (PartialV, LambdaV)) and not starred:
            return self.apply(env[f.id], args, kw, self_inst, cls)
        if isinstance(f, ast.Name) and isinstance(env.get(f.id), FnRef) and not starred and self.depth < MAX_DEPTH:
            fr = env[f.id]
            saved_mod = getattr(self, "modenv", None)
            return self.run_fn(fr.node, self_inst, cls, args, kw, bind_self=False, closure=env)
        if isinstance(f, ast.Name) and f.id == "isinstance" and len(args) == 2:
            obj, ty = args
            tys = ty.items if isinstance(ty, Tup) else [ty]
            if isinstance(obj, Inst) and all(isinstance(t, ClassRef) for t in tys):
                return Const(any(self.issub(obj.cls, t.name) for t in tys))
            if obj is NONE and all(isinstance(t, ClassRef) for t in tys):
                return Const(False)
            return UNK
        if isinstance(f, ast.Name) and f.id == "issubclass" and len(args) == 2 and isinstance(args[0], ClassRef):
            tys = args[1].items if isinstance(args[1], Tup) else [args[1]]
            if all(isinstance(t, ClassRef) for t in tys):
                return Const(any(self.issub(args[0].name, t.name) for t in tys))
            return UNK
        if isinstance(f, ast.Name) and f.id == "callable" and len(e.args) == 1:
            a = e.args[0]
            # callable(getattr(obj, "name", None)) / callable(obj.name)
            if isinstance(a, ast.Call) and norm(a.func) == "getattr" and len(a.args) >= 2 and isinstance(a.args[1], ast.Constant):
                o = self.ev(a.args[0], env, self_inst, cls)
                if isinstance(o, Inst):
                    return Const(self.repo.resolve_method(o.cls, a.args[1].value)[1] is not None)
            return UNK
        if isinstance(f, ast.Name) and f.id == "hasattr" and len(e.args) == 2 and isinstance(e.args[1], ast.Constant):
            o = args[0]
            if isinstance(o, Inst):
                return Const(self.repo.resolve_method(o.cls, e.args[1].value)[1] is not None or e.args[1].value in o.attrs)
            return UNK
        # super().__init__(...)
        if isinstance(f, ast.Attribute) and f.attr == "__init__" and isinstance(f.value, ast.Call) and norm(f.value.func) == "super":
            after = cls
            if f.value.args:
                after = norm(f.value.args[0])
            if starred:
                raise AnalysisError(f"constructor of {self_inst.cls}: starred arguments in a super().__init__ call are not interpreted")
            self.run_init(self_inst, after_cls=after, args=args, kwargs=kw)
            return NONE
        # instantiation
        callee = self.ev(f, env, self_inst, cls) if isinstance(f, (ast.Name, ast.Attribute)) else UNK
        if isinstance(callee, ClassRef):
            if starred:
                return Inst(callee.name)
            return self.instantiate(callee.name, args, kw)
        # a function of the module the code lives in, or one it imports from another module of the package
        if isinstance(f, ast.Name) and cls in self.repo.classes and not starred:
            hfn = self.imported_fn(f.id, cls)
            if hfn is not None and self.depth < MAX_DEPTH:
                return self.run_fn(hfn, self_inst, cls, args, kw, bind_self=False)
        # helper of the class: self.h(...) / Cls.h(...)
        if isinstance(f, ast.Attribute) and isinstance(f.value, ast.Name) and (f.value.id == "self" or f.value.id in self.repo.classes):
            owner = self_inst.cls if f.value.id == "self" else f.value.id
            defcls, fn = self.repo.resolve_method(owner, f.attr)
            if fn is not None and not starred:
                decos = self.repo.classes[defcls].decorators.get(f.attr, [])
                static = "staticmethod" in decos
                return self.run_fn(fn, self_inst, defcls, args, kw, bind_self=not static)
        return UNK

    def instantiate(self, cname, args=(), kwargs=None):
        if self.depth > MAX_DEPTH:
            return Inst(cname)
        inst = Inst(cname)
        inst.ctor_args = (list(args), dict(kwargs or {}))
        self.run_init(inst, after_cls=None, args=list(args), kwargs=dict(kwargs or {}))
        return inst

    def run_init(self, inst, after_cls, args, kwargs):
        defcls, fn = self.repo.resolve_method(inst.cls, "__init__", after=after_cls) if after_cls else self.repo.resolve_method(inst.cls, "__init__")
        if fn is None:
            return
        self.run_fn(fn, inst, defcls, args, kwargs, bind_self=True)

    def run_fn(self, fn, self_inst, defcls, args, kwargs, bind_self=True, closure=None):
        self.depth += 1
        try:
            a = fn.args
            params = [x.arg for x in a.posonlyargs + a.args]
            env = dict(closure) if closure else {}
            if bind_self and params:
                env[params[0]] = self_inst
                params = params[1:]
            defaults = dict(zip(params[len(params) - len(a.defaults):], a.defaults)) if a.defaults else {}
            for p, v in zip(params, args):
                env[p] = v
            for k, v in kwargs.items():
                env[k] = v
            for ko, kd in zip(a.kwonlyargs, a.kw_defaults):
                if ko.arg not in env:
                    env[ko.arg] = self.ev(kd, {}, self_inst, defcls) if kd is not None else UNK
            for p in params:
                if p not in env:
                    env[p] = self.ev(defaults[p], {}, self_inst, defcls) if p in defaults else UNK
            try:
                self.block(fn.body, env, self_inst, defcls)
            except _Return as r:
                return r.value
            return NONE
        finally:
            self.depth -= 1

    # ---- statements
    def assign(self, target, value, env, self_inst):
        if isinstance(target, ast.Name):
            env[target.id] = value
        elif isinstance(target, ast.Attribute):
            base = env.get(target.value.id) if isinstance(target.value, ast.Name) else None
            if isinstance(base, Inst):
                base.attrs[target.attr] = value
        elif isinstance(target, ast.Subscript):
            base = self.ev(target.value, env, self_inst, None) if isinstance(target.value, (ast.Name, ast.Attribute)) else None
            idx = self.ev(target.slice, env, self_inst, None)
            if isinstance(base, DictV) and isinstance(idx, Const) and isinstance(idx.v, str):
                base.set(idx.v, value)
        elif isinstance(target, (ast.Tuple, ast.List)):
            items = value.items if isinstance(value, Tup) and len(value.items) == len(target.elts) else [UNK] * len(target.elts)
            for t, v in zip(target.elts, items):
                self.assign(t, v, env, self_inst)

    def havoc(self, stmts, env, self_inst):
        """names / self attributes assigned somewhere in stmts become UNK (a branch that may or may not run)"""
        for s in stmts:
            for n in ast.walk(s):
                if isinstance(n, (ast.Assign, ast.AugAssign, ast.AnnAssign)):
                    for t in (n.targets if isinstance(n, ast.Assign) else [n.target]):
                        for x in ast.walk(t):
                            if isinstance(x, ast.Name) and isinstance(x.ctx, ast.Store):
                                env[x.id] = UNK
                            if isinstance(x, ast.Attribute) and isinstance(x.ctx, ast.Store) and isinstance(x.value, ast.Name):
                                b = env.get(x.value.id)
                                if isinstance(b, Inst):
                                    b.attrs[x.attr] = UNK

    def block(self, stmts, env, self_inst, cls):
        for i, s in enumerate(stmts):
            if isinstance(s, ast.Expr):
                if isinstance(s.value, ast.Constant):
                    continue
                self.ev(s.value, env, self_inst, cls)
            elif isinstance(s, ast.Assign):
                v = self.ev(s.value, env, self_inst, cls)
                for t in s.targets:
                    self.assign(t, v, env, self_inst)
            elif isinstance(s, ast.AnnAssign) and s.value is not None:
                self.assign(s.target, self.ev(s.value, env, self_inst, cls), env, self_inst)
            elif isinstance(s, ast.AugAssign):
                self.assign(s.target, UNK, env, self_inst)
            elif isinstance(s, ast.If):
                t = self.truth(self.ev(s.test, env, self_inst, cls))
                if t is True:
                    self.block(s.body, env, self_inst, cls)
                elif t is False:
                    self.block(s.orelse, env, self_inst, cls)
                else:
                    # undecided: both continuations are interpreted on copies of the state; one that ends in a raise is
                    # taken not to happen (the constructor succeeds with these arguments on the unchanged tree); if both
                    # complete, what they disagree on is unknown
                    rest = list(stmts[i + 1:])
                    outs = []
                    for branch in (list(s.body), list(s.orelse)):
                        env2 = dict(env)
                        insts = [v for v in list(env.values()) + [self_inst] if isinstance(v, Inst)]
                        saved = [(x, dict(x.attrs)) for x in insts]
                        try:
                            self.block(branch + rest, env2, self_inst, cls)
                            outs.append(("fall", env2, [(x, dict(x.attrs)) for x in insts]))
                        except _Return as r:
                            outs.append(("ret", r.value, [(x, dict(x.attrs)) for x in insts]))
                        except AnalysisError:
                            outs.append(("fail", None, None))
                        for x, a in saved:
                            x.attrs.clear()
                            x.attrs.update(a)
                    good = [o for o in outs if o[0] != "fail"]
                    if not good:
                        raise AnalysisError(f"constructor of {self_inst.cls if self_inst else cls}: every continuation of "
                                            f"`if {norm(s.test, 50)}` raises")
                    if len(good) == 1 or (good[0][0] == "ret" and good[1][0] == "ret" and repr(good[0][1]) == repr(good[1][1])
                                          and not isinstance(good[0][1], Inst)):
                        o = good[0]
                    else:
                        o = None
                    if o is not None:
                        for x, a in o[2]:
                            x.attrs.clear()
                            x.attrs.update(a)
                        if o[0] == "ret":
                            raise _Return(o[1])
                        env.clear()
                        env.update(o[1])
                        return
                    # two live continuations: merge what they agree on
                    kinds = {g[0] for g in good}
                    for x, _ in good[0][2]:
                        a0 = dict(good[0][2])[x] if False else None
                    attrs_by_inst = {}
                    for g in good:
                        for x, a in g[2]:
                            attrs_by_inst.setdefault(id(x), (x, []))[1].append(a)
                    for _, (x, alist) in attrs_by_inst.items():
                        keys = set().union(*[set(a) for a in alist])
                        for k in keys:
                            vals = [a.get(k, UNK) for a in alist]
                            same = all(repr(v) == repr(vals[0]) and not isinstance(v, Inst) or v is vals[0] for v in vals)
                            same = same or (all(isinstance(v, Inst) for v in vals) and len({v.cls for v in vals}) == 1)
                            x.attrs[k] = vals[0] if same else UNK
                    if kinds == {"ret"}:
                        raise _Return(UNK)
                    if kinds == {"fall"}:
                        envs = [g[1] for g in good]
                        for k in set().union(*[set(e_) for e_ in envs]):
                            vals = [e_.get(k, UNK) for e_ in envs]
                            same = all(repr(v) == repr(vals[0]) for v in vals) and not isinstance(vals[0], Inst) or all(v is vals[0] for v in vals)
                            same = same or (all(isinstance(v, Inst) for v in vals) and len({v.cls for v in vals}) == 1)
                            env[k] = vals[0] if same else UNK
                        return
                    raise _Return(UNK)
            elif isinstance(s, ast.Return):
                raise _Return(self.ev(s.value, env, self_inst, cls) if s.value is not None else NONE)
            elif isinstance(s, ast.Raise):
                raise AnalysisError(f"constructor of {self_inst.cls if self_inst else cls} raises on the interpreted path "
                                    f"(`{norm(s, 60)}`): cannot derive its defaults")
            elif isinstance(s, (ast.Try,)):
                self.block(s.body, env, self_inst, cls)
                self.block(s.orelse, env, self_inst, cls)
                self.block(s.finalbody, env, self_inst, cls)
            elif isinstance(s, (ast.For, ast.While, ast.With)):
                self.havoc([s], env, self_inst)
            elif isinstance(s, (ast.Pass, ast.Import, ast.ImportFrom, ast.Global, ast.Nonlocal, ast.Assert, ast.Delete,
                                ast.FunctionDef, ast.ClassDef)):
                continue
            else:
                self.havoc([s], env, self_inst)


_CACHE = {}


def construct(repo, cname, **kwargs):
    """abstract instance of cname(**kwargs); keyword values are V objects (e.g. Inst("ODLGrammar"))"""
    key = (id(repo), cname, tuple(sorted((k, repr(v)) for k, v in kwargs.items())))
    if key not in _CACHE:
        _CACHE[key] = Interp(repo).instantiate(cname, (), kwargs)
    return _CACHE[key]


def attr_class(repo, cname, attr, **kwargs):
    """class of the object in <cname>(**kwargs).<attr>; AnalysisError when it cannot be derived"""
    inst = construct(repo, cname, **kwargs)
    v = inst.attrs.get(attr)
    if not isinstance(v, Inst):
        raise AnalysisError(f"cannot derive the class of {cname}().{attr} from its constructor (got {v!r})")
    return v.cls


def module_value(repo, module, name):
    """abstract value of a module-level name after the module's top-level statements ran (tables such as
    pvl_validate.dialects built through helper functions, comprehensions, ** merges and later item assignments)"""
    key = (id(repo), "module", module, name)
    if key in _CACHE:
        return _CACHE[key]
    it = Interp(repo)
    mod = repo.module(module)
    env = {}
    for st in mod.tree.body:
        if isinstance(st, ast.FunctionDef):
            env[st.name] = FnRef(st, module)
            continue
        if isinstance(st, (ast.ClassDef, ast.Import, ast.ImportFrom)):
            continue
        if isinstance(st, ast.Expr) and isinstance(st.value, ast.Constant):
            continue
        if isinstance(st, ast.If):
            continue            # `if __name__ == "__main__":`
        try:
            it.block([st], env, None, None)
        except (_Return, AnalysisError):
            pass
    _CACHE[key] = env.get(name, UNK)
    return _CACHE[key]
