"""Abstract interpretation of constructors: which classes end up in an object's attributes.

``construct(repo, "ODLEncoder")`` interprets ``ODLEncoder.__init__`` -- through its ``super().__init__`` chain and
any helper of the class it calls -- with every parameter at its default (or the keyword values given), and returns
the abstract instance: ``inst.attrs["grammar"]`` is ``Inst("ODLGrammar")``, ``inst.attrs["end_delimiter"]`` is
``Const(False)`` and so on.  The rules used to *search* the constructor text for ``if x is None: x = Cls()``; a
search that does not find the idiom in the subclass silently falls through to the base class's defaults, i.e. to
the wrong pairing.  The interpreter follows the code instead; what it cannot decide is ``UNK`` and a consumer that
needs the value fails closed (AnalysisError).

Values: NONE, Const(v), ClassRef(name), Inst(cls, attrs), Tup(items), UNK.
"""
import ast

from .core import AnalysisError, norm


class V:
    pass


class _Unk(V):
    def __repr__(self):
        return "UNK"


class _NoneV(V):
    def __repr__(self):
        return "NONE"


UNK, NONE = _Unk(), _NoneV()


class Const(V):
    def __init__(self, v):
        self.v = v

    def __repr__(self):
        return f"Const({self.v!r})"


class ClassRef(V):
    def __init__(self, name):
        self.name = name

    def __repr__(self):
        return f"ClassRef({self.name})"


class Inst(V):
    def __init__(self, cls):
        self.cls, self.attrs = cls, {}

    def __repr__(self):
        return f"Inst({self.cls})"


class Tup(V):
    def __init__(self, items):
        self.items = list(items)


class _Raise(Exception):
    pass


class _Return(Exception):
    def __init__(self, value):
        self.value = value


MAX_DEPTH = 12


class Interp:
    def __init__(self, repo):
        self.repo = repo
        self.depth = 0

    # ---- expressions
    def truth(self, v):
        if v is NONE:
            return False
        if isinstance(v, Const):
            return bool(v.v)
        if isinstance(v, (Inst, ClassRef)):
            return True
        if isinstance(v, Tup):
            return bool(v.items)
        return None

    def ev(self, e, env, self_inst, cls):
        if isinstance(e, ast.Constant):
            return NONE if e.value is None else Const(e.value)
        if isinstance(e, ast.Name):
            if e.id in env:
                return env[e.id]
            if e.id in self.repo.classes:
                return ClassRef(e.id)
            if e.id in ("True", "False"):
                return Const(e.id == "True")
            return UNK
        if isinstance(e, ast.Attribute):
            base = self.ev(e.value, env, self_inst, cls)
            if isinstance(base, Inst):
                if e.attr in base.attrs:
                    return base.attrs[e.attr]
            return UNK
        if isinstance(e, ast.Tuple):
            return Tup(self.ev(x, env, self_inst, cls) for x in e.elts)
        if isinstance(e, ast.IfExp):
            t = self.truth(self.ev(e.test, env, self_inst, cls))
            if t is None:
                return UNK
            return self.ev(e.body if t else e.orelse, env, self_inst, cls)
        if isinstance(e, ast.UnaryOp) and isinstance(e.op, ast.Not):
            t = self.truth(self.ev(e.operand, env, self_inst, cls))
            return UNK if t is None else Const(not t)
        if isinstance(e, ast.BoolOp):
            last = UNK
            for v in e.values:
                last = self.ev(v, env, self_inst, cls)
                t = self.truth(last)
                if t is None:
                    return UNK
                if isinstance(e.op, ast.And) and not t:
                    return last
                if isinstance(e.op, ast.Or) and t:
                    return last
            return last
        if isinstance(e, ast.Compare) and len(e.ops) == 1:
            l = self.ev(e.left, env, self_inst, cls)
            r = self.ev(e.comparators[0], env, self_inst, cls)
            op = e.ops[0]
            if isinstance(op, (ast.Is, ast.IsNot)) and r is NONE:
                if l is UNK:
                    return UNK
                return Const((l is NONE) == isinstance(op, ast.Is))
            if isinstance(op, (ast.Eq, ast.NotEq)) and isinstance(l, Const) and isinstance(r, Const):
                return Const((l.v == r.v) == isinstance(op, ast.Eq))
            return UNK
        if isinstance(e, ast.Call):
            return self.call(e, env, self_inst, cls)
        return UNK

    def issub(self, c, base):
        return base in self.repo.mro(c)

    def call(self, e, env, self_inst, cls):
        f = e.func
        fs = norm(f)
        args = [self.ev(a, env, self_inst, cls) for a in e.args if not isinstance(a, ast.Starred)]
        kw = {k.arg: self.ev(k.value, env, self_inst, cls) for k in e.keywords if k.arg}
        if any(isinstance(a, ast.Starred) for a in e.args) or any(k.arg is None for k in e.keywords):
            starred = True
        else:
            starred = False
        if isinstance(f, ast.Name) and f.id == "isinstance" and len(args) == 2:
            obj, ty = args
            tys = ty.items if isinstance(ty, Tup) else [ty]
            if isinstance(obj, Inst) and all(isinstance(t, ClassRef) for t in tys):
                return Const(any(self.issub(obj.cls, t.name) for t in tys))
            if obj is NONE and all(isinstance(t, ClassRef) for t in tys):
                return Const(False)
            return UNK
        if isinstance(f, ast.Name) and f.id == "issubclass" and len(args) == 2 and isinstance(args[0], ClassRef):
            tys = args[1].items if isinstance(args[1], Tup) else [args[1]]
            if all(isinstance(t, ClassRef) for t in tys):
                return Const(any(self.issub(args[0].name, t.name) for t in tys))
            return UNK
        if isinstance(f, ast.Name) and f.id == "callable" and len(e.args) == 1:
            a = e.args[0]
            # callable(getattr(obj, "name", None)) / callable(obj.name)
            if isinstance(a, ast.Call) and norm(a.func) == "getattr" and len(a.args) >= 2 and isinstance(a.args[1], ast.Constant):
                o = self.ev(a.args[0], env, self_inst, cls)
                if isinstance(o, Inst):
                    return Const(self.repo.resolve_method(o.cls, a.args[1].value)[1] is not None)
            return UNK
        if isinstance(f, ast.Name) and f.id == "hasattr" and len(e.args) == 2 and isinstance(e.args[1], ast.Constant):
            o = args[0]
            if isinstance(o, Inst):
                return Const(self.repo.resolve_method(o.cls, e.args[1].value)[1] is not None or e.args[1].value in o.attrs)
            return UNK
        # super().__init__(...)
        if isinstance(f, ast.Attribute) and f.attr == "__init__" and isinstance(f.value, ast.Call) and norm(f.value.func) == "super":
            after = cls
            if f.value.args:
                after = norm(f.value.args[0])
            if starred:
                raise AnalysisError(f"constructor of {self_inst.cls}: starred arguments in a super().__init__ call are not interpreted")
            self.run_init(self_inst, after_cls=after, args=args, kwargs=kw)
            return NONE
        # instantiation
        callee = self.ev(f, env, self_inst, cls) if isinstance(f, (ast.Name, ast.Attribute)) else UNK
        if isinstance(callee, ClassRef):
            if starred:
                return Inst(callee.name)
            return self.instantiate(callee.name, args, kw)
        # helper of the class: self.h(...) / Cls.h(...)
        if isinstance(f, ast.Attribute) and isinstance(f.value, ast.Name) and (f.value.id == "self" or f.value.id in self.repo.classes):
            owner = self_inst.cls if f.value.id == "self" else f.value.id
            defcls, fn = self.repo.resolve_method(owner, f.attr)
            if fn is not None and not starred:
                decos = self.repo.classes[defcls].decorators.get(f.attr, [])
                static = "staticmethod" in decos
                return self.run_fn(fn, self_inst, defcls, args, kw, bind_self=not static)
        return UNK

    def instantiate(self, cname, args=(), kwargs=None):
        if self.depth > MAX_DEPTH:
            return Inst(cname)
        inst = Inst(cname)
        self.run_init(inst, after_cls=None, args=list(args), kwargs=dict(kwargs or {}))
        return inst

    def run_init(self, inst, after_cls, args, kwargs):
        defcls, fn = self.repo.resolve_method(inst.cls, "__init__", after=after_cls) if after_cls else self.repo.resolve_method(inst.cls, "__init__")
        if fn is None:
            return
        self.run_fn(fn, inst, defcls, args, kwargs, bind_self=True)

    def run_fn(self, fn, self_inst, defcls, args, kwargs, bind_self=True):
        self.depth += 1
        try:
            a = fn.args
            params = [x.arg for x in a.posonlyargs + a.args]
            env = {}
            if bind_self and params:
                env[params[0]] = self_inst
                params = params[1:]
            defaults = dict(zip(params[len(params) - len(a.defaults):], a.defaults)) if a.defaults else {}
            for p, v in zip(params, args):
                env[p] = v
            for k, v in kwargs.items():
                env[k] = v
            for ko, kd in zip(a.kwonlyargs, a.kw_defaults):
                if ko.arg not in env:
                    env[ko.arg] = self.ev(kd, {}, self_inst, defcls) if kd is not None else UNK
            for p in params:
                if p not in env:
                    env[p] = self.ev(defaults[p], {}, self_inst, defcls) if p in defaults else UNK
            try:
                self.block(fn.body, env, self_inst, defcls)
            except _Return as r:
                return r.value
            return NONE
        finally:
            self.depth -= 1

    # ---- statements
    def assign(self, target, value, env, self_inst):
        if isinstance(target, ast.Name):
            env[target.id] = value
        elif isinstance(target, ast.Attribute):
            base = env.get(target.value.id) if isinstance(target.value, ast.Name) else None
            if isinstance(base, Inst):
                base.attrs[target.attr] = value
        elif isinstance(target, (ast.Tuple, ast.List)):
            items = value.items if isinstance(value, Tup) and len(value.items) == len(target.elts) else [UNK] * len(target.elts)
            for t, v in zip(target.elts, items):
                self.assign(t, v, env, self_inst)

    def havoc(self, stmts, env, self_inst):
        """names / self attributes assigned somewhere in stmts become UNK (a branch that may or may not run)"""
        for s in stmts:
            for n in ast.walk(s):
                if isinstance(n, (ast.Assign, ast.AugAssign, ast.AnnAssign)):
                    for t in (n.targets if isinstance(n, ast.Assign) else [n.target]):
                        for x in ast.walk(t):
                            if isinstance(x, ast.Name) and isinstance(x.ctx, ast.Store):
                                env[x.id] = UNK
                            if isinstance(x, ast.Attribute) and isinstance(x.ctx, ast.Store) and isinstance(x.value, ast.Name):
                                b = env.get(x.value.id)
                                if isinstance(b, Inst):
                                    b.attrs[x.attr] = UNK

    def block(self, stmts, env, self_inst, cls):
        for s in stmts:
            if isinstance(s, ast.Expr):
                if isinstance(s.value, ast.Constant):
                    continue
                self.ev(s.value, env, self_inst, cls)
            elif isinstance(s, ast.Assign):
                v = self.ev(s.value, env, self_inst, cls)
                for t in s.targets:
                    self.assign(t, v, env, self_inst)
            elif isinstance(s, ast.AnnAssign) and s.value is not None:
                self.assign(s.target, self.ev(s.value, env, self_inst, cls), env, self_inst)
            elif isinstance(s, ast.AugAssign):
                self.assign(s.target, UNK, env, self_inst)
            elif isinstance(s, ast.If):
                t = self.truth(self.ev(s.test, env, self_inst, cls))
                if t is True:
                    self.block(s.body, env, self_inst, cls)
                elif t is False:
                    self.block(s.orelse, env, self_inst, cls)
                else:
                    # undecided: a branch that only raises is taken not to run (the constructor succeeds with these
                    # arguments on the unchanged tree); otherwise what either branch assigns is unknown
                    def only_raises(b):
                        return bool(b) and all(isinstance(x, (ast.Raise, ast.Expr)) for x in b) and any(isinstance(x, ast.Raise) for x in b)
                    if only_raises(s.body) and not s.orelse:
                        continue
                    self.havoc(s.body + s.orelse, env, self_inst)
            elif isinstance(s, ast.Return):
                raise _Return(self.ev(s.value, env, self_inst, cls) if s.value is not None else NONE)
            elif isinstance(s, ast.Raise):
                raise AnalysisError(f"constructor of {self_inst.cls if self_inst else cls} raises on the interpreted path "
                                    f"(`{norm(s, 60)}`): cannot derive its defaults")
            elif isinstance(s, (ast.Try,)):
                self.block(s.body, env, self_inst, cls)
                self.block(s.orelse, env, self_inst, cls)
                self.block(s.finalbody, env, self_inst, cls)
            elif isinstance(s, (ast.For, ast.While, ast.With)):
                self.havoc([s], env, self_inst)
            elif isinstance(s, (ast.Pass, ast.Import, ast.ImportFrom, ast.Global, ast.Nonlocal, ast.Assert, ast.Delete,
                                ast.FunctionDef, ast.ClassDef)):
                continue
            else:
                self.havoc([s], env, self_inst)


_CACHE = {}


def construct(repo, cname, **kwargs):
    """abstract instance of cname(**kwargs); keyword values are V objects (e.g. Inst("ODLGrammar"))"""
    key = (id(repo), cname, tuple(sorted((k, repr(v)) for k, v in kwargs.items())))
    if key not in _CACHE:
        _CACHE[key] = Interp(repo).instantiate(cname, (), kwargs)
    return _CACHE[key]


def attr_class(repo, cname, attr, **kwargs):
    """class of the object in <cname>(**kwargs).<attr>; AnalysisError when it cannot be derived"""
    inst = construct(repo, cname, **kwargs)
    v = inst.attrs.get(attr)
    if not isinstance(v, Inst):
        raise AnalysisError(f"cannot derive the class of {cname}().{attr} from its constructor (got {v!r})")
    return v.cls
