"""C18 (type-customisation hooks), C19 (pvl.new), C20 (command-line tools)."""
import ast

from .core import Finding, AnalysisError, norm, dict_entries
from . import tokproto

FORBIDDEN_CTORS = {"float", "Decimal", "Quantity", "Units", "PVLModule", "PVLGroup", "PVLObject", "PVLAggregation",
                   "OrderedMultiDict", "PVLModuleNew", "PVLGroupNew", "PVLObjectNew", "PVLMultiDict", "dict"}


def rule_token_init(repo, res, rule="TOKEN-INIT"):
    """A Token consults the grammar and the decoder it was given: in Token.__init__, whenever the grammar (decoder)
    argument is supplied it becomes self.grammar (self.decoder); another source is allowed only on the paths where
    the argument is None.  The lexer builds every token as Token(lexeme, grammar=g, decoder=d); a token that takes
    its grammar elsewhere classifies comments, white space and delimiters by another dialect's tables."""
    from . import flow
    init = repo.full("Token", "__init__")
    params = [a.arg for a in init.args.args]
    # first by abstract interpretation of the constructor (object identity): Token(x, grammar=G, decoder=D) keeps G and D,
    # Token(x, grammar=G) keeps G, Token(x, decoder=D) keeps D -- whatever helpers the constructor delegates to
    from . import ctor
    try:
        G, D = ctor.Inst("PVLGrammar"), ctor.Inst("PVLDecoder")
        D.attrs["grammar"] = ctor.Inst("PVLGrammar")
        cases = {"grammar": [dict(grammar=G, decoder=D), dict(grammar=G)], "decoder": [dict(grammar=G, decoder=D), dict(decoder=D)]}
        verdict = {}
        for attr, kws in cases.items():
            got = [ctor.construct(repo, "Token", content=ctor.Const("x"), **kw).attrs.get(attr) for kw in kws]
            want = G if attr == "grammar" else D
            if any(v is ctor.UNK or v is None for v in got):
                verdict = None
                break
            verdict[attr] = all(v is want for v in got)
    except AnalysisError:
        verdict = None
    if verdict is not None and all(verdict.values()):
        for attr in ("grammar", "decoder"):
            if attr not in params:
                raise AnalysisError(f"anchor vanished: parameter {attr} of Token.__init__")
            res.oblige(rule, f"Token.__init__: a supplied {attr} argument is the token's {attr} (constructor interpreted: object identity)", ok=True)
        return
    sc = flow.stmts_with_conds(init.body)
    for attr in ("grammar", "decoder"):
        if attr not in params:
            raise AnalysisError(f"anchor vanished: parameter {attr} of Token.__init__")
        assigns = [(st, c) for st, c in sc if isinstance(st, ast.Assign) and any(norm(t) == f"self.{attr}" for t in st.targets)]
        res.floor(f"assignments of self.{attr} in Token.__init__", len(assigns), 1)

        def is_none(t, p, attr=attr):
            return isinstance(t, ast.Compare) and len(t.ops) == 1 and norm(t.left) == attr and norm(t.comparators[0]) == "None" \
                and ((isinstance(t.ops[0], ast.Is) and p) or (isinstance(t.ops[0], ast.IsNot) and not p))
        bad = [st for st, c in assigns if norm(st.value) != attr and not flow.holds(c, is_none)]
        direct = [st for st, c in assigns if norm(st.value) == attr]
        ok = not bad and bool(direct)
        res.oblige(rule, f"Token.__init__: a supplied {attr} argument is the token's {attr} (other sources only when it is None)", ok=ok)
        if not ok:
            what = f"`{norm(bad[0], 60)}` on a path where {attr} may be given" if bad else f"self.{attr} = {attr} is gone"
            res.add(Finding(rule, "Token.__init__", f"self.{attr}",
                            f"Token.__init__ does not keep the {attr} it is given ({what}): a token built by the lexer as "
                            f"Token(lexeme, grammar=g, decoder=d) classifies its text by another object's tables -- comments, "
                            "white space, delimiters and keywords of the caller's grammar are not recognised",
                            where=f"pvl/token.py:{(bad[0] if bad else init).lineno}"))


def _token_calls(stmts, repo=None, cls=None, depth=0):
    """names, in source order, of the self.<production>(..., tokens) calls of a statement list; a call to a private
    helper of the class (self._h(..., tokens)) stands for the helper's own sequence"""
    out = []
    for st in stmts:
        calls = [n for n in ast.walk(st) if isinstance(n, ast.Call) and isinstance(n.func, ast.Attribute)
                 and norm(n.func.value) == "self" and any(isinstance(a, ast.Name) and a.id == "tokens" for a in n.args)]
        calls.sort(key=lambda n: (n.lineno, n.col_offset))
        for n in calls:
            if repo is not None and cls is not None and n.func.attr.startswith("_") and not n.func.attr.startswith("__") and depth < 4:
                dc, h = repo.full_resolved(cls, n.func.attr)
                if h is not None:
                    out += _token_calls(h.body, repo, cls, depth + 1)
                    continue
            out.append((n.func.attr, tuple(norm(a) for a in n.args)))
    return out


def rule_hook_tail(repo, res):
    """HOOK-TAIL (sibling agreement): the empty-value repair of OmniParser.parse_module_post_hook re-reads the rest of
    an assignment after its '=' by hand ("we must reproduce the last part of parse-assignment"); the productions it
    calls on the token stream around parse_value must be the ones PVLParser.parse_assignment_statement and
    parse_around_equals call there -- otherwise the statement after a missing value is parsed by another grammar
    than every other statement (a ';' not consumed, a comment not skipped).  Private helpers are read in place."""
    from .inline import closure
    pa = repo.full("PVLParser", "parse_assignment_statement")
    seq = _token_calls(pa.body, repo, "PVLParser")
    names = [n for n, _ in seq]
    if "parse_value" not in names or "parse_around_equals" not in names:
        raise AnalysisError("anchor vanished: parse_around_equals / parse_value calls of PVLParser.parse_assignment_statement")
    after_ref = seq[names.index("parse_value") + 1:]
    ae = repo.full("PVLParser", "parse_around_equals")
    # what parse_around_equals does after the '=' is found: the calls that follow its `parse_WSC_until("=", tokens)` test
    aseq = _token_calls(ae.body, repo, "PVLParser")
    eq = [i for i, (n, a) in enumerate(aseq) if n == "parse_WSC_until" and a and a[0] in ("'='", '"="')]
    if not eq:
        raise AnalysisError("anchor vanished: parse_WSC_until('=', tokens) in PVLParser.parse_around_equals")
    before_ref = [x for x in aseq[eq[0] + 1:] if x[0] != "_peek" and not x[0].startswith("_")]
    hook = repo.full("OmniParser", "parse_module_post_hook")
    # the try block (of the hook or of a private helper it calls) that re-reads a value
    tries = []
    for owner, f_ in closure(repo, "OmniParser", hook, module="parser"):
        tries += [t for t in ast.walk(f_) if isinstance(t, ast.Try) and any(n == "parse_value" for n, _ in _token_calls(t.body))]
    # innermost try that holds the parse_value call
    tries.sort(key=lambda t: len(list(ast.walk(t))))
    res.floor("try blocks of parse_module_post_hook that re-read a value", len(tries), 1)
    hseq = _token_calls(tries[0].body, repo, "OmniParser")
    hn = [n for n, _ in hseq]
    k = hn.index("parse_value")
    ok_after = hseq[k + 1:] == after_ref
    ok_before = hseq[:k] == before_ref
    res.oblige("HOOK-TAIL", f"parse_module_post_hook: after parse_value it calls {[n for n, _ in after_ref]} like parse_assignment_statement", ok=ok_after)
    if not ok_after:
        res.add(Finding("HOOK-TAIL", "OmniParser.parse_module_post_hook", "after the re-read value",
                        f"after re-reading the value, the repair hook calls {[f'{n}({', '.join(a)})' for n, a in hseq[k + 1:]]} where "
                        f"parse_assignment_statement calls {[f'{n}({', '.join(a)})' for n, a in after_ref]}: the statement that follows a "
                        "missing value is not finished the way every other assignment is (its statement delimiter stays in the "
                        "stream and no production accepts it)", where=f"pvl/parser.py:{tries[0].lineno}"))
    res.oblige("HOOK-TAIL", f"parse_module_post_hook: before parse_value it calls {[n for n, _ in before_ref]} like parse_around_equals after '='", ok=ok_before)
    if not ok_before:
        res.add(Finding("HOOK-TAIL", "OmniParser.parse_module_post_hook", "before the re-read value",
                        f"before re-reading the value, the repair hook calls {[f'{n}({', '.join(a)})' for n, a in hseq[:k]]} where "
                        f"parse_around_equals calls {[f'{n}({', '.join(a)})' for n, a in before_ref]} after the '='",
                        where=f"pvl/parser.py:{tries[0].lineno}"))


def rule_h3(repo, res, rule="H3"):
    """H3: a quantity class that refuses a units text makes decode_quantity raise QuantityError, and that error must
    reach the caller: QuantityError must not be a subclass of an exception class the parser's productions catch
    (ValueError, StopIteration, ... -- read from the except clauses of pvl/parser.py), or parse_value swallows it,
    returns the bare number and drops the units token: a value-with-units silently stops being an instance of the
    substitute class."""
    from .tokproto import ExcLattice
    lat = ExcLattice(repo)
    if "QuantityError" not in repo.modules["exceptions"].classes:
        raise AnalysisError("anchor vanished: exceptions.QuantityError")
    dq = repo.full("PVLDecoder", "decode_quantity")
    raised = [n for n in ast.walk(dq) if isinstance(n, ast.Raise) and n.exc is not None and "QuantityError" in norm(n.exc)]
    res.floor("raise QuantityError in PVLDecoder.decode_quantity", len(raised), 1)
    caught = set()
    for cname, cnode in repo.modules["parser"].classes.items():
        for h in ast.walk(cnode):
            if isinstance(h, ast.ExceptHandler) and h.type is not None and \
                    not (len(h.body) == 1 and isinstance(h.body[0], ast.Raise) and h.body[0].exc is None):   # `except X: raise` passes it on
                for t in (h.type.elts if isinstance(h.type, ast.Tuple) else [h.type]):
                    caught.add(norm(t).split(".")[-1])
    caught -= {"Exception", "BaseException"}
    res.floor("exception classes caught by parser productions", len(caught), 2)
    anc = [c for c in sorted(caught) if c != "QuantityError" and lat.issub("QuantityError", c)]
    ok = not anc
    res.oblige(rule, f"QuantityError is not a subclass of an exception the parser's productions catch ({sorted(caught)})", ok=ok)
    if not ok:
        res.add(Finding(rule, "exceptions.QuantityError", f"subclass of {anc[0]}",
                        f"QuantityError derives from {anc[0]}, which the parser's productions catch (`except ({', '.join(sorted(caught))})` "
                        "clauses of pvl/parser.py): when the caller's quantity class refuses a units text, parse_value swallows the "
                        "error, returns the bare number and drops the units token instead of reporting it",
                        where=f"pvl/exceptions.py:{repo.modules['exceptions'].classes['QuantityError'].lineno}"))


def rule_aggcls(repo, res, rule="H1"):
    """group keywords build the group class, object keywords the object class (C03: the kind of block in the tree;
    C18: the substitute container classes)"""
    from . import canon
    repo.full("PVLParser", "aggregation_cls")
    ac = canon.canon_method(repo, "PVLParser", "aggregation_cls")
    # each return of the function itself (not of a nested def) and the grammar tables its guards consult:
    # enclosing `if` tests and `for` iterables on the way to the return
    par = {}
    for n in ast.walk(ac):
        for ch in ast.iter_child_nodes(n):
            par[ch] = n
    rets, guards = [], {}
    for r in ast.walk(ac):
        if not isinstance(r, ast.Return) or r.value is None:
            continue
        p, inner, tabs = par.get(r), False, set()
        child = r
        while p is not None and p is not ac:
            if isinstance(p, (ast.FunctionDef, ast.Lambda)):
                inner = True
            g = None
            if isinstance(p, ast.If) and child in p.body:
                g = p.test
            elif isinstance(p, ast.For) and child in p.body:
                g = p.iter
            if g is not None:
                for x in ast.walk(g):
                    if isinstance(x, ast.Attribute) and norm(x.value) == "self.grammar":
                        tabs.add(x.attr)
                    # a local predicate (nested def / lambda) that closes over nothing but the begin keyword is followed
            child, p = p, par.get(p)
        if inner:
            continue
        rets.append(norm(r.value))
        guards.setdefault(norm(r.value), set()).update(tabs)
    ok = sorted(set(rets)) == ["self.grpcls()", "self.objcls()"] and guards.get("self.grpcls()") == {"group_keywords"} \
        and guards.get("self.objcls()") == {"object_keywords"}
    res.oblige(rule, "PVLParser.aggregation_cls: group keywords -> self.grpcls(), object keywords -> self.objcls()", ok=ok)
    if not ok:
        res.add(Finding(rule, "PVLParser.aggregation_cls", "keyword -> class", f"aggregation_cls returns {rets}: groups and objects "
                        "get the wrong container class", where=f"pvl/parser.py:{ac.lineno}"))


def rule_h1(repo, res):
    """H1: on value paths of decoder.py / parser.py nothing constructs float, Quantity or a pvl container directly --
    only self.real_cls, self.quantity_cls, self.modcls / grpcls / objcls (and the text of a real reaches real_cls
    through str() only)."""
    n = 0
    for base in ("PVLDecoder", "PVLParser"):
        for c in repo.subclasses(base):
            for m, fn in repo.classes[c].methods.items():
                if m == "__init__":
                    continue
                n += 1
                bad = []
                for x in ast.walk(fn):
                    if isinstance(x, ast.Call) and isinstance(x.func, ast.Name) and x.func.id in FORBIDDEN_CTORS:
                        bad.append(x)
                res.oblige("H1", f"{c}.{m} constructs no float / Quantity / container class directly", ok=not bad, nontrivial=False)
                for x in bad:
                    res.add(Finding("H1", f"{c}.{m}", norm(x, 60),
                                    f"{c}.{m} constructs `{norm(x, 60)}` directly instead of the caller's substitute class "
                                    "(real_cls / quantity_cls / module, group, object classes): the hook does not apply here",
                                    where=f"pvl/{repo.classes[c].module.name}.py:{x.lineno}"))
    res.floor("decoder/parser methods scanned", n, 40)
    # the hooks are used where values are made
    fn = repo.full("PVLDecoder", "decode_decimal")
    calls = [x for x in ast.walk(fn) if isinstance(x, ast.Call) and norm(x.func) == "self.real_cls"]
    ok = len(calls) >= 1 and all(len(c.args) == 1 and norm(c.args[0]) in ("str(value)", "value") for c in calls)
    res.oblige("H1", "PVLDecoder.decode_decimal hands the token text (str(value)) unaltered to self.real_cls", ok=ok)
    if not ok:
        res.add(Finding("H1", "PVLDecoder.decode_decimal", "self.real_cls(str(value))",
                        "decode_decimal no longer hands the unaltered token text to real_cls: Decimal loses written digits",
                        where=f"pvl/decoder.py:{fn.lineno}"))
    ints = [x for x in ast.walk(fn) if isinstance(x, ast.Call) and norm(x.func) == "int"]
    # int first: integers stay int
    first = None
    for x in ast.walk(fn):
        if isinstance(x, ast.Try):
            first = x
            break
    ok = first is not None and any(isinstance(b, ast.Return) and norm(b.value).startswith("int(") for b in first.body)
    res.oblige("H1", "PVLDecoder.decode_decimal tries int() first, so integers stay int whatever real_cls is", ok=ok)
    if not ok:
        res.add(Finding("H1", "PVLDecoder.decode_decimal", "int first", "decode_decimal no longer tries int() before real_cls",
                        where=f"pvl/decoder.py:{fn.lineno}"))
    fn = repo.full("PVLDecoder", "decode_quantity")
    ok = any(isinstance(x, ast.Call) and norm(x.func) == "self.quantity_cls" and len(x.args) == 2 and norm(x.args[0]) == "value"
             for x in ast.walk(fn))
    res.oblige("H1", "PVLDecoder.decode_quantity builds self.quantity_cls(value, str(unit))", ok=ok)
    if not ok:
        res.add(Finding("H1", "PVLDecoder.decode_quantity", "self.quantity_cls(value, …)", "decode_quantity no longer builds the "
                        "caller's quantity class from the decoded value", where=f"pvl/decoder.py:{fn.lineno}"))
    for attr, param in (("real_cls", "real_cls"), ("quantity_cls", "quantity_cls")):
        init = repo.full("PVLDecoder", "__init__")
        ok = any(isinstance(x, ast.Assign) and norm(x.targets[0]) == f"self.{attr}" and
                 any(isinstance(y, ast.Name) and y.id == param for y in ast.walk(x.value)) for x in ast.walk(init))
        res.oblige("H1", f"PVLDecoder.__init__ stores the {param} argument", ok=ok)
        if not ok:
            res.add(Finding("H1", "PVLDecoder.__init__", f"self.{attr} = {param}", f"the {param} argument is not stored",
                            where=f"pvl/decoder.py:{init.lineno}"))
    # subclasses forward the hooks to the base constructor
    for c in repo.subclasses("PVLDecoder", strict=True):
        init = repo.classes[c].methods.get("__init__")
        if init is None:
            continue
        params = [a.arg for a in init.args.args]
        for hook in ("quantity_cls", "real_cls"):
            if hook not in params:
                continue
            calls = [x for x in ast.walk(init) if isinstance(x, ast.Call) and isinstance(x.func, ast.Attribute) and x.func.attr == "__init__"]
            ok = bool(calls) and all(any(k.arg == hook and norm(k.value) == hook for k in cl.keywords) for cl in calls)
            res.oblige("H1", f"{c}.__init__ forwards {hook} to its base constructor", ok=ok)
            if not ok:
                res.add(Finding("H1", f"{c}.__init__", f"forwards {hook}", f"{c}.__init__ accepts {hook} but does not forward it: "
                                "the substitute class is silently ignored for this decoder", where=f"pvl/decoder.py:{init.lineno}"))
    pm = repo.full("PVLParser", "parse_module")
    ok = any(isinstance(x, ast.Call) and norm(x.func) == "self.modcls" for x in ast.walk(pm))
    res.oblige("H1", "PVLParser.parse_module builds self.modcls()", ok=ok)
    if not ok:
        res.add(Finding("H1", "PVLParser.parse_module", "self.modcls()", "parse_module no longer builds the caller's module class",
                        where=f"pvl/parser.py:{pm.lineno}"))
    rule_aggcls(repo, res)
    init = repo.full("PVLParser", "__init__")
    for attr, param in (("modcls", "module_class"), ("grpcls", "group_class"), ("objcls", "object_class")):
        ok = any(isinstance(x, ast.Assign) and norm(x.targets[0]) == f"self.{attr}" and
                 any(isinstance(y, ast.Name) and y.id == param for y in ast.walk(x.value)) for x in ast.walk(init))
        res.oblige("H1", f"PVLParser.__init__ stores {param} as self.{attr}", ok=ok)
        if not ok:
            res.add(Finding("H1", "PVLParser.__init__", f"self.{attr} = {param}", f"{param} is not stored as self.{attr}",
                            where=f"pvl/parser.py:{init.lineno}"))
    # nested values go through the same decoder: parse_value -> self.decoder.decode_simple_value; units -> decode_quantity
    pv = repo.full("PVLParser", "parse_value")
    ok = any(isinstance(x, ast.Call) and norm(x.func) == "self.decoder.decode_simple_value" for x in ast.walk(pv))
    res.oblige("H1", "PVLParser.parse_value decodes every simple value with self.decoder", ok=ok)
    if not ok:
        res.add(Finding("H1", "PVLParser.parse_value", "self.decoder.decode_simple_value", "parse_value no longer uses the "
                        "parser's decoder", where=f"pvl/parser.py:{pv.lineno}"))
    pu = repo.full("PVLParser", "parse_units")
    ok = any(isinstance(r, ast.Return) and norm(r.value).startswith("self.decoder.decode_quantity(value") for r in ast.walk(pu))
    res.oblige("H1", "PVLParser.parse_units returns self.decoder.decode_quantity(value, units)", ok=ok)
    if not ok:
        res.add(Finding("H1", "PVLParser.parse_units", "self.decoder.decode_quantity", "parse_units no longer builds the "
                        "quantity through the decoder", where=f"pvl/parser.py:{pu.lineno}"))


def rule_token_src(repo, res):
    """TOKEN-SRC: a Token the parser builds stands for text of the document: its content is a lexer token, a slice of
    self.doc or a str() of one -- never a *decoded value* taken back out of the module being built.  The decoded value
    of `NULL` is None, of `TRUE` True, of `12:00:00Z` a time object: str() of those is another text ('None', 'True',
    '12:00:00+00:00'), so a name recovered that way is not the name in the label."""
    n = 0
    for c in sorted(repo.subclasses("PVLParser")):
        for m, fn in repo.classes[c].methods.items():
            ps = {a.arg for a in fn.args.args}
            containers = {p_ for p_ in ps if p_ in ("module", "m", "agg", "container", "mod")}
            if not containers:
                continue
            # names bound from items of the container: (k, v) = module[-1] / v = module[-1][1] / for k, v in module ...
            from_items = set()
            for a in ast.walk(fn):
                if isinstance(a, ast.Assign) and any(isinstance(x, ast.Subscript) and isinstance(x.value, ast.Name) and x.value.id in containers
                                                     for x in ast.walk(a.value)):
                    for t in a.targets:
                        for x in ast.walk(t):
                            if isinstance(x, ast.Name):
                                from_items.add(x.id)
            for call in [x for x in ast.walk(fn) if isinstance(x, ast.Call) and norm(x.func) == "Token" and x.args]:
                n += 1
                a0 = call.args[0]
                bad = any(isinstance(x, ast.Name) and x.id in from_items for x in ast.walk(a0))
                res.oblige("TOKEN-SRC", f"{c}.{m} `{norm(call, 60)}` is built from document text", ok=not bad)
                if bad:
                    res.add(Finding("TOKEN-SRC", f"{c}.{m}", "Token built from a decoded value",
                                    f"{c}.{m} builds `{norm(call, 70)}` from a value it takes back out of the module: that is the "
                                    "*decoded* value, and str() of a decoded NULL / TRUE / date-time is not the text that stood in "
                                    "the label ('None', 'True', '12:00:00+00:00'): a parameter name recovered this way is altered",
                                    where=f"pvl/parser.py:{call.lineno}"))
    res.oblige("TOKEN-SRC", f"{n} Token construction(s) in parser methods that hold a container examined", ok=True, nontrivial=False)


def rule_h5(repo, res):
    """H5: an object the caller hands to a parser, decoder or encoder is used as it is.  Abstract interpretation of the
    constructors (vsa.ctor) with a given decoder D and grammar G: afterwards self.decoder *is* D and self.grammar *is*
    G (object identity).  A constructor that rebuilds the caller's decoder (type(decoder)(grammar=...)) silently
    drops its real_cls / quantity_cls."""
    from . import ctor
    n = 0
    for base, given in (("PVLParser", ("grammar", "decoder")), ("PVLEncoder", ("grammar", "decoder")), ("PVLDecoder", ("grammar",))):
        for c in sorted(repo.subclasses(base)):
            G = ctor.Inst("OmniGrammar")
            D = ctor.Inst("OmniDecoder")
            kwargs = {"grammar": G}
            if "decoder" in given:
                kwargs["decoder"] = D
            try:
                inst = ctor.construct(repo, c, **kwargs)
            except AnalysisError as x:
                raise AnalysisError(f"H5: constructor of {c} not interpretable: {x}")
            for name, obj in (("grammar", G), ("decoder", D)):
                if name not in given:
                    continue
                n += 1
                ok = inst.attrs.get(name) is obj
                res.oblige("H5", f"{c}({', '.join(k + '=<given>' for k in kwargs)}).{name} is the caller's object", ok=ok)
                if not ok:
                    res.add(Finding("H5", f"{c}.__init__", f"self.{name} is not the given {name}",
                                    f"{c}(..., {name}=X) does not keep X as self.{name} (it holds `{inst.attrs.get(name)!r}`): a "
                                    f"{name} the caller configured (real_cls, quantity_cls, tables) is replaced by another object",
                                    where=f"pvl/{repo.classes[c].module.name}.py:{repo.classes[c].node.lineno}"))
    res.floor("H5 constructor obligations", n, 10)


def rule_v6(repo, res):
    """V6: the pvl.new container family compares names like the default family -- case-sensitively: its third-party
    base is multidict's MultiDict, not the case-insensitive CIMultiDict (item assignment would then replace, and
    delete, names that differ only in letter case)."""
    mod = repo.module("collections")
    c = mod.classes.get("PVLMultiDict")
    if c is None:
        raise AnalysisError("anchor vanished: class PVLMultiDict in pvl/collections.py")
    bases = [norm(b) for b in c.bases]
    ok = any(b.split(".")[-1] == "MultiDict" for b in bases) and not any("CI" in b.split(".")[-1] for b in bases)
    res.oblige("V6", f"PVLMultiDict derives from MultiDict (bases {bases})", ok=ok)
    if not ok:
        res.add(Finding("V6", "PVLMultiDict", "third-party base class", f"PVLMultiDict derives from {bases}: names are no longer "
                        "compared case-sensitively as in OrderedMultiDict, so keyed replacement treats Core and core as one name",
                        where=f"pvl/collections.py:{c.lineno}"))


def rule_v5(repo, res):
    """V5: in both container families, append(key, value) takes exactly a key and a value (no default that stands for
    "not given": None is the value of a PVL NULL) and adds that one pair whatever the value is -- no test on the value."""
    n = 0
    for cname, cnode in repo.module("collections").classes.items():
        fn = next((x for x in cnode.body if isinstance(x, ast.FunctionDef) and x.name == "append"), None)
        if fn is None:
            continue
        n += 1
        a = fn.args
        params = [x.arg for x in a.args]
        sig_ok = len(params) == 3 and not a.defaults and not a.vararg and not a.kwarg and not a.kwonlyargs
        vname = params[2] if len(params) >= 3 else None
        tests = [t for t in ast.walk(fn) if isinstance(t, (ast.If, ast.IfExp, ast.While)) and vname is not None
                 and any(isinstance(x, ast.Name) and x.id == vname for x in ast.walk(t.test))]
        ok = sig_ok and not tests
        res.oblige("V5", f"{cname}.append(self, key, value): no default and no test on the value", ok=ok)
        if not ok:
            why = "its signature is " + norm(fn.args, 60) if not sig_ok else f"it tests the value (`{norm(tests[0].test, 50)}`)"
            res.add(Finding("V5", f"{cname}.append", "value-dependent append",
                            f"{cname}.append does not simply add (key, value): {why}.  The parser appends every decoded value, and "
                            "None (a PVL NULL), 0, '' and empty containers are values like any other", where=f"pvl/collections.py:{fn.lineno}"))
    res.floor("append methods of the container classes", n, 2)


def rule_h4(repo, res):
    """H4: the values parse_value() returns reach the set / sequence they belong to unchanged.  In every parser class,
    parse_set / parse_sequence return the collection _parse_set_seq built (or frozenset/set/list/tuple of it), and
    _parse_set_seq appends exactly what parse_value returned.  A per-element conversion (a comprehension or helper
    applied to the elements) rebuilds values: a Quantity (a namedtuple, so also a Sequence) of the caller's class
    becomes a plain tuple, a Decimal a float."""
    n = 0
    for P in sorted(repo.subclasses("PVLParser")):
        for m in ("parse_set", "parse_sequence"):
            defcls, fn = repo.resolve_method(P, m)
            if fn is None:
                raise AnalysisError(f"anchor vanished: {P}.{m}")
            if defcls != P and P != "PVLParser":
                continue                       # inherited: examined at the defining class
            fn = repo.full(defcls, m)
            coll = {t.id for a in ast.walk(fn) if isinstance(a, ast.Assign) and isinstance(a.value, ast.Call)
                    and norm(a.value.func) in ("self._parse_set_seq", "list", "[]") for t in a.targets if isinstance(t, ast.Name)}
            coll |= {t.id for a in ast.walk(fn) if isinstance(a, ast.Assign) and isinstance(a.value, ast.List) and not a.value.elts
                     for t in a.targets if isinstance(t, ast.Name)}
            for r in [x for x in ast.walk(fn) if isinstance(x, ast.Return) and x.value is not None]:
                n += 1
                v = r.value
                ok = (isinstance(v, ast.Name) and v.id in coll) or \
                     (isinstance(v, ast.Call) and norm(v.func) == "self._parse_set_seq") or \
                     (isinstance(v, ast.Call) and norm(v.func) in ("frozenset", "set", "list", "tuple") and len(v.args) == 1 and not v.keywords
                      and ((isinstance(v.args[0], ast.Name) and v.args[0].id in coll)
                           or (isinstance(v.args[0], ast.Call) and norm(v.args[0].func) == "self._parse_set_seq")))
                res.oblige("H4", f"{defcls}.{m} `{norm(r, 60)}` returns the parsed elements as they are", ok=ok)
                if not ok:
                    res.add(Finding("H4", f"{defcls}.{m}", "elements converted on the way into the collection",
                                    f"{defcls}.{m} returns `{norm(v, 80)}`: the elements parse_value() produced are rebuilt one by "
                                    "one instead of being collected as they are, so values of the caller's substitute classes "
                                    "(a Quantity subclass, a real_cls) lose their class inside sets / sequences",
                                    where=f"pvl/parser.py:{r.lineno}"))
        defcls, fn = repo.resolve_method(P, "_parse_set_seq")
        if fn is not None and (defcls == P or P == "PVLParser"):
            fn = repo.full(defcls, "_parse_set_seq")
            direct = {t.id for a in ast.walk(fn) if isinstance(a, ast.Assign) and isinstance(a.value, ast.Call)
                      and norm(a.value.func) == "self.parse_value" for t in a.targets if isinstance(t, ast.Name)}
            for c in [x for x in ast.walk(fn) if isinstance(x, ast.Call) and isinstance(x.func, ast.Attribute) and x.func.attr in ("append", "add", "insert")]:
                a = c.args[-1] if c.args else None
                n += 1
                ok = a is not None and ((isinstance(a, ast.Call) and norm(a.func) == "self.parse_value") or (isinstance(a, ast.Name) and a.id in direct))
                res.oblige("H4", f"{defcls}._parse_set_seq `{norm(c, 60)}` stores what parse_value returned", ok=ok)
                if not ok:
                    res.add(Finding("H4", f"{defcls}._parse_set_seq", "element converted before it is stored",
                                    f"{defcls}._parse_set_seq stores `{norm(a, 60) if a is not None else '?'}` instead of the value "
                                    "parse_value() returned", where=f"pvl/parser.py:{c.lineno}"))
    res.floor("H4 return / store sites of sets and sequences", n, 4)


def rule_h2(repo, res):
    """H2: no isinstance test for a real-number type (float, Decimal, numbers.Real, ...) on a decoded value in parser
    or encoder that ignores the caller's real_cls (Decimal is not a numbers.Real; a user class need not be one)."""
    n = 0
    for modname in ("parser", "encoder"):
        mod = repo.module(modname)
        for fn in [x for x in ast.walk(mod.tree) if isinstance(x, ast.FunctionDef)]:
            for x in ast.walk(fn):
                if isinstance(x, ast.Call) and isinstance(x.func, ast.Name) and x.func.id == "isinstance" and len(x.args) == 2:
                    ty = x.args[1]
                    names = [norm(t) for t in (ty.elts if isinstance(ty, ast.Tuple) else [ty])]
                    REALS = {"float", "Decimal", "decimal.Decimal", "numbers.Real", "numbers.Number", "numbers.Rational",
                             "numbers.Complex", "Real", "Number", "Fraction", "complex"}
                    if not (set(names) & REALS):
                        continue
                    n += 1
                    # find the whole boolean context: `isinstance(v, int) or isinstance(v, float)`
                    ctx = x
                    while isinstance(getattr(ctx, "_parent", None), ast.BoolOp):
                        ctx = ctx._parent
                    ok = "real_cls" in norm(ctx) or "numeric_types" in norm(ctx)
                    owner = getattr(fn, "_parent", None)
                    q = (owner.name + "." if isinstance(owner, ast.ClassDef) else "") + fn.name
                    res.oblige("H2", f"{q}: `{norm(ctx, 70)}` also admits the decoder's real_cls", ok=ok)
                    if not ok:
                        res.add(Finding("H2", q, norm(ctx, 80),
                                        f"{q} tests `{norm(ctx, 80)}` on a decoded value: with a substitute real-number class "
                                        "(e.g. Decimal) the value is not recognised as a number", where=f"pvl/{modname}.py:{x.lineno}"))
    # encoder numeric_types includes the decoder's real_cls
    init = repo.full("PVLEncoder", "__init__")
    nt = [x for x in ast.walk(init) if isinstance(x, ast.Assign) and norm(x.targets[0]) == "self.numeric_types"]
    ok = bool(nt) and "self.decoder.real_cls" in norm(nt[0].value)
    res.oblige("H2", "PVLEncoder.numeric_types includes self.decoder.real_cls", ok=ok)
    if not ok:
        res.add(Finding("H2", "PVLEncoder.__init__", "numeric_types", "numeric_types no longer includes the decoder's real_cls",
                        where=f"pvl/encoder.py:{init.lineno}"))


# ------------------------------------------------------------------ C19
def _normalised(fn, drop_kwargs=()):
    """ast.dump of a function with docstring removed and the named keyword arguments of calls dropped."""
    import copy
    f = copy.deepcopy(fn)
    if f.body and isinstance(f.body[0], ast.Expr) and isinstance(f.body[0].value, ast.Constant) and isinstance(f.body[0].value.value, str):
        f.body = f.body[1:]
    for n in ast.walk(f):
        if isinstance(n, ast.Call):
            n.keywords = [k for k in n.keywords if k.arg not in drop_kwargs]

    class Displays(ast.NodeTransformer):      # dict() / list() / tuple() / set() without arguments == empty displays
        def visit_Call(self, n):
            self.generic_visit(n)
            if isinstance(n.func, ast.Name) and not n.args and not n.keywords:
                if n.func.id == "dict":
                    return ast.Dict(keys=[], values=[])
                if n.func.id == "list":
                    return ast.List(elts=[], ctx=ast.Load())
                if n.func.id == "tuple":
                    return ast.Tuple(elts=[], ctx=ast.Load())
            return n
    f = Displays().visit(f)
    # local names are irrelevant: rename them by order of first binding (parameters keep their names)
    params = {a.arg for a in f.args.args + f.args.kwonlyargs} | ({f.args.vararg.arg} if f.args.vararg else set()) | \
        ({f.args.kwarg.arg} if f.args.kwarg else set())
    order = {}
    for n in ast.walk(ast.Module(body=f.body, type_ignores=[])):
        if isinstance(n, ast.Name) and isinstance(n.ctx, ast.Store) and n.id not in params and n.id not in order:
            order[n.id] = f"_v{len(order)}"
        if isinstance(n, ast.ExceptHandler) and n.name and n.name not in order:
            order[n.name] = f"_v{len(order)}"
    for n in ast.walk(f):
        if isinstance(n, ast.Name) and n.id in order:
            n.id = order[n.id]
        if isinstance(n, ast.ExceptHandler) and n.name in order:
            n.name = order[n.name]
    # a temporary bound once and used once right after is inlined:  p = Path(path); return p.write_text(..)
    return ast.dump(_inline_temps(ast.Module(body=f.body, type_ignores=[])), include_attributes=False)


def _inline_temps(mod):
    """`x = E` immediately followed by a statement that uses x exactly once (and nowhere else later) -> substituted."""
    import copy

    def do_block(body):
        out = []
        i = 0
        while i < len(body):
            st = body[i]
            for field in ("body", "orelse", "finalbody"):
                if hasattr(st, field) and isinstance(getattr(st, field), list):
                    setattr(st, field, do_block(getattr(st, field)))
            if hasattr(st, "handlers"):
                for h in st.handlers:
                    h.body = do_block(h.body)
            if isinstance(st, ast.Assign) and len(st.targets) == 1 and isinstance(st.targets[0], ast.Name) and i + 1 < len(body):
                name = st.targets[0].id
                nxt = body[i + 1]
                uses = [n for n in ast.walk(nxt) if isinstance(n, ast.Name) and n.id == name and isinstance(n.ctx, ast.Load)]
                later = [n for s2 in body[i + 2:] for n in ast.walk(s2) if isinstance(n, ast.Name) and n.id == name]
                if len(uses) == 1 and not later and isinstance(nxt, (ast.Return, ast.Expr, ast.Assign)):
                    class Sub(ast.NodeTransformer):
                        def visit_Name(self, n):
                            if n.id == name and isinstance(n.ctx, ast.Load):
                                return copy.deepcopy(st.value)
                            return n
                    body[i + 1] = Sub().visit(nxt)
                    i += 1
                    continue
            out.append(st)
            i += 1
        return out
    mod.body = do_block(mod.body)
    # if/else with a negated test -> canonical polarity
    for n in ast.walk(mod):
        if isinstance(n, ast.If) and isinstance(n.test, ast.UnaryOp) and isinstance(n.test.op, ast.Not) and n.orelse:
            n.test, n.body, n.orelse = n.test.operand, n.orelse, n.body
    return mod


NEW_KWARGS = {"loads": {"module_class": "PVLModuleNew", "group_class": "PVLGroupNew", "object_class": "PVLObjectNew"},
              "dumps": {"group_class": "PVLGroupNew", "object_class": "PVLObjectNew"}}


def rule_v1(repo, res):
    """V1 on the outcome terms of the entry points (vsa.entryrules)"""
    from .entryrules import rule_v1 as v1
    return v1(repo, res)


def rule_v1_shape(repo, res):
    """V1 sibling diff: new.load/loadu/loads/dump/dumps equal pvl's except for the added container-class keywords."""
    old, new = repo.module("__init__"), repo.module("new")
    for name in ("load", "loadu", "loads", "dump", "dumps"):
        a, b = old.functions.get(name), new.functions.get(name)
        if a is None or b is None:
            raise AnalysisError(f"anchor vanished: {name} in pvl/__init__.py or pvl/new.py")
        drop = tuple(NEW_KWARGS.get(name, {})) + (("encoding",) if name == "load" else ())
        same = _normalised(a, drop) == _normalised(b, drop)
        if name == "load":
            # pvl.load has an extra `encoding` parameter passed to get_text_from; compare bodies modulo that keyword
            same = _normalised(a, drop) == _normalised(b, drop)
        res.oblige("V1", f"pvl.new.{name} is pvl.{name} up to the container-class keyword arguments", ok=same)
        if not same:
            res.add(Finding("V1", f"new.{name}", "differs from pvl." + name,
                            f"pvl.new.{name} differs from pvl.{name} in more than the container-class arguments: the two "
                            "families of loaders/dumpers no longer behave alike", where=f"pvl/new.py:{b.lineno}"))
        for kw, cls in NEW_KWARGS.get(name, {}).items():
            calls = [n for n in ast.walk(b) if isinstance(n, ast.Call) and any(k.arg == kw for k in n.keywords)]
            ok = bool(calls) and all(norm([k for k in c.keywords if k.arg == kw][0].value) == cls for c in calls)
            res.oblige("V1", f"pvl.new.{name} passes {kw}={cls}", ok=ok)
            if not ok:
                res.add(Finding("V1", f"new.{name}", f"{kw}={cls}", f"pvl.new.{name} does not pass {kw}={cls}: containers of the "
                                "old family are returned/assumed", where=f"pvl/new.py:{b.lineno}"))


def rule_v2(repo, res):
    """V2 family discrimination: the encoders decide GROUP vs OBJECT with isinstance(value, self.grpcls); the default
    grpcls is the old-family PVLGroup, which no new-family container satisfies -- so every path on which pvl.new
    obtains an encoder must pass the new classes."""
    new = repo.module("new")
    fn = new.functions["dumps"]
    # the default-constructed encoder gets the classes (V1); an encoder supplied by the caller is used as is
    uses_given = any(isinstance(n, ast.Return) and norm(n.value) == "encoder.encode(module)" for n in ast.walk(fn))
    adapts = any(isinstance(n, ast.Assign) and norm(n.targets[0]) in ("encoder.grpcls", "encoder.objcls") for n in ast.walk(fn)) or \
        any(isinstance(n, ast.Call) and "isinstance" == norm(n.func) and "grpcls" in norm(n) for n in ast.walk(fn))
    # is the old group class related to the new one?
    mro = repo.mro("PVLGroupNew") if repo.has_cls("PVLGroupNew") else []
    related = "PVLGroup" in mro
    enc_default = None
    init = repo.full("PVLEncoder", "__init__")
    a = init.args
    names = [x.arg for x in a.args]
    for nm, d in zip(names[len(names) - len(a.defaults):], a.defaults):
        if nm == "group_class":
            enc_default = norm(d)
    ok = related or adapts or not uses_given or enc_default not in ("PVLGroup",)
    res.oblige("V2", "pvl.new.dumps(module, encoder=E()): groups of the new family are recognised by E's group class", ok=ok)
    if not ok:
        res.add(Finding("V2", "new.dumps", "explicit encoder keeps group_class=PVLGroup",
                        "pvl.new.dumps uses a caller-supplied encoder as it is; the encoders' default group_class is the "
                        "old-family PVLGroup, and PVLGroupNew is not a subclass of it, so `isinstance(value, self.grpcls)` "
                        "is false for every group of a pvl.new module and all groups are written as objects",
                        where=f"pvl/new.py:{fn.lineno}"))


def rule_v3(repo, res):
    """V3: each container member the parser and the encoders use is provided by a pvl class in both families."""
    used = set()
    for modname, recv in (("parser", ("m", "agg", "module")), ("encoder", ("module", "value", "group"))):
        mod = repo.module(modname)
        for n in ast.walk(mod.tree):
            if isinstance(n, ast.Call) and isinstance(n.func, ast.Attribute) and isinstance(n.func.value, ast.Name) \
                    and n.func.value.id in recv and n.func.attr in ("append", "pop", "items", "keys", "values", "insert", "getall"):
                used.add(n.func.attr)
    res.floor("container members used by parser/encoder", len(used), 3)
    for fam in ("OrderedMultiDict", "PVLMultiDict"):
        if not repo.has_cls(fam):
            raise AnalysisError(f"anchor vanished: class {fam}")
        for m in sorted(used):
            prov = None
            for c in repo.mro(fam):
                if c.startswith("ext:"):
                    prov = c
                    break
                if m in repo.classes[c].methods or m in repo.classes[c].aliases:
                    prov = c
                    break
            ok = prov is not None and (not prov.startswith("ext:") or prov in ("ext:MultiDict",) or m in ("items", "keys", "values"))
            if fam == "OrderedMultiDict":
                ok = prov is not None and not prov.startswith("ext:")
            res.oblige("V3", f"{fam}.{m} (used by the parser/encoders) is provided by {prov}", ok=ok)
            if not ok:
                res.add(Finding("V3", fam, m, f"{fam}.{m}, which the parser/encoders call, is provided by {prov}"))
    # both families implement the abstract interface the parser demands
    for fam in ("OrderedMultiDict", "PVLMultiDict"):
        ok = "MutableMappingSequence" in repo.mro(fam)
        res.oblige("V3", f"{fam} is a MutableMappingSequence (the parser's issubclass test)", ok=ok)
        if not ok:
            res.add(Finding("V3", fam, "MutableMappingSequence", f"{fam} no longer derives from MutableMappingSequence"))
    for sub, base in (("PVLModuleNew", "PVLMultiDict"), ("PVLGroupNew", "PVLMultiDict"), ("PVLObjectNew", "PVLMultiDict"),
                      ("PVLModule", "OrderedMultiDict"), ("PVLGroup", "OrderedMultiDict"), ("PVLObject", "OrderedMultiDict")):
        ok = repo.has_cls(sub) and base in repo.mro(sub)
        res.oblige("V3", f"{sub} derives from {base}", ok=ok)
        if not ok:
            res.add(Finding("V3", sub, base, f"{sub} does not derive from {base}"))
    # PVLMultiDict.append adds (never replaces): self.add(key, value)
    fn = repo.full("PVLMultiDict", "append")
    ok = any(isinstance(n, ast.Call) and norm(n.func) == "self.add" and [norm(a) for a in n.args] == ["key", "value"] for n in ast.walk(fn))
    res.oblige("V3", "PVLMultiDict.append(key, value) is self.add(key, value) (duplicates kept, order kept)", ok=ok)
    if not ok:
        res.add(Finding("V3", "PVLMultiDict.append", "self.add(key, value)", "PVLMultiDict.append no longer adds the pair with "
                        "MultiDict.add: duplicate names are replaced or reordered", where=f"pvl/collections.py:{fn.lineno}"))


# ------------------------------------------------------------------ C20
def rule_io_kind(repo, res):
    """IO-KIND: what the argument parser of pvl_translate produces for the output (and input) argument is of a kind
    every writer of the formats table can use.  A writer that hands its *outfile* to json.dump (or calls .write on
    it) needs an open, writable file object; pvl.dump / pvl.load take a path or a file object.  Provider kinds:
    type=argparse.FileType(mode) -> file object of that mode (and '-' -> standard stream); no type / str / Path ->
    a path."""
    tr = repo.module("pvl_translate")
    ap = tr.functions.get("arg_parser")
    if ap is None:
        raise AnalysisError("anchor vanished: pvl_translate.arg_parser")
    ap = repo.full_function("pvl_translate", "arg_parser")
    from . import canon
    cm = canon.canon_function(repo, "pvl_translate", "main", keep=("args",))
    out_attr = in_attr = None
    for n in ast.walk(cm):
        if isinstance(n, ast.Call) and isinstance(n.func, ast.Attribute) and n.func.attr == "dump" and norm(n.func.value).startswith("formats[") \
                and len(n.args) == 2 and isinstance(n.args[1], ast.Attribute) and norm(n.args[1].value) == "args":
            out_attr = n.args[1].attr
        if isinstance(n, ast.Call) and norm(n.func) in ("pvl.load", "load") and n.args and isinstance(n.args[0], ast.Attribute) \
                and norm(n.args[0].value) == "args":
            in_attr = n.args[0].attr
    if out_attr is None or in_attr is None:
        raise AnalysisError("anchor vanished: pvl_translate.main does not pass args.<infile> to pvl.load and args.<outfile> to a writer")

    def provided(dest):
        for n in ast.walk(ap):
            if isinstance(n, ast.Call) and isinstance(n.func, ast.Attribute) and n.func.attr == "add_argument" and n.args \
                    and isinstance(n.args[0], ast.Constant) and str(n.args[0].value).lstrip("-") == dest:
                kw = {k.arg: k.value for k in n.keywords}
                t = kw.get("type")
                if "dest" in kw and norm(kw["dest"]).strip("'\"") != dest:
                    continue
                if t is None:
                    return ("path", None, n)
                if isinstance(t, ast.Call) and norm(t.func) in ("argparse.FileType", "FileType"):
                    mode = t.args[0].value if t.args and isinstance(t.args[0], ast.Constant) else next(
                        (k.value.value for k in t.keywords if k.arg == "mode" and isinstance(k.value, ast.Constant)), "r")
                    return ("file", mode, n)
                if norm(t) in ("str", "Path", "pathlib.Path", "os.fspath", "os.path.abspath", "os.path.expanduser"):
                    return ("path", None, n)
                raise AnalysisError(f"IO-KIND: argument type `{norm(t)}` of {dest} not classified")
        raise AnalysisError(f"anchor vanished: add_argument for {dest!r} in pvl_translate.arg_parser")
    okind, omode, onode = provided(out_attr)
    ikind, imode, inode = provided(in_attr)
    # consumers: the dump methods of the writer classes (every class of the module with a dump(self, x, outfile))
    needs_file = []
    n_w = 0
    for cname in sorted(tr.classes):
        if cname not in repo.classes or "dump" not in repo.classes[cname].methods:
            continue
        fn = repo.full(cname, "dump")
        ps = [a.arg for a in fn.args.args]
        if len(ps) < 3:
            continue
        n_w += 1
        o = ps[2]
        for n in ast.walk(fn):
            if isinstance(n, ast.Call):
                pos = [i for i, a in enumerate(n.args) if isinstance(a, ast.Name) and a.id == o]
                kws = [k.arg for k in n.keywords if isinstance(k.value, ast.Name) and k.value.id == o]
                f = norm(n.func)
                if (pos or kws) and f in ("json.dump", "print") or (f == "json.dump" and "fp" in kws):
                    needs_file.append((cname, f"{f}(..., {o})", n))
                elif (pos or kws) and f not in ("pvl.dump", "dump", "pvl.new.dump"):
                    raise AnalysisError(f"IO-KIND: {cname}.dump hands its outfile to `{f}`; not classified")
                if isinstance(n.func, ast.Attribute) and isinstance(n.func.value, ast.Name) and n.func.value.id == o:
                    needs_file.append((cname, f"{o}.{n.func.attr}()", n))
    res.floor("writer classes with dump(self, module, outfile)", n_w, 2)
    writable = okind == "file" and any(c in (omode or "") for c in "wax+")
    for cname, what, n in needs_file:
        res.oblige("IO-KIND", f"{cname}.dump `{what}` needs an open writable file: arg_parser provides {okind}{'(' + repr(omode) + ')' if omode else ''}", ok=writable)
        if not writable:
            res.add(Finding("IO-KIND", f"{cname}.dump", f"outfile kind {okind}",
                            f"{cname}.dump uses its outfile as an open file (`{what}`) but pvl_translate.arg_parser produces a "
                            f"{'path' if okind == 'path' else 'file opened ' + repr(omode)} for `{out_attr}`: `pvl_translate -of "
                            f"<that format> in out` fails although the library call succeeds", where=f"pvl/pvl_translate.py:{onode.lineno}"))
    readable = ikind == "path" or (ikind == "file" and not any(c in (imode or "r") for c in "wax"))
    res.oblige("IO-KIND", f"pvl.load(args.{in_attr}) gets a path or a file opened for reading ({ikind}, {imode!r})", ok=readable)
    if not readable:
        res.add(Finding("IO-KIND", "pvl_translate.arg_parser", f"infile mode {imode!r}",
                        f"`{in_attr}` is opened with mode {imode!r}: pvl.load cannot read it (and the input file is truncated)",
                        where=f"pvl/pvl_translate.py:{inode.lineno}"))
    # line ends: pvl.load(<path>) reads the file as *text* (Path.read_text: universal newlines -- CR and CR LF become LF),
    # and only falls back to bytes when the text cannot be decoded.  The front end reads the same file the same way when it
    # hands over a path or a file opened in text mode; a file opened in binary mode is read without the translation, so a
    # label with CR line ends (where a '#' comment then never ends) loads through the library and not through the tool
    text_like = ikind == "path" or (ikind == "file" and "b" not in (imode or "r"))
    res.oblige("IO-KIND", f"pvl_translate reads `{in_attr}` with the line-end translation of pvl.load(path) ({ikind}, mode {imode!r})", ok=text_like)
    if not text_like:
        res.add(Finding("IO-KIND", "pvl_translate.arg_parser", f"infile opened in binary mode {imode!r}",
                        f"`{in_attr}` is opened with mode {imode!r}: the tool reads the bytes as they are while pvl.load(path) reads text with "
                        "universal newlines, so the same label file -- with CR line ends and a '#' comment, say -- loads through the "
                        "library and fails (or loads differently) through pvl_translate; line ends are white space of every dialect "
                        "and must not change what is read", where=f"pvl/pvl_translate.py:{inode.lineno}"))


def rule_tb9(repo, res):
    """formats / dialects dispatch tables."""
    from . import ctor
    tr = repo.module("pvl_translate")
    fv = ctor.module_value(repo, "pvl_translate", "formats")
    if not isinstance(fv, ctor.DictV):
        raise AnalysisError("anchor vanished: pvl_translate.formats (not a table the module-level evaluation can build)")
    want = {"PDS3": "PDSLabelEncoder", "ODL": "ODLEncoder", "ISIS": "ISISEncoder", "PVL": "PVLEncoder"}
    got = dict(fv.items)
    fline = getattr(tr.assigns.get("formats"), "lineno", "?")
    for name, enc in want.items():
        v = got.get(name)
        e_ = v.attrs.get("encoder") if isinstance(v, ctor.Inst) else None
        ok = isinstance(v, ctor.Inst) and v.cls == "PVLWriter" and isinstance(e_, ctor.Inst) and e_.cls == enc \
            and e_.ctor_args == ([], {})
        res.oblige("TB9", f"pvl_translate.formats[{name!r}] = PVLWriter({enc}())", ok=ok)
        if not ok:
            res.add(Finding("TB9", "pvl_translate.formats", name, f"formats[{name!r}] is `{v!r}` with encoder `{e_!r}`, "
                            f"not PVLWriter({enc}()): `pvl_translate -of {name}` writes another dialect",
                            where=f"pvl/pvl_translate.py:{fline}"))
    v = got.get("JSON")
    ok = isinstance(v, ctor.Inst) and v.cls == "JSONWriter"
    res.oblige("TB9", "pvl_translate.formats['JSON'] = JSONWriter()", ok=ok)
    if not ok:
        res.add(Finding("TB9", "pvl_translate.formats", "JSON", "formats['JSON'] is not JSONWriter()", where=f"pvl/pvl_translate.py:{fline}"))
    res.oblige("TB9", "pvl_translate.formats has exactly PDS3, ODL, ISIS, PVL, JSON", ok=set(got) == set(want) | {"JSON"})
    if set(got) != set(want) | {"JSON"}:
        res.add(Finding("TB9", "pvl_translate.formats", "keys", f"formats has keys {sorted(got)}", where=f"pvl/pvl_translate.py:{fline}"))
    # writers
    w = repo.full("PVLWriter", "dump")
    ok = any(isinstance(r, ast.Return) and norm(r.value) == "pvl.dump(dictlike, outfile, encoder=self.encoder)" for r in ast.walk(w))
    res.oblige("F1", "PVLWriter.dump returns pvl.dump(dictlike, outfile, encoder=self.encoder)", ok=ok)
    if not ok:
        res.add(Finding("F1", "PVLWriter.dump", "pvl.dump(..., encoder=self.encoder)", "PVLWriter.dump no longer dumps with its "
                        "own encoder", where=f"pvl/pvl_translate.py:{w.lineno}"))
    wi = repo.full("PVLWriter", "__init__")
    ok = any(isinstance(n, ast.Assign) and norm(n) == "self.encoder = encoder" for n in ast.walk(wi))
    res.oblige("F1", "PVLWriter.__init__ stores its encoder", ok=ok)
    if not ok:
        res.add(Finding("F1", "PVLWriter.__init__", "self.encoder = encoder", "the encoder is not stored", where=f"pvl/pvl_translate.py:{wi.lineno}"))
    j = repo.full("JSONWriter", "dump")
    ok = any(isinstance(r, ast.Return) and norm(r.value) == "json.dump(dictlike, outfile)" for r in ast.walk(j))
    res.oblige("F1", "JSONWriter.dump returns json.dump(dictlike, outfile)", ok=ok)
    if not ok:
        res.add(Finding("F1", "JSONWriter.dump", "json.dump(dictlike, outfile)", "JSONWriter.dump no longer writes the label as JSON",
                        where=f"pvl/pvl_translate.py:{j.lineno}"))
    m = tr.functions.get("main")
    if m is None:
        raise AnalysisError("anchor vanished: pvl_translate.main")
    from . import canon
    cm = canon.canon_function(repo, "pvl_translate", "main", keep=("args",))       # named temporaries substituted
    ok = any(isinstance(n, ast.Call) and norm(n.func) == "formats[args.output_format].dump" and
             [norm(a) for a in n.args] == ["pvl.load(args.infile)", "args.outfile"] and not n.keywords for n in ast.walk(cm))
    ok = ok and not any(isinstance(n, ast.Try) for n in ast.walk(m))
    res.oblige("F1", "pvl_translate.main: pvl.load(infile) -> formats[fmt].dump(module, outfile), no exception handling in between", ok=ok)
    if not ok:
        res.add(Finding("F1", "pvl_translate.main", "load -> dump chain", "pvl_translate.main no longer loads the input with "
                        "pvl.load and dumps it with the chosen writer (or swallows their errors)", where=f"pvl/pvl_translate.py:{m.lineno}"))
    ap = tr.functions.get("arg_parser")
    ok = ap is not None and "choices=formats.keys()" in norm(ap, 4000)
    res.oblige("F1", "pvl_translate: -of choices are the keys of formats", ok=ok)
    if not ok:
        res.add(Finding("F1", "pvl_translate.arg_parser", "choices", "the -of choices are no longer the keys of formats"))
    # dialects rows (as the module builds them: abstract evaluation of the module's top level)
    va = repo.module("pvl_validate")
    want_rows = {"PDS3": ("ODLParser", "PDSGrammar", "PDSLabelDecoder", "PDSLabelEncoder"),
                 "ODL": ("ODLParser", "ODLGrammar", "ODLDecoder", "ODLEncoder"),
                 "PVL": ("PVLParser", "PVLGrammar", "PVLDecoder", "PVLEncoder"),
                 "ISIS": ("OmniParser", "ISISGrammar", "OmniDecoder", "ISISEncoder"),
                 "Omni": ("OmniParser", "OmniGrammar", "OmniDecoder", "PVLEncoder")}
    dv = ctor.module_value(repo, "pvl_validate", "dialects")
    if not isinstance(dv, ctor.DictV):
        raise AnalysisError("anchor vanished: pvl_validate.dialects (not a table the module-level evaluation can build)")
    rows = dict(dv.items)
    dline = getattr(va.assigns.get("dialects"), "lineno", "?")
    for rname, (pc, gc, dc, ec) in want_rows.items():
        row = rows.get(rname)
        ok = isinstance(row, ctor.DictV)
        detail = repr(row)
        if ok:
            p_, g_, d_, e_ = (row.get(k) for k in ("parser", "grammar", "decoder", "encoder"))
            ok = all(isinstance(x, ctor.Inst) for x in (p_, g_, d_, e_)) and (p_.cls, g_.cls, d_.cls, e_.cls) == (pc, gc, dc, ec) \
                and p_.attrs.get("grammar") is g_ and p_.attrs.get("decoder") is d_ \
                and e_.attrs.get("grammar") is g_ and e_.attrs.get("decoder") is d_ and d_.attrs.get("grammar") is g_
            detail = f"parser {p_!r}, grammar {g_!r}, decoder {d_!r}, encoder {e_!r}"
        res.oblige("TB9", f"pvl_validate.dialects[{rname!r}]: {pc}/{gc}/{dc}/{ec} sharing one grammar object and one decoder object", ok=ok)
        if not ok:
            res.add(Finding("TB9", "pvl_validate.dialects", rname,
                            f"dialects[{rname!r}] is not {pc}(grammar=g, decoder=d), grammar=g, decoder=d, {ec}(grammar=g, decoder=d) with "
                            f"g a {gc} and d a {dc}(grammar=g): the row validates another dialect ({detail})",
                            where=f"pvl/pvl_validate.py:{dline}"))
    res.oblige("TB9", "pvl_validate.dialects has exactly the five rows", ok=set(rows) == set(want_rows))
    if set(rows) != set(want_rows):
        res.add(Finding("TB9", "pvl_validate.dialects", "rows", f"dialects has rows {sorted(rows)}"))


def rule_l1(repo, res):
    """L1 verdict flags in pvl_flavor."""
    va = repo.module("pvl_validate")
    fn = va.functions.get("pvl_flavor")
    if fn is None:
        raise AnalysisError("anchor vanished: pvl_validate.pvl_flavor")
    # the verdicts, by enumeration of outcomes (vsa.symx): which pair pvl_flavor returns for each combination of
    # "pvl.loads / pvl.dumps returned or raised <class>", through its private helpers and whatever its try/except shape
    from . import symx
    from .inline import closure
    X = symx.SymX(repo, "pvl_validate", lambda c: norm(c.func) in ("pvl.loads", "pvl.dumps"))
    outs = X.run(fn)
    cats = {"load failed": [], "load ok, dump ok": [], "load ok, dump failed": []}
    for o in outs:
        ev = [(e[0], e[1]) + tuple(e[2:3]) for e in o.events if e[0] in ("ok", "raises")]
        lo = [e for e in ev if e[1] == "pvl.loads"]
        du = [e for e in ev if e[1] == "pvl.dumps"]
        if not lo or lo[0][0] == "raises":
            cats["load failed"].append((o, f"pvl.loads raises {lo[0][2] if lo else '?'}"))
        elif du and du[0][0] == "ok":
            cats["load ok, dump ok"].append((o, "both succeed"))
        elif du:
            cats["load ok, dump failed"].append((o, f"pvl.dumps raises {du[0][2]}"))
        else:
            cats["load failed"].append((o, "pvl.dumps is never called after a successful load"))
    want = {"load failed": ("tuple", False, None), "load ok, dump ok": ("tuple", True, True), "load ok, dump failed": ("tuple", True, False)}
    F1_ = lambda what, msg: res.add(Finding("L1", "pvl_validate.pvl_flavor", what, msg, where=f"pvl/pvl_validate.py:{fn.lineno}"))
    for cat, lst in cats.items():
        res.floor(f"pvl_flavor outcomes: {cat}", len(lst), 1)
        bad = [(o, why) for o, why in lst if o.kind != "return" or o.value != want[cat]]
        res.oblige("L1", f"pvl_flavor: {cat} -> (loads, encodes) == {want[cat][1:]} on every such path ({len(lst)} paths)", ok=not bad)
        seen_ = set()
        for o, why in bad:
            shown = "an exception escapes" if o.kind != "return" else \
                ("returns " + (repr(o.value[1:]) if isinstance(o.value, tuple) and o.value[:1] == ("tuple",) else "a value that is not a constant pair"))
            key_ = (cat, why if "OTHER" not in why else "another exception class", shown)
            if key_ in seen_:
                continue
            seen_.add(key_)
            F1_(f"{cat}: {key_[1]}", f"when {why.replace('$OTHER', 'an exception of another class')}, pvl_flavor {shown} instead of "
                f"returning {want[cat][1:]}: the report says "
                + ("'does NOT load' for a text that loaded" if cat != "load failed" and isinstance(o.value, tuple) and len(o.value) > 1 and o.value[1] is False
                   else "something else than what happened") + " (or there is no report at all)")
    # the calls themselves: the text is loaded with the row's configuration, and what was loaded is dumped with it
    calls = {"pvl.loads": [], "pvl.dumps": []}
    for owner, f_ in closure(repo, None, fn, module="pvl_validate"):
        for c in ast.walk(f_):
            if isinstance(c, ast.Call) and norm(c.func) in calls:
                calls[norm(c.func)].append((f_, c))
    for nm, lst in calls.items():
        okc = len(lst) == 1 and len(lst[0][1].args) == 1 and isinstance(lst[0][1].args[0], ast.Name) \
            and len(lst[0][1].keywords) == 1 and lst[0][1].keywords[0].arg is None
        res.oblige("L1", f"pvl_flavor: one {nm}(<one argument>, **<the row>) call", ok=okc)
        if not okc:
            F1_(f"{nm} call", f"pvl_flavor no longer makes exactly one {nm}(x, **decenc) call with the row's parser/grammar/decoder/encoder")
    if all(len(v) == 1 for v in calls.values()):
        lf, lc = calls["pvl.loads"][0]
        df, dc = calls["pvl.dumps"][0]
        okt = lf is fn and norm(lc.args[0]) == fn.args.args[0].arg or lf is not fn
        res.oblige("L1", "pvl_flavor: the load is pvl.loads(text, **decenc) (the row's parser, grammar, decoder)", ok=okt)
        if not okt:
            F1_("pvl.loads(text, **decenc)", "the load call does not use the file's text")
        par = getattr(lc, "_parent", None)
        loaded = norm(par.targets[0]) if isinstance(par, ast.Assign) else None
        okd = loaded is not None and (norm(dc.args[0]) == loaded if df is lf else True)
        res.oblige("L1", "pvl_flavor: the dump is pvl.dumps(<loaded module>, **decenc)", ok=okd)
        if not okd:
            F1_("pvl.dumps(some_pvl, **decenc)", "the dump call does not encode the loaded module with the row's encoder")
    # main: one append per file; report printed on every path
    from .inline import uncomprehend, inline_all
    m = va.functions.get("main")
    # read with private helpers in place and `[... for f in args.file]` written as the loop it abbreviates
    m = inline_all(repo, None, uncomprehend(inline_all(repo, None, m, module="pvl_validate")), module="pvl_validate")
    loops = [n for n in m.body if isinstance(n, ast.For)]
    ok = len(loops) == 1 and norm(loops[0].iter) == "args.file" and \
        sum(1 for s in loops[0].body if isinstance(s, ast.Expr) and "results_list.append" in norm(s)) == 1
    inner_ok = fresh_ok = False
    if ok:
        lp = loops[0]
        fvar = norm(lp.target)
        texts = [norm(s.targets[0]) for s in lp.body if isinstance(s, ast.Assign) and norm(s.value) == f"pvl.get_text_from({fvar})"]
        texts.append(f"pvl.get_text_from({fvar})")

        def flavor_call(x, k, v):
            return isinstance(x, ast.Call) and norm(x.func) == "pvl_flavor" and not x.keywords and len(x.args) == 5 \
                and norm(x.args[0]) in texts and [norm(a) for a in x.args[1:]] == [k, v, fvar, "args.verbose"]

        def all_rows_comp(e):
            """{k: pvl_flavor(text, k, v, f, args.verbose) for k, v in dialects.items()}"""
            if not (isinstance(e, ast.DictComp) and len(e.generators) == 1):
                return False
            g = e.generators[0]
            if g.ifs or norm(g.iter) != "dialects.items()" or not (isinstance(g.target, ast.Tuple) and len(g.target.elts) == 2):
                return False
            k, v = norm(g.target.elts[0]), norm(g.target.elts[1])
            return norm(e.key) == k and flavor_call(e.value, k, v)
        # what is appended for the file: (f, R)
        app = [s.value for s in lp.body if isinstance(s, ast.Expr) and isinstance(s.value, ast.Call) and norm(s.value.func) == "results_list.append"]
        R = None
        if len(app) == 1 and len(app[0].args) == 1 and isinstance(app[0].args[0], ast.Tuple) and len(app[0].args[0].elts) == 2 \
                and norm(app[0].args[0].elts[0]) == fvar:
            R = app[0].args[0].elts[1]
        if R is not None and all_rows_comp(R):
            inner_ok = fresh_ok = True
        elif isinstance(R, ast.Name):
            # R must be bound anew inside the per-file loop (a dict created once outside it is shared by every file's entry)
            binds = [s for s in lp.body if isinstance(s, ast.Assign) and any(norm(t) == R.id for t in s.targets)]
            if len(binds) == 1:
                bv = binds[0].value
                if all_rows_comp(bv):
                    inner_ok = fresh_ok = True
                elif (isinstance(bv, ast.Call) and norm(bv.func) in ("dict", "OrderedDict") and not bv.args and not bv.keywords) \
                        or (isinstance(bv, ast.Dict) and not bv.keys):
                    fresh_ok = True
            for s in lp.body:
                if isinstance(s, ast.For) and norm(s.iter) == "dialects.items()" and isinstance(s.target, ast.Tuple) and len(s.target.elts) == 2 \
                        and not any(isinstance(x, (ast.Break, ast.Continue, ast.If)) for x in ast.walk(s)):
                    k, v = norm(s.target.elts[0]), norm(s.target.elts[1])
                    for st in s.body:
                        if isinstance(st, ast.Assign) and len(st.targets) == 1 and isinstance(st.targets[0], ast.Subscript) \
                                and norm(st.targets[0].value) == R.id and norm(st.targets[0].slice) == k and flavor_call(st.value, k, v):
                            inner_ok = True
    res.oblige("L1", "pvl_validate.main: for every file, every dialect row is evaluated and one result is appended", ok=ok and inner_ok)
    if not (ok and inner_ok):
        res.add(Finding("L1", "pvl_validate.main", "per-file loop", "main no longer evaluates every dialect for every file with one "
                        "result per file", where=f"pvl/pvl_validate.py:{m.lineno}"))
    res.oblige("L1", "pvl_validate.main: the per-file results mapping is created anew for every file", ok=(not ok) or fresh_ok)
    if ok and not fresh_ok:
        res.add(Finding("L1", "pvl_validate.main", "per-file results object", "the mapping of verdicts appended for a file is not created "
                        "inside the per-file loop: every file's entry is the same object and the report shows the last file's verdicts "
                        "for all files", where=f"pvl/pvl_validate.py:{m.lineno}"))
    pr = [s for s in m.body if isinstance(s, ast.Expr) and norm(s.value).startswith("print(report(results_list, list(dialects.keys())))")]
    res.oblige("L1", "pvl_validate.main prints report(results_list, list(dialects.keys())) unconditionally", ok=bool(pr))
    if not pr:
        res.add(Finding("L1", "pvl_validate.main", "print(report(...))", "the report is not printed on every path", where=f"pvl/pvl_validate.py:{m.lineno}"))
    # report rows
    rp = va.functions.get("report")
    src = norm(rp, 5000)
    ok = "{True: 'Loads', False: 'does NOT load'}" in src and "{True: 'Encodes', False: 'does NOT encode', None: ''}" in src and \
        "loads[r[k][0]]" in src and "encodes[r[k][1]]" in src
    res.oblige("L1", "report(): column 2 shows the load verdict r[k][0], column 3 the encode verdict r[k][1]", ok=ok)
    if not ok:
        res.add(Finding("L1", "pvl_validate.report", "verdict columns", "report() no longer maps (loads, encodes) to the 'Loads'/'does NOT "
                        "load' and 'Encodes'/'does NOT encode' columns", where=f"pvl/pvl_validate.py:{rp.lineno}"))
    rm = va.functions.get("report_many")
    src = norm(rm, 6000)
    ok = "{True: 'L', False: 'No L'}" in src and "{True: 'E', False: 'No E', None: ''}" in src and "loads[r[1][f][0]]" in src and "encodes[r[1][f][1]]" in src
    res.oblige("L1", "report_many(): per file and dialect, L/No L from the load verdict and E/No E from the encode verdict", ok=ok)
    if not ok:
        res.add(Finding("L1", "pvl_validate.report_many", "verdict cells", "report_many() no longer maps the verdicts to L/No L and E/No E",
                        where=f"pvl/pvl_validate.py:{rm.lineno}"))


CONTAINER_CLASSES = {"PVLModule", "PVLGroup", "PVLObject", "PVLAggregation", "OrderedMultiDict", "PVLModuleNew", "PVLGroupNew",
                     "PVLObjectNew", "PVLAggregationNew", "PVLMultiDict"}


def rule_mapping_iteration(repo, res):
    """V4: the encoders (and the parser hooks) receive label containers as Mappings and go through them with
    .items()/.keys()/.values().  Iterating the container object itself is family-dependent: the default
    OrderedMultiDict yields (key, value) pairs, the multidict-based classes of pvl.new yield keys -- the same
    method then works for one family and fails (or walks other things) for the other."""
    n = 0
    for base in ("PVLEncoder", "PVLParser"):
        for c in repo.subclasses(base):
            for m, fn in repo.classes[c].methods.items():
                a = fn.args
                mparams = set()
                for p_ in a.posonlyargs + a.args + a.kwonlyargs:
                    ann = norm(p_.annotation) if p_.annotation is not None else ""
                    if "Mapping" in ann or "MutableMappingSequence" in ann or p_.arg in ("module", "group", "agg", "container"):
                        mparams.add(p_.arg)
                if not mparams:
                    continue
                iters = [(x, x.iter) for x in ast.walk(fn) if isinstance(x, (ast.For, ast.comprehension))]
                for node, it in iters:
                    if isinstance(it, ast.Call) and norm(it.func) in ("enumerate", "iter", "reversed", "list", "tuple", "sorted") and it.args:
                        it = it.args[0]
                    if isinstance(it, ast.Name) and it.id in mparams:
                        n += 1
                        res.oblige("V4", f"{c}.{m}: iteration over `{it.id}` goes through .items()/.keys()/.values()", ok=False)
                        res.add(Finding("V4", f"{c}.{m}", f"iterates {it.id} itself",
                                        f"{c}.{m} iterates its Mapping argument `{it.id}` directly (`{norm(node.target)} in {it.id}`): "
                                        "OrderedMultiDict yields (key, value) pairs but the pvl.new containers (and every other "
                                        "Mapping) yield keys, so the two families are written differently (or one of them fails)",
                                        where=f"pvl/{repo.classes[c].module.name}.py:{getattr(node, 'lineno', fn.lineno)}"))
                    elif isinstance(it, ast.Call) and isinstance(it.func, ast.Attribute) and isinstance(it.func.value, ast.Name) \
                            and it.func.value.id in mparams and it.func.attr in ("items", "keys", "values"):
                        n += 1
                        res.oblige("V4", f"{c}.{m}: `{norm(it)}`", ok=True)
    res.floor("iterations over Mapping arguments in encoders/parsers", n, 4)


def _reindex_sites(fn):
    """(node, text) of `m[k]` / `m.get(k)` / `m.getall(k)[0]` evaluated per key k of an iteration over m's keys"""
    out = []
    loops = []
    for n in ast.walk(fn):
        if isinstance(n, (ast.ListComp, ast.SetComp, ast.GeneratorExp, ast.DictComp)):
            for g in n.generators:
                loops.append((g.target, g.iter, [n]))
        if isinstance(n, ast.For):
            loops.append((n.target, n.iter, n.body))
    for tgt, it, body in loops:
        if not isinstance(tgt, ast.Name):
            continue
        base = it
        if isinstance(it, ast.Call) and isinstance(it.func, ast.Attribute) and it.func.attr == "keys" and not it.args:
            base = it.func.value
        elif isinstance(it, ast.Call) and norm(it.func) in ("list", "tuple", "iter", "sorted", "set") and len(it.args) == 1:
            base = it.args[0]
            if isinstance(base, ast.Call) and isinstance(base.func, ast.Attribute) and base.func.attr == "keys" and not base.args:
                base = base.func.value
        elif isinstance(it, ast.Call):
            continue
        b = norm(base)
        for st in body:
            for x in ast.walk(st):
                if isinstance(x, ast.Subscript) and isinstance(x.ctx, ast.Load) and norm(x.value) == b and isinstance(x.slice, ast.Name) \
                        and x.slice.id == tgt.id:
                    out.append((x, norm(x), base))
                if isinstance(x, ast.Call) and isinstance(x.func, ast.Attribute) and x.func.attr == "get" and norm(x.func.value) == b \
                        and x.args and isinstance(x.args[0], ast.Name) and x.args[0].id == tgt.id:
                    out.append((x, norm(x), base))
    return out


def rule_reindex(repo, res):
    """REINDEX: no function of the package walks the KEYS of a mapping it was handed (or of the container itself) and
    looks each key up again (`m[k] for k in m.keys()`): in a multi-valued container a repeated key is visited once
    per occurrence but `m[k]` is the FIRST value every time, so the later values are replaced by copies of the first.
    Pairs are obtained from .items() (or by position).  Locals built in the function from a dict display / dict(...)
    are plain dicts and exempt."""
    n = 0
    # a tiny positive example: the rule must see the pattern it looks for on every run
    probe = ast.parse("def f(arg):\n    return [(k, arg[k]) for k in arg.keys()]").body[0]
    if len(_reindex_sites(probe)) != 1:
        raise AnalysisError("REINDEX self-check failed")
    for mname, mod in sorted(repo.modules.items()):
        fns = [(f.name, f) for f in mod.functions.values()]
        for cname, cnode in mod.classes.items():
            fns += [(f"{cname}.{k}", v) for k, v in repo.classes[cname].methods.items()] if cname in repo.classes else []
        for name, fn in fns:
            n += 1
            plain = set()
            for a in ast.walk(fn):
                if isinstance(a, ast.Assign) and len(a.targets) == 1 and isinstance(a.targets[0], ast.Name) and (
                        isinstance(a.value, (ast.Dict, ast.DictComp)) or (isinstance(a.value, ast.Call) and norm(a.value.func) in ("dict", "vars", "locals"))):
                    plain.add(a.targets[0].id)
            for x, txt, base in _reindex_sites(fn):
                if isinstance(base, ast.Name) and base.id in plain:
                    continue
                if isinstance(base, ast.Attribute) and norm(base).startswith(("self.grammar.", "self.decoder.", "g.", "grammar.")):
                    continue        # grammar tables are plain dicts
                res.oblige("REINDEX", f"{name}: `{txt}` per key of `{norm(base)}`", ok=False)
                res.add(Finding("REINDEX", name, f"looks each key of {norm(base)} up again",
                                f"{name} walks the keys of `{norm(base)}` and reads `{txt}` for each: when the mapping is a "
                                "multi-valued container, every occurrence of a repeated key gets the FIRST value, so the pairs "
                                "that are copied, converted or written lose the later values", where=f"pvl/{mname}.py:{x.lineno}"))
    res.oblige("REINDEX", f"{n} functions: no key-by-key lookup over a mapping's own keys", ok=True, nontrivial=False)
    res.floor("functions scanned for REINDEX", n, 150)


def rule_no_hardcoded_containers(repo, res):
    """V2b / H1b: method bodies of the encoder and parser classes never name a concrete container class (only
    self.grpcls / self.objcls / self.modcls, whose defaults are parameter defaults): a hard-coded PVLGroup makes the
    GROUP/OBJECT decision ignore the classes the caller (or pvl.new) configured."""
    n = 0
    for base in ("PVLEncoder", "PVLParser"):
        for c in repo.subclasses(base):
            for m, fn in repo.classes[c].methods.items():
                n += 1
                bad = []
                defaults = {id(x) for d in fn.args.defaults + [k for k in fn.args.kw_defaults if k is not None] for x in ast.walk(d)}
                for x in ast.walk(fn):
                    if isinstance(x, ast.Name) and x.id in CONTAINER_CLASSES and id(x) not in defaults:
                        bad.append(x)
                res.oblige("V2b", f"{c}.{m} names no concrete container class outside parameter defaults", ok=not bad, nontrivial=False)
                for x in bad:
                    ctxn = getattr(x, "_parent", x)
                    res.add(Finding("V2b", f"{c}.{m}", norm(ctxn, 70),
                                    f"{c}.{m} refers to the concrete class {x.id} in `{norm(ctxn, 70)}` instead of the configured "
                                    "self.grpcls / self.objcls / self.modcls: with substitute container classes (e.g. those of "
                                    "pvl.new) groups and objects are told apart differently here than everywhere else",
                                    where=f"pvl/{repo.classes[c].module.name}.py:{x.lineno}"))
    res.floor("encoder/parser methods scanned for hard-coded container classes", n, 60)


def rule_lexer_args(repo, res):
    """LEXER-ARGS: the parser lexes the text with its own grammar and its own decoder: every call of self.lexer(...) in the
    parser classes passes g = self.grammar and d = self.decoder (canonical form; keyword or positional).  The lexer
    enforces the character set and cuts lexemes with the grammar it is given; the rest of the parser works with
    self.grammar -- a different object there (the decoder's grammar, a fresh default) makes the two disagree as soon as a
    caller combines a grammar with a decoder of another dialect."""
    from .canon import canon
    n = 0
    for cname in sorted(repo.subclasses("PVLParser")):
        ci = repo.classes[cname]
        for mname, fn0 in ci.methods.items():
            if not any(isinstance(x, ast.Call) and norm(x.func) == "self.lexer" for x in ast.walk(fn0)):
                continue
            fn = canon(repo, cname, fn0, module=ci.module.name)
            for call in [x for x in ast.walk(fn) if isinstance(x, ast.Call) and norm(x.func) == "self.lexer"]:
                n += 1
                kw = {k.arg: k.value for k in call.keywords if k.arg}
                g = kw.get("g", call.args[1] if len(call.args) > 1 else None)
                d = kw.get("d", call.args[2] if len(call.args) > 2 else None)
                # the text: the parameter of the method itself, never rebound before the call (the strict parsers lex the
                # caller's text as it is; the permissive subclass does its documented rewrite in its own parse() and hands the
                # result on to this one)
                params = [a.arg for a in fn0.args.args if a.arg != "self"]
                text = call.args[0] if call.args else kw.get("s")
                rebound = [x for x in ast.walk(fn0) if isinstance(x, (ast.Assign, ast.AugAssign, ast.AnnAssign))
                           and any(isinstance(t, ast.Name) and params and t.id == params[0]
                                   for t in (x.targets if isinstance(x, ast.Assign) else [x.target]))]
                if cname == "PVLParser" and params:
                    ok = isinstance(text, ast.Name) and text.id == params[0] and not rebound
                    res.oblige("LEXER-ARGS", f"{cname}.{mname}: the lexer gets the text parameter `{params[0]}` itself, unchanged", ok=ok)
                    if not ok:
                        what_ = f"`{norm(rebound[0], 60)}` rewrites the text first" if rebound else f"the lexer gets `{norm(text, 60) if text is not None else '<nothing>'}`"
                        res.add(Finding("LEXER-ARGS", f"{cname}.{mname}", "the text is changed before it is lexed",
                                        f"{cname}.{mname}: {what_}: the strict parsers read the caller's text as it is -- a rewrite of "
                                        "the whole document also rewrites what stands inside quoted strings and comments (line ends, "
                                        "leading characters), so values read back differently and characters outside the dialect's "
                                        "set can vanish before the lexer sees them", where=f"pvl/parser.py:{(rebound[0] if rebound else call).lineno}"))
                for what, got, want in (("grammar (g)", g, "self.grammar"), ("decoder (d)", d, "self.decoder")):
                    ok = got is not None and norm(got) == want
                    res.oblige("LEXER-ARGS", f"{cname}.{mname}: the lexer gets {want} as its {what}", ok=ok)
                    if not ok:
                        res.add(Finding("LEXER-ARGS", f"{cname}.{mname}", f"lexer {what} is {norm(got) if got is not None else 'not given'}",
                                        f"{cname}.{mname} calls the lexer with {what} = `{norm(got) if got is not None else '<default>'}` instead of "
                                        f"{want}: the character set the lexer enforces and the lexeme boundaries it draws follow another "
                                        "grammar/decoder than the parser's own", where=f"pvl/parser.py:{call.lineno}"))
    res.floor("calls of self.lexer in the parser classes", n, 1)


# ------------------------------------------------------------------ ZIP-LEN
class _Len:
    """symbolic length: constant + sum of coeff * |symbol|"""
    def __init__(self, const=0, syms=None):
        self.const, self.syms = const, {k: v for k, v in (syms or {}).items() if v}

    def __add__(self, o):
        s = dict(self.syms)
        for k, v in o.syms.items():
            s[k] = s.get(k, 0) + v
        return _Len(self.const + o.const, s)

    def scale_by_symbol(self, sym):
        """self * |sym| for a constant self"""
        if self.syms:
            return None
        return _Len(0, {sym: self.const})

    def key(self):
        return (self.const, tuple(sorted(self.syms.items())))

    def __repr__(self):
        parts = ([str(self.const)] if self.const or not self.syms else []) + [(f"{v}*" if v != 1 else "") + f"len({k})" for k, v in sorted(self.syms.items())]
        return " + ".join(parts)


def _list_length(e, fn, at, depth=0):
    """symbolic length of the list expression *e* as evaluated at statement *at* of function *fn*; None when unknown"""
    if depth > 6:
        return None
    if isinstance(e, (ast.List, ast.Tuple)):
        if any(isinstance(x, ast.Starred) for x in e.elts):
            return None
        return _Len(len(e.elts))
    if isinstance(e, ast.BinOp) and isinstance(e.op, ast.Add):
        a, b = _list_length(e.left, fn, at, depth + 1), _list_length(e.right, fn, at, depth + 1)
        return None if a is None or b is None else a + b
    if isinstance(e, ast.BinOp) and isinstance(e.op, ast.Mult):
        lst, num = (e.left, e.right) if isinstance(e.left, (ast.List, ast.Tuple)) else (e.right, e.left)
        a = _list_length(lst, fn, at, depth + 1) if isinstance(lst, (ast.List, ast.Tuple)) else None
        if a is None:
            return None
        if isinstance(num, ast.Constant) and isinstance(num.value, int):
            return _Len(a.const * num.value) if not a.syms else None
        if isinstance(num, ast.Call) and norm(num.func) == "len" and len(num.args) == 1:
            inner = _list_length(num.args[0], fn, at, depth + 1)
            if inner is not None and not inner.const and len(inner.syms) == 1 and list(inner.syms.values()) == [1]:
                return a.scale_by_symbol(next(iter(inner.syms)))
            if inner is not None and not inner.syms:
                return _Len(a.const * inner.const) if not a.syms else None
        return None
    if isinstance(e, ast.ListComp) and len(e.generators) == 1 and not e.generators[0].ifs:
        return _list_length(e.generators[0].iter, fn, at, depth + 1)
    if isinstance(e, ast.Call):
        f = norm(e.func)
        if f in ("list", "tuple", "sorted", "reversed") and len(e.args) == 1:
            return _list_length(e.args[0], fn, at, depth + 1)
        if isinstance(e.func, ast.Attribute) and e.func.attr in ("keys", "values", "items") and not e.args:
            return _list_length(e.func.value, fn, at, depth + 1)
        return None
    if isinstance(e, ast.Name):
        params = {a.arg for a in fn.args.posonlyargs + fn.args.args + fn.args.kwonlyargs}
        # the latest plain assignment of the name in the block of *at* or an enclosing block, before *at*
        blk_stmt = at
        while blk_stmt is not None and blk_stmt is not fn:
            parent = getattr(blk_stmt, "_parent", None)
            if parent is None:
                break
            for field in ("body", "orelse", "finalbody"):
                block = getattr(parent, field, None)
                if isinstance(block, list) and blk_stmt in block:
                    idx = block.index(blk_stmt)
                    for j in range(idx - 1, -1, -1):
                        st = block[j]
                        if isinstance(st, ast.Assign) and len(st.targets) == 1 and isinstance(st.targets[0], ast.Name) and st.targets[0].id == e.id:
                            base = _Len(0) if (isinstance(st.value, ast.Call) and norm(st.value.func) == "list" and not st.value.args) \
                                else _list_length(st.value, fn, st, depth + 1)
                            if base is None:
                                return None
                            # growth between the assignment and *at*: x.append(..) directly in the block, or once per
                            # iteration in a for loop directly in the block
                            total = base
                            for mid in block[j + 1:idx]:
                                for x in ast.walk(mid):
                                    if isinstance(x, ast.Call) and isinstance(x.func, ast.Attribute) and isinstance(x.func.value, ast.Name) \
                                            and x.func.value.id == e.id:
                                        if x.func.attr != "append":
                                            return None
                                        holder = getattr(getattr(x, "_parent", None), "_parent", None)
                                        if holder is parent or getattr(x, "_parent", None) is mid and mid in block and isinstance(mid, ast.Expr):
                                            total = total + _Len(1)
                                        elif isinstance(mid, ast.For) and getattr(x, "_parent", None) in mid.body:
                                            it = _list_length(mid.iter, fn, mid, depth + 1)
                                            if it is None or it.const or len(it.syms) != 1:
                                                return None
                                            total = total + _Len(0, dict(it.syms))
                                        else:
                                            return None
                                    if isinstance(x, (ast.Assign, ast.AugAssign)) and any(
                                            isinstance(t, ast.Name) and t.id == e.id for t in (x.targets if isinstance(x, ast.Assign) else [x.target])):
                                        return None
                            return total
                        if any(isinstance(x, ast.Name) and x.id == e.id and isinstance(x.ctx, ast.Store) for x in ast.walk(st)):
                            return None
            blk_stmt = parent
        if e.id in params:
            return _Len(0, {e.id: 1})
        return None
    if isinstance(e, ast.Attribute):
        return _Len(0, {norm(e): 1})
    return None


def rule_zip_len(repo, res):
    """ZIP-LEN: pvl_validate lays its report out by zipping a list of cells with a list of column widths
    (build_line); zip stops at the shorter list, so a width list sized by anything but the number of cells silently drops
    columns.  For every call of build_line(cells, widths) in the module the symbolic lengths of the two arguments (list
    displays, + and * len(x), comprehensions, append-per-iteration accumulators) are equal."""
    if "pvl_validate" not in repo.modules:
        raise AnalysisError("anchor vanished: pvl/pvl_validate.py")
    mod = repo.module("pvl_validate")
    if "build_line" not in mod.functions:
        raise AnalysisError("anchor vanished: pvl_validate.build_line")
    bl = mod.functions["build_line"]
    if not any(isinstance(x, ast.Call) and norm(x.func) == "zip" for x in ast.walk(bl)):
        res.oblige("ZIP-LEN", "build_line no longer pairs cells and widths with zip()", ok=True, nontrivial=False)
        return
    n = 0
    from .inline import inline_all, set_parents
    for fname, fn0 in mod.functions.items():
        try:
            fn = inline_all(repo, None, fn0, module="pvl_validate")
            set_parents(fn, getattr(fn0, "_parent", None))
        except Exception:
            fn = fn0
        params = {a.arg for a in fn.args.posonlyargs + fn.args.args + fn.args.kwonlyargs}
        for st in [s for s in ast.walk(fn) if isinstance(s, ast.stmt)]:
            for call in [x for x in ast.walk(st) if isinstance(x, ast.Call) and norm(x.func) == "build_line" and len(x.args) >= 2]:
                if any(isinstance(a_, ast.Name) and a_.id in params for a_ in call.args[:2]):
                    continue         # a list handed in by the caller: decided where the helper is read in place
                # attribute the call to its innermost statement only
                inner = call
                while not isinstance(inner, ast.stmt):
                    inner = getattr(inner, "_parent", None)
                if inner is not st:
                    continue
                a, b = _list_length(call.args[0], fn, st), _list_length(call.args[1], fn, st)
                if a is None or b is None:
                    res.notes.append(f"ZIP-LEN: lengths of `{norm(call, 80)}` in {fname} not derivable")
                    continue
                n += 1
                ok = a.key() == b.key()
                res.oblige("ZIP-LEN", f"pvl_validate.{fname}: `{norm(call, 60)}` pairs {a!r} cells with {b!r} widths", ok=ok)
                if not ok:
                    res.add(Finding("ZIP-LEN", f"pvl_validate.{fname}", f"`{norm(call, 60)}`",
                                    f"pvl_validate.{fname} calls `{norm(call, 80)}` with {a!r} cells and {b!r} widths: build_line zips "
                                    "the two, so the report silently loses the columns beyond the shorter list (dialects are missing "
                                    "from the table although they were evaluated)", where=f"pvl/pvl_validate.py:{call.lineno}"))
    res.floor("build_line calls with derivable lengths", n, 3)


def rule_arg_order(repo, res, modules=None):
    """ARG-ORDER: a positional argument that is a plain name which is also the name of a parameter of the callee is
    passed in *that* parameter's position.  Checked for every call the analysis can resolve inside the package: calls of
    module-level functions of the same module (`loads(s, parser, grammar, decoder)`), `super().__init__(...)` /
    `super().<method>(...)` along the MRO, `self.<method>(...)`, and constructor calls of package classes.  `f(a, b)` for
    `def f(b, a)` is legal Python and almost always a transposition: the two values swap roles (quantity_cls used as
    real_cls, the decoder used as the grammar)."""
    n = 0
    mods = modules or [m for m in repo.modules if m not in ("__main__",)]

    def params_of(fn, drop_self):
        ps = [a.arg for a in fn.args.posonlyargs + fn.args.args]
        return ps[1:] if drop_self and ps else ps

    def check(call, callee_params, where, label, caller=None):
        nonlocal n
        if any(isinstance(a, ast.Starred) for a in call.args):
            return
        own = {x.arg for x in caller.args.posonlyargs + caller.args.args + caller.args.kwonlyargs} if caller is not None else set()
        for i, a in enumerate(call.args):
            if not isinstance(a, ast.Name) or i >= len(callee_params):
                continue
            if a.id not in own:
                continue             # only a parameter of the caller that is handed on: a local may bear any name
            if a.id in callee_params and callee_params[i] != a.id:
                # the value is handed to another parameter than the one that bears its name; unless the callee's own
                # parameter of that name is also supplied (then it is a deliberate re-mapping)
                n += 1
                res.oblige("ARG-ORDER", f"{where}: `{norm(call, 60)}` passes `{a.id}` in the position of `{a.id}`", ok=False)
                res.add(Finding("ARG-ORDER", where, f"`{norm(call, 60)}`: `{a.id}` lands in parameter `{callee_params[i]}`",
                                f"{where} calls {label} as `{norm(call, 80)}`: the positional argument `{a.id}` lands in the callee's "
                                f"parameter `{callee_params[i]}` although the callee has a parameter named `{a.id}` (position "
                                f"{callee_params.index(a.id) + 1}): two values swap roles", where=f"line {call.lineno}"))
            else:
                n += 1
    for mname in mods:
        mod = repo.module(mname)
        # module-level functions calling module-level functions
        for fname, fn in mod.functions.items():
            for call in [x for x in ast.walk(fn) if isinstance(x, ast.Call)]:
                if isinstance(call.func, ast.Name) and call.func.id in mod.functions and call.args:
                    check(call, params_of(mod.functions[call.func.id], False), f"{mname}.{fname}", f"{call.func.id}()", fn)
                if isinstance(call.func, ast.Name) and call.func.id in repo.classes and call.args:
                    c_, init = repo.resolve_method(call.func.id, "__init__")
                    if init is not None:
                        check(call, params_of(init, True), f"{mname}.{fname}", f"{call.func.id}()", fn)
        for cname, cnode in mod.classes.items():
            if cname not in repo.classes:
                continue
            for meth, fn in repo.classes[cname].methods.items():
                for call in [x for x in ast.walk(fn) if isinstance(x, ast.Call) and x.args]:
                    f = call.func
                    if isinstance(f, ast.Attribute) and isinstance(f.value, ast.Call) and norm(f.value.func) == "super":
                        c_, target = repo.resolve_method(cname, f.attr, after=cname)
                        if target is not None:
                            check(call, params_of(target, True), f"{cname}.{meth}", f"{c_}.{f.attr}()", fn)
                    elif isinstance(f, ast.Attribute) and isinstance(f.value, ast.Name) and f.value.id == "self":
                        c_, target = repo.resolve_method(cname, f.attr)
                        if target is not None:
                            decos = repo.classes[c_].decorators.get(f.attr, []) if c_ in repo.classes else []
                            check(call, params_of(target, "staticmethod" not in decos), f"{cname}.{meth}", f"{c_}.{f.attr}()", fn)
                    elif isinstance(f, ast.Name) and f.id in repo.classes:
                        c_, init = repo.resolve_method(f.id, "__init__")
                        if init is not None:
                            check(call, params_of(init, True), f"{cname}.{meth}", f"{f.id}()", fn)
                    elif isinstance(f, ast.Name) and f.id in mod.functions:
                        check(call, params_of(mod.functions[f.id], False), f"{cname}.{meth}", f"{f.id}()", fn)
    res.floor("forwarded parameters in positional arguments of resolved calls", n, 30)


def rule_ctor_default(repo, res):
    """CTOR-DEFAULT: which grammar an object works with when the caller names only a decoder (abstract interpretation of
    the constructors, vsa.ctor, with a given decoder D whose grammar is G_D and no grammar):

      * PVLParser family and PVLEncoder: self.grammar *is* G_D -- the documented rule "the decoder's grammar is used";
        a parser that falls back to its own default lexes with one grammar while its decoder decides with another;
      * ODLEncoder / PDSLabelEncoder / ISISEncoder: self.grammar is an instance of the dialect's own grammar class
        (ODLGrammar / PDSGrammar / ISISGrammar) whatever decoder is given -- the dialect's keywords and character set
        are not the caller's to replace by handing over a permissive decoder."""
    from . import ctor
    n = 0

    def given_decoder():
        D = ctor.Inst("OmniDecoder")
        GD = ctor.Inst("OmniGrammar")
        D.attrs["grammar"] = GD
        return D, GD
    for c in sorted(repo.subclasses("PVLParser")) + ["PVLEncoder"]:
        if not repo.has_cls(c):
            raise AnalysisError(f"anchor vanished: class {c}")
        D, GD = given_decoder()
        try:
            inst = ctor.construct(repo, c, decoder=D)
        except AnalysisError as x:
            raise AnalysisError(f"CTOR-DEFAULT: constructor of {c} not interpretable: {x}")
        n += 1
        got = inst.attrs.get("grammar")
        ok = got is GD
        res.oblige("CTOR-DEFAULT", f"{c}(decoder=D).grammar is D.grammar", ok=ok)
        if not ok:
            res.add(Finding("CTOR-DEFAULT", f"{c}.__init__", "grammar of a given decoder not taken",
                            f"{c}(decoder=D) works with `{got!r}` as its grammar instead of D.grammar: the lexer and the token predicates "
                            "then follow one grammar (reserved characters, comments, character set) while the decoder classifies with "
                            "another", where=f"pvl/{repo.classes[c].module.name}.py:{repo.classes[c].node.lineno}"))
    for c, gcls in (("ODLEncoder", "ODLGrammar"), ("PDSLabelEncoder", "PDSGrammar"), ("ISISEncoder", "ISISGrammar")):
        if not repo.has_cls(c):
            raise AnalysisError(f"anchor vanished: class {c}")
        D, GD = given_decoder()
        try:
            inst = ctor.construct(repo, c, decoder=D)
        except AnalysisError as x:
            raise AnalysisError(f"CTOR-DEFAULT: constructor of {c} not interpretable: {x}")
        n += 1
        got = inst.attrs.get("grammar")
        ok = isinstance(got, ctor.Inst) and got.cls == gcls and got is not GD
        res.oblige("CTOR-DEFAULT", f"{c}(decoder=D).grammar is a {gcls}", ok=ok)
        if not ok:
            res.add(Finding("CTOR-DEFAULT", f"{c}.__init__", f"default grammar is not {gcls}",
                            f"{c}(decoder=D) writes with `{got!r}` as its grammar instead of a {gcls}: with a decoder of another dialect "
                            "(the permissive one, say) the block keywords, statement forms and the character set of the output are no "
                            "longer the dialect's", where=f"pvl/encoder.py:{repo.classes[c].node.lineno}"))
    res.floor("CTOR-DEFAULT constructor obligations", n, 6)


def rule_v_eq(repo, res):
    """V-EQ: the parser and the encoders never compare a container with another object by == / != (`value != {}`,
    `module == []`): the two container families define equality differently -- the default family requires the same
    class (an empty PVLGroup is not equal to {}), the multidict family compares by value (an empty group *is* equal to
    {}) -- so such a test takes different branches for the same label loaded by pvl and by pvl.new.  Emptiness is asked
    with len() / truthiness, kind with isinstance."""
    n = 0
    for mname in ("encoder", "parser", "__init__", "new"):
        if mname not in repo.modules:
            continue
        mod = repo.module(mname)
        fns = [(f"{mname}.{k}", v) for k, v in mod.functions.items()]
        for cname, cnode in mod.classes.items():
            if cname in repo.classes:
                fns += [(f"{cname}.{k}", v) for k, v in repo.classes[cname].methods.items()]
        for label, fn in fns:
            for c in [x for x in ast.walk(fn) if isinstance(x, ast.Compare) and len(x.ops) == 1 and isinstance(x.ops[0], (ast.Eq, ast.NotEq))]:
                sides = [c.left, c.comparators[0]]
                lit = [x for x in sides if isinstance(x, (ast.Dict, ast.List, ast.Tuple, ast.Set)) or
                       (isinstance(x, ast.Call) and norm(x.func) in ("dict", "list", "tuple", "set", "OrderedDict") and not x.args and not x.keywords)]
                other = [x for x in sides if x not in lit]
                if lit and other and isinstance(other[0], (ast.Name, ast.Attribute, ast.Subscript)):
                    n += 1
                    res.oblige("V-EQ", f"{label}: `{norm(c, 50)}` does not compare a container with a literal", ok=False)
                    res.add(Finding("V-EQ", label, f"`{norm(c, 50)}`",
                                    f"{label} decides with `{norm(c, 60)}`: for a block of the default container family this is never "
                                    "equal (its __eq__ requires the same class), for a block of the pvl.new family it is equal when the "
                                    "block is empty -- the same label takes different branches under the two loaders/dumpers",
                                    where=f"pvl/{mname}.py:{c.lineno}"))
    res.oblige("V-EQ", "no comparison of a container with a dict / list literal in parser, encoder and entry points", ok=n == 0)


def rule_hook_peek(repo, res):
    """HOOK-PEEK: the value repair hook of the permissive parser only *looks* at the token after the '=': on every path
    on which OmniParser.parse_value_post_hook returns the empty-value placeholder, the token it read was sent back
    first.  The token is what ends the statement -- a delimiter, a block keyword, END -- and belongs to the production
    that follows; if the hook keeps END, parse_end_statement never sees it and the parser reads on into whatever follows
    the label."""
    n = 0
    for cname in sorted(repo.subclasses("OmniParser")):
        defcls, fn = repo.full_resolved(cname, "parse_value_post_hook")
        if fn is None or defcls not in set(repo.subclasses("OmniParser")):
            continue
        reads = [x for x in ast.walk(fn) if isinstance(x, ast.Assign) and isinstance(x.value, ast.Call) and norm(x.value.func) == "next"]
        if not reads:
            raise AnalysisError(f"anchor vanished: the token read of {defcls}.parse_value_post_hook")
        for r in [x for x in ast.walk(fn) if isinstance(x, ast.Return)]:
            n += 1
            sent = False
            x = r
            while x is not None and x is not fn and not sent:
                p = getattr(x, "_parent", None)
                for field in ("body", "orelse", "finalbody"):
                    blk = getattr(p, field, None)
                    if isinstance(blk, list) and x in blk:
                        for st in blk[:blk.index(x)]:
                            if isinstance(st, ast.Expr) and isinstance(st.value, ast.Call) and norm(st.value.func) in ("tokens.send", "tokens.throw"):
                                sent = True
                x = p
            res.oblige("HOOK-PEEK", f"{defcls}.parse_value_post_hook: `{norm(r, 50)}` comes after tokens.send(<the token read>)", ok=sent)
            if not sent:
                res.add(Finding("HOOK-PEEK", f"{defcls}.parse_value_post_hook", f"`{norm(r, 50)}` without sending the token back",
                                f"{defcls}.parse_value_post_hook can return the placeholder (`{norm(r, 60)}`) without sending back the token "
                                "it read: when that token is END (or a block keyword), the statement it begins is lost -- after "
                                "`key =` directly before END the parser does not see the end of the label and reads on into the data "
                                "that follows it", where=f"pvl/parser.py:{r.lineno}"))
    res.floor("returns of the value repair hook", n, 1)


def rule_writer_fwd(repo, res):
    """WRITER-FWD: every writer of pvl_translate hands the loaded label and the output file to the library's dump on
    every path: each `return` of a Writer subclass's dump() is `return <pvl|json>.dump(<label>, <outfile>, ...)` and there
    is no path that leaves the method without it (an early return for an "empty" label writes nothing where the library
    writes an END statement)."""
    if "pvl_translate" not in repo.modules:
        raise AnalysisError("anchor vanished: pvl/pvl_translate.py")
    mod = repo.module("pvl_translate")
    n = 0
    for cname, cnode in mod.classes.items():
        if cname not in repo.classes or cname == "Writer" or "Writer" not in repo.mro(cname):
            continue
        fn = repo.classes[cname].methods.get("dump")
        if fn is None:
            continue
        n += 1
        params = [a.arg for a in fn.args.args if a.arg != "self"]
        rets = [r for r in ast.walk(fn) if isinstance(r, ast.Return)]
        bad = []
        for r in rets:
            v = r.value
            ok = isinstance(v, ast.Call) and norm(v.func) in ("pvl.dump", "json.dump", "pvl.new.dump") and len(v.args) >= 2 \
                and len(params) >= 2 and norm(v.args[0]) == params[0] and norm(v.args[1]) == params[1]
            if not ok:
                bad.append(r)
        last = fn.body[-1] if fn.body else None
        falls_off = not isinstance(last, (ast.Return, ast.Raise))
        # a bare `<lib>.dump(...)` as the last statement is also a forward
        if falls_off and isinstance(last, ast.Expr) and isinstance(last.value, ast.Call) and norm(last.value.func) in ("pvl.dump", "json.dump"):
            falls_off = False
        ok = not bad and not falls_off and (bool(rets) or not falls_off)
        res.oblige("WRITER-FWD", f"pvl_translate.{cname}.dump forwards (label, outfile) to the library's dump on every path", ok=ok)
        if not ok:
            what = f"`{norm(bad[0], 50)}`" if bad else "a path that falls off the end"
            res.add(Finding("WRITER-FWD", f"pvl_translate.{cname}.dump", f"{what} is not the library's dump",
                            f"pvl_translate.{cname}.dump has {what}: for some labels the tool writes nothing (or something else) where "
                            "dumping the loaded label with the chosen encoder writes text -- an empty label still has its END statement",
                            where=f"pvl/pvl_translate.py:{(bad[0] if bad else fn).lineno}"))
    res.floor("writers of pvl_translate", n, 2)


def rule_hook_flag(repo, res):
    """HOOK-FLAG: progress made by the repair hook counts as progress of the module loop.  PVLParser.parse_module runs
    `while <flag>:`, clears the flag at the top of each round and sets it when a production matched; the hook returns
    `(module, keep_parsing)`, and on the path where keep_parsing is true the loop's flag is set as well (`flag = True`,
    `flag = keep_parsing`, `flag = flag or keep_parsing`).  Otherwise a round in which only the hook consumed tokens -- two
    value-less parameters in a row -- ends the loop, and a label the permissive loader repairs is refused."""
    from .canon import canon
    ci = repo.classes.get("PVLParser")
    if ci is None or "parse_module" not in ci.methods:
        raise AnalysisError("anchor vanished: PVLParser.parse_module")
    fn = ci.methods["parse_module"]
    loops = [w for w in ast.walk(fn) if isinstance(w, ast.While) and isinstance(w.test, ast.Name)]
    hook_assigns = [a for a in ast.walk(fn) if isinstance(a, ast.Assign) and isinstance(a.value, ast.Call)
                    and norm(a.value.func) == "self.parse_module_post_hook" and isinstance(a.targets[0], ast.Tuple) and len(a.targets[0].elts) == 2
                    and isinstance(a.targets[0].elts[1], ast.Name)]
    if not loops or not hook_assigns:
        res.notes.append("HOOK-FLAG: parse_module has no `while <name>:` loop with an unpacked hook result; not decided")
        res.oblige("HOOK-FLAG", "parse_module: loop flag / hook result shape recognised", ok=True, nontrivial=False)
        return
    W = loops[0].test.id
    ok_all = True
    for a in hook_assigns:
        F = a.targets[0].elts[1].id
        sets = False
        for x in ast.walk(loops[0]):
            # W = F / W = W or F / W |= F
            if isinstance(x, ast.Assign) and any(isinstance(t, ast.Name) and t.id == W for t in x.targets) and \
                    any(isinstance(y, ast.Name) and y.id == F for y in ast.walk(x.value)):
                sets = True
            if isinstance(x, ast.AugAssign) and isinstance(x.target, ast.Name) and x.target.id == W and \
                    any(isinstance(y, ast.Name) and y.id == F for y in ast.walk(x.value)):
                sets = True
            if isinstance(x, ast.If):
                t = x.test
                pos = isinstance(t, ast.Name) and t.id == F
                neg = isinstance(t, ast.UnaryOp) and isinstance(t.op, ast.Not) and isinstance(t.operand, ast.Name) and t.operand.id == F
                arm = x.body if pos else (x.orelse if neg else None)
                is_set = lambda s_: isinstance(s_, ast.Assign) and any(isinstance(tg, ast.Name) and tg.id == W for tg in s_.targets) \
                    and isinstance(s_.value, ast.Constant) and s_.value.value is True
                if arm is not None and any(is_set(s_) for s_ in arm):
                    sets = True
                # guard clause: `if not F: return m` (or `if F: pass else: return`), then `W = True` further down the same block
                other = x.body if neg else (x.orelse if pos else None)
                if other and isinstance(other[-1], (ast.Return, ast.Raise)) and (neg or pos):
                    par = getattr(x, "_parent", None)
                    for field in ("body", "orelse", "finalbody"):
                        blk = getattr(par, field, None)
                        if isinstance(blk, list) and x in blk and any(is_set(s_) for s_ in blk[blk.index(x) + 1:]):
                            sets = True
        res.oblige("HOOK-FLAG", f"PVLParser.parse_module: when the hook returns {F} = True the loop flag `{W}` is set", ok=sets)
        if not sets:
            ok_all = False
            res.add(Finding("HOOK-FLAG", "PVLParser.parse_module", f"`{F}` does not set `{W}`",
                            f"PVLParser.parse_module does not set its loop flag `{W}` when parse_module_post_hook returns `{F}` true: a round "
                            "in which only the repair hook consumed tokens (two value-less parameters in a row, then more statements) ends "
                            "the loop, and the default loader refuses a label it is meant to repair", where=f"pvl/parser.py:{a.lineno}"))
    res.floor("hook results unpacked in parse_module", len(hook_assigns), 1)


def rule_mut_default(repo, res, modules=("collections", "parser", "decoder", "encoder", "lexer", "token", "grammar", "__init__", "new")):
    """MUT-DEFAULT: no function or method of the package has a mutable literal ([], {}, set(), list(), dict()) as a
    parameter default.  The one object is shared by every call (and every instance): returned to a caller or stored, it is
    changed by one and seen by all -- `getlist(missing_key)` handing out the same list to every container makes the
    membership test of every items view depend on what some caller did to that list."""
    n = 0
    for mname in modules:
        if mname not in repo.modules:
            continue
        mod = repo.module(mname)
        fns = [(f"{mname}.{k}", v) for k, v in mod.functions.items()]
        for cname in mod.classes:
            if cname in repo.classes:
                fns += [(f"{cname}.{k}", v) for k, v in repo.classes[cname].methods.items()]
        for label, fn in fns:
            defaults = list(fn.args.defaults) + [d for d in fn.args.kw_defaults if d is not None]
            for d in defaults:
                n += 1
                mutable = isinstance(d, (ast.List, ast.Dict, ast.Set, ast.ListComp, ast.DictComp, ast.SetComp)) or \
                    (isinstance(d, ast.Call) and norm(d.func) in ("list", "dict", "set", "OrderedDict", "collections.OrderedDict", "defaultdict", "bytearray"))
                if mutable:
                    res.oblige("MUT-DEFAULT", f"{label}: default `{norm(d, 30)}` is not a mutable object", ok=False)
                    res.add(Finding("MUT-DEFAULT", label, f"mutable default `{norm(d, 30)}`",
                                    f"{label} has the mutable default `{norm(d, 40)}`: one object for all calls and all instances; once it is "
                                    "returned or stored and then changed, every other container, parser or encoder sees the change",
                                    where=f"pvl/{mname}.py:{d.lineno}"))
    res.oblige("MUT-DEFAULT", f"{n} parameter defaults examined: none is a mutable literal", ok=True, nontrivial=False)
    res.floor("parameter defaults examined", n, 40 if len(modules) > 3 else 3)


def rule_hook_call(repo, res):
    """HOOK-CALL: the substitute classes are called the documented way -- positionally: `self.quantity_cls(value, units)`
    ("any class that takes two arguments, the value first"), `self.real_cls(text)`, `self.modcls()` / `self.grpcls()` /
    `self.objcls(...)`.  A keyword in the call (`quantity_cls(value=.., units=..)`) works for the bundled class, whose
    fields happen to have those names, and raises TypeError for every other class (astropy / pint quantities, a function)
    -- an exception that escapes the loader."""
    HOOKS = ("quantity_cls", "real_cls", "modcls", "grpcls", "objcls")
    n = 0
    for mname in ("decoder", "parser", "encoder"):
        mod = repo.module(mname)
        for cname in mod.classes:
            if cname not in repo.classes:
                continue
            for meth, fn in repo.classes[cname].methods.items():
                for call in [x for x in ast.walk(fn) if isinstance(x, ast.Call) and isinstance(x.func, ast.Attribute)
                             and x.func.attr in HOOKS and norm(x.func.value) in ("self", "self.decoder")]:
                    n += 1
                    kws = [k.arg for k in call.keywords]
                    ok = not kws
                    res.oblige("HOOK-CALL", f"{cname}.{meth}: `{norm(call, 60)}` passes its arguments positionally", ok=ok)
                    if not ok:
                        res.add(Finding("HOOK-CALL", f"{cname}.{meth}", f"`{norm(call, 60)}` with keywords {kws}",
                                        f"{cname}.{meth} calls the caller's class as `{norm(call, 80)}`: the documented contract is "
                                        "positional; a substitute class whose parameters are named differently raises TypeError, which "
                                        "is neither LexerError nor ParseError and escapes the loader", where=f"pvl/{mname}.py:{call.lineno}"))
    res.floor("calls of the substitute-class hooks", n, 4)


def rule_parse_append(repo, res):
    """PARSE-APPEND: the parser builds containers with append() only: in the parser classes no statement assigns to an
    item of a container being built (`agg[name] = block`, `module[key] = value`).  Item assignment on the multi-valued
    containers replaces the first pair with that name and deletes the later ones, so duplicate names -- several OBJECT =
    COLUMN blocks in a table -- would collapse into one, moved to the first position."""
    n = 0
    for cname in sorted(repo.subclasses("PVLParser")):
        ci = repo.classes[cname]
        for meth, fn in ci.methods.items():
            if not meth.startswith("parse"):
                continue
            for a in [x for x in ast.walk(fn) if isinstance(x, (ast.Assign, ast.AugAssign))]:
                for t in (a.targets if isinstance(a, ast.Assign) else [a.target]):
                    if isinstance(t, ast.Subscript) and isinstance(t.value, ast.Name) and t.value.id not in ("self",):
                        n += 1
                        res.oblige("PARSE-APPEND", f"{cname}.{meth}: `{norm(a, 50)}` is not an item assignment on a container being built", ok=False)
                        res.add(Finding("PARSE-APPEND", f"{cname}.{meth}", f"`{norm(a, 50)}`",
                                        f"{cname}.{meth} stores a parsed statement with `{norm(a, 60)}`: item assignment on the ordered "
                                        "multi-dict replaces the first pair of that name and drops the later ones, so repeated names "
                                        "(duplicate blocks or parameters) do not survive the load", where=f"pvl/parser.py:{a.lineno}"))
    res.oblige("PARSE-APPEND", "the parser classes add pairs with append() only", ok=n == 0)


def rule_enc_classify(repo, res):
    """ENC-CLASSIFY: the encoders decide what a text *is* (number, date, keyword, identifier) through their decoder and the
    Token predicates, never by calling float() / int() / Decimal() / strptime on the text themselves: the reader of the
    same configuration uses its real_cls (Decimal accepts `sNaN`, float does not), so a private classification by float()
    writes bare what that reader takes for a number."""
    n = 0
    for cname in sorted(repo.subclasses("PVLEncoder")):
        for meth, fn in repo.classes[cname].methods.items():
            if not (meth.startswith("is_") or meth in ("needs_quotes", "encode_string")):
                continue
            for call in [x for x in ast.walk(fn) if isinstance(x, ast.Call) and norm(x.func) in ("float", "int", "Decimal", "decimal.Decimal", "complex",
                                                                                                 "datetime.datetime.strptime", "datetime.strptime")]:
                if call.args and isinstance(call.args[0], ast.Name):
                    n += 1
                    res.oblige("ENC-CLASSIFY", f"{cname}.{meth}: `{norm(call, 40)}` does not classify the text itself", ok=False)
                    res.add(Finding("ENC-CLASSIFY", f"{cname}.{meth}", f"`{norm(call, 40)}`",
                                    f"{cname}.{meth} probes the text with `{norm(call, 50)}` instead of asking its decoder / Token: with a "
                                    "decoder whose real_cls is not float the writer and the reader classify some texts differently, and a "
                                    "string is written bare that reads back as a number", where=f"pvl/encoder.py:{call.lineno}"))
    res.oblige("ENC-CLASSIFY", "the quoting decisions of the encoders go through the decoder / Token predicates", ok=n == 0)


def rule_parse_raise(repo, res):
    """PARSE-RAISE: inside the productions, ParseError means "the text ended too early" and nothing else: every
    `raise ParseError(...)` of the parser classes (outside the entry point parse()) stands in an exception handler (of
    StopIteration, or of the ValueError that comes back from throwing into an exhausted token generator) or directly
    after a loop over the tokens that ran to its end.  Anything wrong with a token that *is* there is reported by throwing
    ValueError into the lexer, which turns it into a LexerError with pos / lineno / colno -- a ParseError raised for a
    token at hand (an unterminated units expression cut short by a disallowed character) hides the character-set
    error and carries no position."""
    n = 0
    for cname in sorted(repo.subclasses("PVLParser")):
        for meth, fn in repo.classes[cname].methods.items():
            if meth in ("parse", "__init__"):
                continue
            for r in [x for x in ast.walk(fn) if isinstance(x, ast.Raise) and x.exc is not None and "ParseError" in norm(x.exc)]:
                n += 1
                ok = False
                x = r
                while x is not None and x is not fn:
                    p = getattr(x, "_parent", None)
                    if isinstance(p, ast.ExceptHandler):
                        ok = True
                    for field in ("body", "orelse", "finalbody"):
                        blk = getattr(p, field, None)
                        if isinstance(blk, list) and x in blk:
                            prev = blk[:blk.index(x)]
                            if any(isinstance(s_, (ast.For, ast.While)) and "tokens" in norm(s_.iter if isinstance(s_, ast.For) else s_.test) for s_ in prev):
                                ok = True
                    # the orelse of a for-loop over tokens: ran to its end
                    if isinstance(p, ast.For) and x in p.orelse and "tokens" in norm(p.iter):
                        ok = True
                    x = p
                res.oblige("PARSE-RAISE", f"{cname}.{meth}: `{norm(r, 50)}` stands where the token stream is exhausted", ok=ok)
                if not ok:
                    res.add(Finding("PARSE-RAISE", f"{cname}.{meth}", f"`{norm(r, 50)}` for a token at hand",
                                    f"{cname}.{meth} raises ParseError directly (`{norm(r, 70)}`) although a token was read: the productions "
                                    "report a bad token by throwing ValueError into the lexer (LexerError with pos, lineno, colno); a "
                                    "character outside the dialect's set that cut the token short is then reported as a ParseError without "
                                    "position instead of the LexerError the dialect owes", where=f"pvl/parser.py:{r.lineno}"))
    res.floor("ParseError raises in the productions", n, 3)
