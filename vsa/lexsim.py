"""COMMENT-KIND: explicit-state exploration of the lexer's comment automaton (C04, C05).

The character-step function of the lexer (`lex_char` and the helpers it calls) is a function of finitely many things
once characters are grouped: the preservation state (a member of the `Preserve` enum plus the recorded end text), the
current / previous / next character *up to whether they are one of the grammar's comment delimiter characters*, and
the lexeme's tail.  The checker interprets the source of those functions itself (a small statement interpreter over
the desugared AST; pvl is neither imported nor run) for every combination of

    grammar class  x  open comment kind  x  (char, prev_char, next_char) over the delimiter characters and one other

and checks what a comment is: **once a comment is open, the only thing that changes the preservation state is its
own end text** -- the state stays as it is, or it returns to `Preserve.FALSE` with the lexeme ending in the end text
recorded when the comment was opened.  A delimiter of another comment kind inside a comment must not open, re-open or
close anything: `# see /* here` is one line comment, `/* a # b */` one block comment.

Violations are reported with the combination as witness.  Anything the interpreter does not know is an
ANALYSIS-ERROR, never a pass.
"""
import ast
import enum

from .core import AnalysisError, Finding, norm
from . import tables


class SimRaise(Exception):
    def __init__(self, cls):
        super().__init__(cls)
        self.cls = cls


class _Return(Exception):
    def __init__(self, value):
        self.value = value


SAFE = {"dict": dict, "set": set, "tuple": tuple, "list": list, "len": len, "str": str, "isinstance": isinstance, "any": any,
        "all": all, "enumerate": enumerate, "range": range, "sorted": sorted, "min": min, "max": max, "bool": bool, "frozenset": frozenset,
        "int": int, "None": None, "True": True, "False": False, "ValueError": ValueError, "NotImplementedError": NotImplementedError,
        "KeyError": KeyError, "IndexError": IndexError, "Exception": Exception, "TypeError": TypeError}


class Sim:
    MAX_STEPS = 20000

    def __init__(self, repo, module="lexer"):
        self.repo, self.module = repo, module
        self.mod = repo.module(module)
        self.globals = dict(SAFE)
        # pure helpers of the standard library the lexer's helpers may import (itertools / functools / operator)
        import itertools, functools, operator
        std = {"itertools": itertools, "functools": functools, "operator": operator}
        for name, (src, orig) in self.mod.imports.items():
            root = src.split(".")[0]
            if root in std:
                self.globals[name] = std[root] if orig is None else getattr(std[root], orig, None)
        # Enum classes of the module, rebuilt from their member names
        for cname, cnode in self.mod.classes.items():
            if any(norm(b).split(".")[-1] in ("Enum", "IntEnum") for b in cnode.bases):
                members = [t.id for n in cnode.body if isinstance(n, ast.Assign) for t in n.targets if isinstance(t, ast.Name)]
                self.globals[cname] = enum.Enum(cname, members)
        for fname in self.mod.functions:
            self.globals[fname] = (lambda *a, _f=fname, **k: self.call(_f, a, k))
        # module-level constants (tables of enum members / delimiter pairs), evaluated on demand
        for name, value in self.mod.assigns.items():
            if name not in self.globals:
                try:
                    self.globals[name] = eval(compile(ast.fix_missing_locations(ast.Expression(body=value)), "<lexer-constant>", "eval"), {"__builtins__": {}}, self.globals)
                except Exception:
                    pass
        self.steps = 0

    # ------------------------------------------------------------------ expressions
    def ev(self, e, env):
        try:
            # one namespace (module names, then locals): names used inside comprehensions are looked up in the globals
            ns = dict(self.globals)
            ns.update(env)
            ns["__builtins__"] = {}
            return eval(compile(ast.fix_missing_locations(ast.Expression(body=e)), "<lexer-expression>", "eval"), ns)
        except (SimRaise, _Return):
            raise
        except NameError as x:
            raise AnalysisError(f"COMMENT-KIND: name not known to the lexer interpreter: {x}")

    # ------------------------------------------------------------------ statements
    def call(self, fname, args, kwargs):
        fn = self.mod.functions[fname]
        a = fn.args
        params = [x.arg for x in a.posonlyargs + a.args]
        env = {}
        for p, v in zip(params, args):
            env[p] = v
        for k, v in kwargs.items():
            env[k] = v
        defaults = dict(zip(params[len(params) - len(a.defaults):], a.defaults))
        for p in params:
            if p not in env:
                if p not in defaults:
                    raise AnalysisError(f"COMMENT-KIND: {fname}() called without argument {p}")
                try:
                    env[p] = self.ev(defaults[p], {})
                except AnalysisError:
                    env[p] = None
        try:
            self.block(fn.body, env)
        except _Return as r:
            return r.value
        return None

    def block(self, stmts, env):
        for s in stmts:
            self.steps += 1
            if self.steps > self.MAX_STEPS:
                raise AnalysisError("COMMENT-KIND: step budget of the lexer interpreter exceeded")
            self.stmt(s, env)

    def assign(self, target, value, env):
        if isinstance(target, ast.Name):
            env[target.id] = value
        elif isinstance(target, (ast.Tuple, ast.List)):
            vals = list(value)
            if len(vals) != len(target.elts):
                raise AnalysisError("COMMENT-KIND: unpacking mismatch in the lexer interpreter")
            for t, v in zip(target.elts, vals):
                self.assign(t, v, env)
        elif isinstance(target, ast.Subscript):
            self.ev(target.value, env)[self.ev(target.slice, env)] = value
        else:
            raise AnalysisError(f"COMMENT-KIND: assignment target {norm(target)} not interpreted")

    def stmt(self, s, env):
        if isinstance(s, ast.Expr):
            if not isinstance(s.value, ast.Constant):
                self.ev(s.value, env)
            return
        if isinstance(s, ast.Assign):
            v = self.ev(s.value, env)
            for t in s.targets:
                self.assign(t, v, env)
            return
        if isinstance(s, ast.AugAssign):
            cur = self.ev(s.target if not isinstance(s.target, ast.Name) else ast.Name(id=s.target.id, ctx=ast.Load()), env) \
                if isinstance(s.target, ast.Name) else self.ev(_as_load(s.target), env)
            v = self.ev(s.value, env)
            ops = {ast.Add: lambda a, b: a + b, ast.BitOr: lambda a, b: a | b, ast.Sub: lambda a, b: a - b, ast.BitAnd: lambda a, b: a & b}
            if type(s.op) not in ops:
                raise AnalysisError(f"COMMENT-KIND: operator in `{norm(s)}` not interpreted")
            self.assign(s.target, ops[type(s.op)](cur, v), env)
            return
        if isinstance(s, ast.Return):
            raise _Return(None if s.value is None else self.ev(s.value, env))
        if isinstance(s, ast.If):
            self.block(s.body if self.ev(s.test, env) else s.orelse, env)
            return
        if isinstance(s, ast.For):
            broke = False
            for item in list(self.ev(s.iter, env)):
                self.assign(s.target, item, env)
                try:
                    self.block(s.body, env)
                except _Break:
                    broke = True
                    break
                except _Continue:
                    continue
            if not broke:
                self.block(s.orelse, env)
            return
        if isinstance(s, ast.While):
            n = 0
            while self.ev(s.test, env):
                n += 1
                if n > 200:
                    raise AnalysisError("COMMENT-KIND: while loop does not end in the lexer interpreter")
                try:
                    self.block(s.body, env)
                except _Break:
                    break
                except _Continue:
                    continue
            return
        if isinstance(s, ast.Break):
            raise _Break()
        if isinstance(s, ast.Continue):
            raise _Continue()
        if isinstance(s, ast.Pass):
            return
        if isinstance(s, ast.Raise):
            tgt = s.exc.func if isinstance(s.exc, ast.Call) else s.exc
            raise SimRaise(norm(tgt).split(".")[-1] if tgt is not None else "Exception")
        if isinstance(s, ast.Try):
            try:
                self.block(s.body, env)
            except SimRaise as x:
                for h in s.handlers:
                    names = None if h.type is None else [norm(t).split(".")[-1] for t in (h.type.elts if isinstance(h.type, ast.Tuple) else [h.type])]
                    if names is None or x.cls in names or "Exception" in names:
                        self.block(h.body, env)
                        break
                else:
                    raise
            except (IndexError, KeyError) as x:
                for h in s.handlers:
                    names = None if h.type is None else [norm(t).split(".")[-1] for t in (h.type.elts if isinstance(h.type, ast.Tuple) else [h.type])]
                    if names is None or type(x).__name__ in names or "Exception" in names or "LookupError" in names:
                        self.block(h.body, env)
                        break
                else:
                    raise
            else:
                self.block(s.orelse, env)
            self.block(s.finalbody, env)
            return
        if isinstance(s, (ast.Import, ast.ImportFrom, ast.Global, ast.Nonlocal, ast.Assert)):
            return
        raise AnalysisError(f"COMMENT-KIND: statement {type(s).__name__} not interpreted by the lexer interpreter")


class _Break(Exception):
    pass


class _Continue(Exception):
    pass


class _Chain(dict):
    """local names first, then the module's"""

    def __init__(self, env, glob):
        super().__init__()
        self.env, self.glob = env, glob

    def __getitem__(self, k):
        if k in self.env:
            return self.env[k]
        if k in self.glob:
            return self.glob[k]
        raise KeyError(k)

    def __contains__(self, k):
        return k in self.env or k in self.glob


def _as_load(t):
    from .inline import clone
    n = clone(t)
    n.ctx = ast.Load()
    return n


def rule_comment_kind(repo, res):
    """COMMENT-KIND (see the module docstring)"""
    mod = repo.module("lexer")
    for need in ("lex_char", "_prepare_comment_tuples"):
        if need not in mod.functions:
            raise AnalysisError(f"anchor vanished: pvl/lexer.py:{need}")
    fn = mod.functions["lex_char"]
    params = [a.arg for a in fn.args.args]
    if len(params) != 7:
        raise AnalysisError("lex_char signature changed; COMMENT-KIND needs (char, prev_char, next_char, lexeme, preserve, g, c_info)")
    n_cases = 0
    n_grammars = 0
    seen = set()
    for gcls in tables.grammar_classes(repo):
        g = tables.grammar_instance(repo, gcls)
        comments = tuple(tuple(p) for p in g.comments)
        if comments in seen:
            continue
        seen.add(comments)
        n_grammars += 1
        sim = Sim(repo)
        enum_cls = sim.globals.get("Preserve")
        if enum_cls is None or not hasattr(enum_cls, "COMMENT") or not hasattr(enum_cls, "FALSE"):
            raise AnalysisError("anchor vanished: the Preserve enum of pvl/lexer.py with members COMMENT and FALSE")
        try:
            c_info = sim.call("_prepare_comment_tuples", (g.comments,), {})
        except (SimRaise, Exception) as x:
            if isinstance(x, AnalysisError):
                raise
            raise AnalysisError(f"COMMENT-KIND: _prepare_comment_tuples could not be interpreted for {gcls}: {type(x).__name__} {x}")
        delim_chars = sorted({ch for pair in comments for d in pair for ch in d})
        other = next(c for c in "xyzw" if c not in delim_chars)
        chars = delim_chars + [other]
        for (opener, closer) in comments:
            for char in chars:
                for prev in chars + [None]:
                    for nxt in chars + [None]:
                        lexeme = opener + other + (prev if prev is not None else "")
                        if prev is None:
                            continue         # a character inside an open comment has a predecessor
                        preserve = {"state": enum_cls.COMMENT, "end": closer}
                        before = dict(preserve)
                        sim.steps = 0
                        try:
                            out = sim.call("lex_char", (char, prev, nxt, lexeme, dict(preserve), g, c_info), {})
                        except SimRaise as x:
                            res.add(Finding("COMMENT-KIND", "lexer.lex_char", f"raises inside a {opener!r} comment",
                                            f"with {gcls}, inside a comment opened by {opener!r} the character {char!r} (previous "
                                            f"{prev!r}, next {nxt!r}) makes lex_char raise {x.cls}", witness=lexeme + char,
                                            where="pvl/lexer.py"))
                            continue
                        except AnalysisError:
                            raise
                        except (TypeError, AttributeError) as x:
                            res.add(Finding("LEX-TOTAL", "lexer.lex_char", f"raises {type(x).__name__} inside a comment",
                                            f"with {gcls}, inside a comment opened by {opener!r} lex_char raises {type(x).__name__} ({x}) "
                                            f"for the character {char!r} (previous {prev!r}, next {nxt!r}; None = the text ends there)",
                                            witness=lexeme + char, where="pvl/lexer.py"))
                            continue
                        except Exception as x:
                            raise AnalysisError(f"COMMENT-KIND: lex_char could not be interpreted ({type(x).__name__}: {x}) for "
                                                f"{gcls}, comment {opener!r}, char {char!r}")
                        n_cases += 1
                        if not (isinstance(out, tuple) and len(out) == 2 and isinstance(out[1], dict)):
                            raise AnalysisError("COMMENT-KIND: lex_char does not return (lexeme, preserve)")
                        lex2, pres2 = out
                        st2, end2 = pres2.get("state"), pres2.get("end")
                        if st2 == before["state"] and end2 == before["end"]:
                            continue
                        if st2 == enum_cls.FALSE and isinstance(lex2, str) and lex2.endswith(closer):
                            continue
                        what = ("is closed" if st2 == enum_cls.FALSE else f"turns into a comment that ends with {end2!r}"
                                if st2 == enum_cls.COMMENT else f"changes to state {getattr(st2, 'name', st2)}")
                        key = f"{opener!r} comment {what.split(' that')[0]} by {('the text ' + repr(prev + char)) if st2 != enum_cls.FALSE else repr(char + (nxt or ''))}"
                        res.add(Finding("COMMENT-KIND", "lexer.lex_char", f"a {opener!r} comment reacts to another kind's delimiter",
                                        f"with {gcls}, a comment opened by {opener!r} (it ends with {closer!r}) {what} at the character "
                                        f"{char!r} after {prev!r} before {nxt!r} although the lexeme {lex2!r} does not end with its own end "
                                        "text: delimiters of another comment kind inside a comment change what is commented out",
                                        witness=lexeme + char + (nxt or ""), where="pvl/lexer.py"))
        # LEX-TOTAL: outside any preservation state, at the first and the last character of a text (no previous / no next
        # character: the helpers get None there), the step function returns -- it does not raise
        for char in chars:
            for prev in chars + [None]:
                for nxt in chars + [None]:
                    if prev is not None and nxt is not None:
                        continue
                    lexeme = "" if prev is None else other + prev
                    preserve = {"state": enum_cls.FALSE, "end": None}
                    sim.steps = 0
                    n_cases += 1
                    try:
                        sim.call("lex_char", (char, prev, nxt, lexeme, dict(preserve), g, c_info), {})
                    except SimRaise as x:
                        if x.cls in ("LexerError", "ParseError"):
                            continue
                        res.add(Finding("LEX-TOTAL", "lexer.lex_char", f"raises {x.cls} at an end of the text",
                                        f"with {gcls}, lex_char raises {x.cls} for the character {char!r} with previous {prev!r} and next "
                                        f"{nxt!r} (None = the text starts / ends there): the loader fails with an undocumented exception",
                                        witness=(prev or "") + char + (nxt or ""), where="pvl/lexer.py"))
                    except AnalysisError:
                        raise
                    except (TypeError, AttributeError) as x:
                        res.add(Finding("LEX-TOTAL", "lexer.lex_char", f"raises {type(x).__name__} at an end of the text",
                                        f"with {gcls}, lex_char raises {type(x).__name__} ({x}) for the character {char!r} with previous "
                                        f"{prev!r} and next {nxt!r} (None = the text starts / ends there): the loader fails with an "
                                        "undocumented exception instead of LexerError / ParseError",
                                        witness=(prev or "") + char + (nxt or ""), where="pvl/lexer.py"))
                    except Exception as x:
                        raise AnalysisError(f"LEX-TOTAL: lex_char could not be interpreted ({type(x).__name__}: {x})")
        # LEX-KEEP: outside any preservation state a character that is not white space *of the grammar* is kept in the
        # lexeme -- in particular the characters Python's str.isspace() calls white space but the grammar does not
        keep_probe = [c for c in ("\x1c", "\x1d", "\x1e", "\x1f", "\x85", "\xa0", "\u2003", other) if c not in g.whitespace]
        for char in keep_probe:
            sim.steps = 0
            n_cases += 1
            try:
                out = sim.call("lex_char", (char, other, other, other, {"state": enum_cls.FALSE, "end": None}, g, c_info), {})
            except (SimRaise, TypeError, AttributeError):
                continue
            if not (isinstance(out, tuple) and isinstance(out[0], str) and out[0].endswith(char)):
                res.add(Finding("LEX-KEEP", "lexer.lex_char", "drops a character that is not white space of the grammar",
                                f"with {gcls}, lex_char does not append {char!r} to the lexeme ({out[0] if isinstance(out, tuple) else out!r}) "
                                "although it is not one of the grammar's white-space characters: the character silently disappears "
                                "from unquoted values", witness=other + char + other, where="pvl/lexer.py"))
        res.oblige("LEX-KEEP", f"{gcls}: characters outside the grammar's white space are kept in the lexeme ({len(keep_probe)} probes)",
                   ok=not any(f.rule == "LEX-KEEP" for f in res.findings))
        res.oblige("LEX-TOTAL", f"{gcls}: lex_char returns for every delimiter character at the first / last position of a text",
                   ok=not any(f.rule == "LEX-TOTAL" for f in res.findings))
        res.oblige("COMMENT-KIND", f"{gcls} (comments {comments}): inside an open comment only its own end text changes the "
                                   "preservation state", ok=not any(f.rule == "COMMENT-KIND" for f in res.findings))
    res.floor("COMMENT-KIND combinations explored", n_cases, 40)
    res.floor("COMMENT-KIND grammars with distinct comment tables", n_grammars, 2)


def _grammar_setups(repo, distinct):
    """(gcls, grammar instance, Sim, Preserve enum, c_info) per grammar class whose *distinct(g)* key was not seen yet"""
    mod = repo.module("lexer")
    for need in ("lex_char", "_prepare_comment_tuples"):
        if need not in mod.functions:
            raise AnalysisError(f"anchor vanished: pvl/lexer.py:{need}")
    if len(mod.functions["lex_char"].args.args) != 7:
        raise AnalysisError("lex_char signature changed; the step interpreter needs (char, prev_char, next_char, lexeme, preserve, g, c_info)")
    seen = set()
    for gcls in tables.grammar_classes(repo):
        g = tables.grammar_instance(repo, gcls)
        k = distinct(g)
        if k in seen:
            continue
        seen.add(k)
        sim = Sim(repo)
        enum_cls = sim.globals.get("Preserve")
        if enum_cls is None or not all(hasattr(enum_cls, m) for m in ("COMMENT", "FALSE", "UNIT", "QUOTE", "NONDECIMAL")):
            raise AnalysisError("anchor vanished: the Preserve enum of pvl/lexer.py (FALSE, COMMENT, UNIT, QUOTE, NONDECIMAL)")
        try:
            c_info = sim.call("_prepare_comment_tuples", (g.comments,), {})
        except AnalysisError:
            raise
        except Exception as x:
            raise AnalysisError(f"_prepare_comment_tuples could not be interpreted for {gcls}: {type(x).__name__} {x}")
        yield gcls, g, sim, enum_cls, c_info


def rule_preserve_kind(repo, res):
    """PRESERVE-KIND / ENTER-KIND: the transition table of the lexer's preservation states, explored on the step
    function for every grammar's tables.

    PRESERVE-KIND: in the states QUOTE (end = either quote character), UNIT (end = the closing units delimiter) and
    NONDECIMAL (end = '#') every character -- comment delimiters, the other quote, units delimiters, white space, line
    ends, reserved characters, '#', an ordinary one -- is appended to the lexeme verbatim, and the state changes (to
    FALSE) exactly when the character is the state's own end character.

    ENTER-KIND: outside any state, a quote character opens QUOTE ending with the same character, the opening units
    delimiter opens UNIT ending with the closing one, a single-character comment opener (after white space or at the
    start) opens COMMENT ending with its own closer; white space of the grammar is not added to the lexeme; any other
    character is appended and leaves the state alone."""
    n_cases = 0
    n_g = 0
    for gcls, g, sim, E, c_info in _grammar_setups(repo, lambda g: (tuple(map(tuple, g.comments)), tuple(g.quotes),
                                                                        tuple(g.units_delimiters), tuple(g.whitespace),
                                                                        tuple(g.reserved_characters))):
        n_g += 1
        comments = tuple(tuple(p) for p in g.comments)
        special = sorted({ch for pair in comments for d in pair for ch in d} | set(g.quotes) | set(g.units_delimiters)
                         | {"#", " ", "\n", "\t", "=", ",", "(", ")", "{", "}", ";", "-", "+"} | set(g.reserved_characters))
        other = next(c for c in "xyzw" if c not in special)
        probe = special + [other]
        states = [(E.QUOTE, q) for q in g.quotes] + [(E.UNIT, g.units_delimiters[1]), (E.NONDECIMAL, "#")]
        bad_p = []
        for (st, end) in states:
            for char in probe:
                for prev, nxt in ((other, other), (None, other), (other, None), ("*", "/"), ("/", "*")):
                    lexeme = other + (prev or "")
                    sim.steps = 0
                    n_cases += 1
                    try:
                        out = sim.call("lex_char", (char, prev, nxt, lexeme, {"state": st, "end": end}, g, c_info), {})
                    except AnalysisError:
                        raise
                    except SimRaise as x:
                        bad_p.append((st, end, char, f"raises {x.cls}"))
                        continue
                    except (TypeError, AttributeError, KeyError, IndexError) as x:
                        bad_p.append((st, end, char, f"raises {type(x).__name__}"))
                        continue
                    except Exception as x:
                        raise AnalysisError(f"PRESERVE-KIND: lex_char could not be interpreted ({type(x).__name__}: {x})")
                    lex2, pres2 = out
                    want_state = (E.FALSE, None) if char == end else (st, end)
                    got_state = (pres2.get("state"), pres2.get("end"))
                    if lex2 != lexeme + char:
                        bad_p.append((st, end, char, f"the lexeme becomes {lex2!r} instead of {lexeme + char!r}"))
                    elif got_state != want_state:
                        bad_p.append((st, end, char, f"the state becomes {getattr(got_state[0], 'name', got_state[0])}/{got_state[1]!r}"))
        shown = set()
        for (st, end, char, what) in bad_p:
            k = (st, end, what.split(" ")[0], char)
            if k in shown:
                continue
            shown.add(k)
            res.add(Finding("PRESERVE-KIND", "lexer.lex_char", f"in state {st.name} (end {end!r}) the character {char!r}: {what.split(' instead')[0][:40]}",
                            f"with {gcls}, inside a {st.name.lower()} that ends with {end!r} the character {char!r} is not simply kept: {what}. "
                            "Text inside quotes / units / a based integer is changed or cut by what it contains", witness=other + char,
                            where="pvl/lexer.py"))
        res.oblige("PRESERVE-KIND", f"{gcls}: in QUOTE / UNIT / NONDECIMAL every one of {len(probe)} probe characters is kept verbatim and "
                                    "only the state's own end character closes it", ok=not bad_p)
        # ENTER-KIND
        bad_e = []
        singles = {p[0]: p[1] for p in comments if len(p[0]) == 1}
        multi_chars = {ch for p in comments if len(p[0]) > 1 for d in p for ch in d}
        for char in probe:
            if char in multi_chars:
                continue                 # multi-character openers depend on the neighbours: COMMENT-KIND / TB3 look at them
            if char == "#":
                lexemes = ("",)          # after digits '#' may open a based integer: TB8 / LEX1 decide that
            else:
                lexemes = ("", other)
            for lexeme in lexemes:
                prev = " " if lexeme == "" else other
                sim.steps = 0
                n_cases += 1
                try:
                    out = sim.call("lex_char", (char, prev, other, lexeme, {"state": E.FALSE, "end": None}, g, c_info), {})
                except AnalysisError:
                    raise
                except (SimRaise, TypeError, AttributeError, KeyError, IndexError) as x:
                    bad_e.append((char, f"lex_char raises {getattr(x, 'cls', type(x).__name__)}"))
                    continue
                except Exception as x:
                    raise AnalysisError(f"ENTER-KIND: lex_char could not be interpreted ({type(x).__name__}: {x})")
                lex2, pres2 = out
                got = (pres2.get("state"), pres2.get("end"))
                if char in g.quotes:
                    want, wl = (E.QUOTE, char), lexeme + char
                elif char == g.units_delimiters[0]:
                    want, wl = (E.UNIT, g.units_delimiters[1]), lexeme + char
                elif char in singles and lexeme == "":
                    want, wl = (E.COMMENT, singles[char]), lexeme + char
                elif char in singles:
                    continue             # inside a word: the grammar's own rule (set off by white space) -- not decided here
                elif char in g.whitespace:
                    want, wl = (E.FALSE, None), lexeme
                else:
                    want, wl = (E.FALSE, None), lexeme + char
                if got != want:
                    bad_e.append((char, f"the state after it is {getattr(got[0], 'name', got[0])}/{got[1]!r}, expected {want[0].name}/{want[1]!r}"))
                elif lex2 != wl:
                    bad_e.append((char, f"the lexeme becomes {lex2!r}, expected {wl!r}"))
        shown = set()
        for (char, what) in bad_e:
            if char in shown:
                continue
            shown.add(char)
            res.add(Finding("ENTER-KIND", "lexer.lex_char", f"outside any state, the character {char!r}",
                            f"with {gcls}, outside any preservation state the character {char!r}: {what}. Quotes, units expressions, "
                            "line comments and white space are not delimited as the grammar's tables say", witness=char, where="pvl/lexer.py"))
        res.oblige("ENTER-KIND", f"{gcls}: quotes open QUOTE ending with the same quote, {g.units_delimiters[0]!r} opens UNIT ending with "
                                 f"{g.units_delimiters[1]!r}, line-comment openers open COMMENT with their own end, white space is dropped, "
                                 "other characters are appended", ok=not bad_e)
    res.floor("PRESERVE-KIND / ENTER-KIND transitions explored", n_cases, 200)
    res.floor("grammars with distinct lexer tables", n_g, 2)
