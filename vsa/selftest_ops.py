"""Seeded-fault operators for the armed-rule self-check: (id, property, rule expected to fire, file, text edits).
Each edit must match exactly once in the current source, otherwise the operator is skipped (and counted)."""

OPERATORS = []


def op(id, prop, rule, file, *edits, expect=()):
    OPERATORS.append(dict(id=id, property=prop, rule=rule, file=file, edits=list(edits), expect=list(expect)))


# ---------------------------------------------------------------- parser (token protocol)
op("T6-units-skip", "C04", "T6", "parser.py",
   ("        # print(f'in parse_value, value is: {value}')\n        self.parse_WSC_until(None, tokens)\n", "        # print(f'in parse_value, value is: {value}')\n"))
op("T6-equals-skip", "C04", "T6", "parser.py",
   ("        self.parse_WSC_until(None, tokens)\n        return\n", "        return\n"))
op("T6-comma-skip", "C04", "T6", "parser.py",
   ("                self.parse_WSC_until(None, tokens)  # consume WSC after ','\n", ""))
op("T7-peek-after-end", "C09", "T7", "parser.py",
   ("        except StopIteration:\n            pass\n\n        return\n\n    def parse_assignment_statement",
    "            t = next(tokens)\n            tokens.send(t)\n        except StopIteration:\n            pass\n\n        return\n\n    def parse_assignment_statement"))
op("T1-no-send-end", "C05", "T1", "parser.py",
   ("            if not end.is_end_statement():\n                tokens.send(end)\n", "            if not end.is_end_statement():\n"))
op("T1-no-send-name", "C05", "T1", "parser.py",
   ("            else:\n                tokens.send(t)\n                raise ValueError(\n                    \"Expecting a Parameter Name, but \"",
    "            else:\n                raise ValueError(\n                    \"Expecting a Parameter Name, but \""))
op("T5-double-send", "C05", "T5", "parser.py",
   ("        if not t.startswith(self.grammar.units_delimiters[0]):\n            tokens.send(t)\n",
    "        if not t.startswith(self.grammar.units_delimiters[0]):\n            tokens.send(t)\n            tokens.send(t)\n"))
op("T2-drop-guard-value", "C05", "T2", "parser.py",
   ("                except LexerError:\n                    # A LexerError is a subclass of ValueError, but\n                    # if we get a LexerError, that's a problem and\n                    # we need to raise it, and not let it pass.\n                    raise\n", ""))
op("T2-drop-guard-module", "C15", "T2", "parser.py",
   ("                        m.append(*parsed)\n                        parsing = True\n                except LexerError:\n                    raise\n",
    "                        m.append(*parsed)\n                        parsing = True\n"))
op("T3-stopiteration-boundary", "C06", "T3", "parser.py",
   ("        except StopIteration:\n            raise ParseError(\n                \"Ran out of tokens before the PVL text was complete.\"\n            )\n",
    "        except KeyError:\n            raise ParseError(\n                \"Ran out of tokens before the PVL text was complete.\"\n            )\n"),
   expect=["StopIteration"])
op("T3-typeerror-set", "C06", "T3", "parser.py",
   ("        try:\n            return frozenset(elements)\n        except TypeError as err:", "        try:\n            return frozenset(elements)\n        except KeyError as err:"),
   expect=["TypeError"])
op("T4-hook-progress", "C06", "T4", "parser.py",
   ("                    tokens.send(t)\n                    raise Exception\n            else:", "                    tokens.send(t)\n            else:"))
op("T8-set-seq-falloff", "C05", "T8", "parser.py",
   ("        raise ParseError(\n            \"Ran out of tokens before finding the end delimiter \"\n            f'\"{delimiters[1]}\" of a Set or Sequence.'\n        )\n", ""))
op("T1-plain-valueerror-block", "C05", "T1", "parser.py",
   ("                            try:\n                                tokens.throw(ValueError, str(ve))\n                            except LexerError:\n                                raise\n                            except ValueError:  # tokens already exhausted\n                                raise ParseError(str(ve))\n",
    "                            raise ve\n"))
op("LYIELD-outside-try", "C05", "L-YIELD", "lexer.py",
   ("        except ValueError as err:\n            raise LexerError(err, s, i, lexeme)\n", "        except KeyError as err:\n            raise LexerError(err, s, i, lexeme)\n"))

# ---------------------------------------------------------------- lexer / character set
op("I1-pvl-range", "C15", "I1", "grammar.py", ("14 <= o <= 31", "14 <= o < 31"))
op("I1-odl-ascii", "C15", "I1", "grammar.py", ('char.encode(encoding="ascii")', 'char.encode(encoding="latin-1")'))
op("I1-omni", "C15", "I1", "grammar.py",
   ("    def char_allowed(self, char):\n        \"\"\"Takes all characters, could accept bad things, and the user must\n        beware.\"\"\"\n        return True",
    "    def char_allowed(self, char):\n        \"\"\"Takes all characters, could accept bad things, and the user must\n        beware.\"\"\"\n        return ord(char) != 0"))
op("I2-guard-after-lexchar", "C15", "I2", "lexer.py",
   ("        if not g.char_allowed(char):\n            raise LexerError(", "        if preserve[\"state\"] == Preserve.FALSE and not g.char_allowed(char):\n            raise LexerError("))
op("I3-lexeme-arg", "C15", "I3", "lexer.py", ("                lexeme + char,\n", "                lexeme,\n"))
op("I3-colno", "C15", "I3", "exceptions.py", ('colno = self.pos - doc.rfind("\\n", 0, self.pos)', 'colno = pos - doc.rfind("\\n", 0, self.pos)'))
op("I3-firstpos", "C15", "I3", "exceptions.py", ("return pos - len(sub) + 1", "return pos - len(sub)"))
op("LAZY-eager", "C09", "LAZY", "lexer.py", ("    for i, char in enumerate(s):\n        if not g.char_allowed(char):", "    s = s.strip() if False else s\n    for i, char in enumerate(s):\n        if not g.char_allowed(char):"))
op("PRESERVE-drop-char", "C04", "PRESERVE", "lexer.py", ("        return lexeme + char, preserve\n", "        return lexeme, preserve\n"))
op("TB3-comment-pair", "C04", "TB3", "grammar.py", ('comments = (("/*", "*/"), ("#", "\\n"))\n\n    def __init__(self):\n        # ISIS allows for + characters', 'comments = (("/*", "*/"), ("//", "\\n"))\n\n    def __init__(self):\n        # ISIS allows for + characters'))

# ---------------------------------------------------------------- tables
op("TB1-derived", "C03", "TB1", "grammar.py", ("    aggregation_keywords = dict(group_keywords)\n    aggregation_keywords.update(object_keywords)\n", ""))
op("TB2-reserved-equals", "C03", "TB2", "grammar.py", ('        "]",\n        "=",\n', '        "]",\n'))
op("TB5-pref-keyword", "C12", "TB5", "grammar.py", ('group_pref_keywords = ("GROUP", "END_GROUP")', 'group_pref_keywords = ("GROUP", "END_OBJECT")'))
op("TB6-odl-timezone", "C14", "TB6", "grammar.py", ("    # ODL allows \"local\" times without a timezone specifier.\n    default_timezone = None", "    # ODL allows \"local\" times without a timezone specifier.\n    default_timezone = timezone.utc"))
op("TB8-pre-re", "C03", "TB8", "grammar.py", ('nondecimal_pre_re = re.compile(fr"{_s}(?P<radix>2|8|16)#")', 'nondecimal_pre_re = re.compile(fr"{_s}(?P<radix>2|8)#")'))

# ---------------------------------------------------------------- collections
op("M1-drop-alias", "C10", "M1", "collections.py", ("    setdefault = abc.MutableMapping.setdefault\n", ""))
op("M2-pop-unpaired", "C10", "M2", "collections.py", ("            values = dict_getitem(self, key)\n            values.pop()\n", "            values = dict_getitem(self, key)\n"))
op("M2-clear-unpaired", "C10", "M2", "collections.py", ("        dict_clear(self)\n        self.__items = []", "        self.__items = []"))
op("M2-rep-bare-value", "C10", "M2-REP", "collections.py", ("        except KeyError:\n            dict_setitem(self, key, [value])", "        except KeyError:\n            dict_setitem(self, key, value)"))
op("M3-view-raw", "C10", "M3", "collections.py", ("    def __contains__(self, key):\n        return key in self._mapping", "    def __contains__(self, key):\n        return dict_contains(self._mapping, key)"))
op("P1-drop-reduce", "C11", "P1", "collections.py", ("    def __reduce__(self):", "    def _reduce_disabled(self):"))
op("P2-alias-items", "C11", "P2", "collections.py", ("    def copy(self):\n        return type(self)(self)", "    def copy(self):\n        new = type(self)()\n        new.__items = self.__items\n        return new"))

# ---------------------------------------------------------------- effects
op("ESTATE-no-reset", "C16", "E-STATE", "parser.py", ("        self.doc = s\n        self.errors = []\n", "        self.doc = s\n"))
op("EALIAS-errors", "C16", "E-ALIAS", "parser.py", ("module.errors = sorted(self.errors)", "module.errors = self.errors"))
op("E1-strict-placeholder", "C08", "E1", "parser.py", ("        raise ValueError\n\n    def parse_units", "        return EmptyValueAtLine(0)\n\n    def parse_units"))
op("E2-strict-hook-returns", "C08", "E2", "parser.py", ("        as if it were not overridden.\n        \"\"\"\n        raise Exception\n", "        as if it were not overridden.\n        \"\"\"\n        return module, False\n"))
op("E1-errors-not-appended", "C08", "E1", "parser.py", ("        self.errors.append(lc)\n", "        if lc > 1:\n            self.errors.append(lc)\n"))
op("A1-mutate-arg", "C13", "A1", "encoder.py", ("        non_agg_key_lengths = list()\n        for k, v in module.items():\n            if not isinstance(v, abc.Mapping):\n                non_agg_key_lengths.append(len(k))", "        non_agg_key_lengths = list()\n        module.pop(\"COMMENT\", None)\n        for k, v in module.items():\n            if not isinstance(v, abc.Mapping):\n                non_agg_key_lengths.append(len(k))"))
op("F2-onebyte-decode", "C09", "F2", "__init__.py", ("                s += decoder.decode(elem)", "                s += elem.decode()"))
op("F1-drop-kwargs", "C09", "F1", "__init__.py", ("        parser = OmniParser(grammar=grammar, decoder=decoder, **kwargs)", "        parser = OmniParser(grammar=grammar, decoder=decoder)"))

# ---------------------------------------------------------------- encoder / languages
op("S1-case-sensitive-keyword", "C01", "S1", "encoder.py", ("        return s.casefold() in (k.casefold() for k in keywords)", "        return s in keywords"))
op("S1-empty-string", "C17", "S1", "encoder.py", ("        if len(s) == 0 or any(c in self.grammar.whitespace for c in s):", "        if any(c in self.grammar.whitespace for c in s):"))
op("S1-odl-numeric-identifier", "C01", "S1", "encoder.py", ("        tok = Token(value, grammar=self.grammar, decoder=self.decoder)\n        return not tok.is_numeric()", "        return True"))
op("S1-omni-bool", "C02", "S1-OMNI", "encoder.py", ("            self.grammar.true_keyword,\n", ""))
op("G1-wrong-delegate", "C17", "G1", "token.py", ("            self.decoder.decode_non_decimal(self)\n            return True", "            self.decoder.decode_decimal(self)\n            return True"))
op("G2-token-whitespace", "C17", "G2", "token.py", ("        for char in self.grammar.whitespace:\n            if char in self:\n                return False\n\n        return True", "        return True"))
op("D1-bool-after-int", "C01", "D1", "encoder.py",
   ("        elif isinstance(value, bool):\n            if value:\n                return self.grammar.true_keyword\n            else:\n                return self.grammar.false_keyword\n        elif isinstance(value, self.numeric_types):\n            return str(value)\n",
    "        elif isinstance(value, self.numeric_types):\n            return str(value)\n        elif isinstance(value, bool):\n            if value:\n                return self.grammar.true_keyword\n            else:\n                return self.grammar.false_keyword\n"))
op("D1-date-before-datetime", "C01", "D1", "encoder.py",
   ("        if isinstance(value, datetime.datetime):\n            return self.encode_datetime(value)\n        elif isinstance(value, datetime.date):\n            return self.encode_date(value)",
    "        if isinstance(value, datetime.date):\n            return self.encode_date(value)\n        elif isinstance(value, datetime.datetime):\n            return self.encode_datetime(value)"))
op("W1-break-long-words", "C01", "W1", "encoder.py", ("                break_long_words=False,\n", "                break_long_words=True,\n"))
op("DELIM-unconditional", "C12", "DELIM", "encoder.py", ("        if self.end_delimiter:\n            end_line += self.grammar.delimiters[0]", "        end_line += self.grammar.delimiters[0]"))
op("CFG-pds-newline", "C12", "CFG", "encoder.py", ("            end_delimiter=False,\n            newline=\"\\r\\n\",\n            group_class=group_class,\n            object_class=object_class\n        )\n\n        self.convert_group_to_object", "            end_delimiter=False,\n            newline=\"\\n\",\n            group_class=group_class,\n            object_class=object_class\n        )\n\n        self.convert_group_to_object"))
op("K1-key-length", "C12", "K1", "encoder.py", ("        if len(key) > 30:", "        if len(key) > 300:"))
op("R1-drop-seconds", "C14", "R1", "encoder.py", ("        elif value.second:\n            s += f\":{value:%S}\"\n\n        return s", "        return s"))
op("R3-unpadded", "C14", "R3", "encoder.py", ("{ms:03d}", "{ms}"))
op("R2-sign", "C14", "R2", "encoder.py", ("            if offset < datetime.timedelta():\n                # str() of a negative timedelta is '-1 day, 19:00:00'\n                sign = \"-\"\n                offset = -offset\n", ""))
op("H1-float", "C18", "H1", "decoder.py", ("                return self.real_cls(str(value))", "                return float(str(value))"))
op("H2-isinstance-float", "C18", "H2", "parser.py", ("isinstance(value, (int, float, self.decoder.real_cls))", "isinstance(value, (int, float))"))
op("V1-new-loads-class", "C19", "V1", "new.py", ("            group_class=PVLGroupNew,\n            object_class=PVLObjectNew,\n            **kwargs\n        )\n    elif not isinstance(parser, PVLParser):", "            object_class=PVLObjectNew,\n            **kwargs\n        )\n    elif not isinstance(parser, PVLParser):"))
op("TB9-format-encoder", "C20", "TB9", "pvl_translate.py", ("ODL=PVLWriter(ODLEncoder())", "ODL=PVLWriter(PDSLabelEncoder())"))
op("L1-loads-flag", "C20", "L1", "pvl_validate.py", ("            logging.error(f\"{dialect} encode error {filename} {err}\")\n            encodes = False", "            logging.error(f\"{dialect} encode error {filename} {err}\")\n            loads = False"))

# ---------------------------------------------------------------- rules added after round 3
op("PAIR-wrong-row", "C05", "PAIR", "parser.py",
   ("            != self.grammar.aggregation_keywords[truecase_begin].casefold()\n", "            != truecase_begin.casefold()\n"))
op("PAIR-name-inverted", "C05", "PAIR", "parser.py",
   ("        t = next(tokens)\n        if t != block_name:\n", "        t = next(tokens)\n        if t == block_name:\n"))
op("PAIR-name-dropped", "C03", "PAIR", "parser.py",
   ("        t = next(tokens)\n        if t != block_name:\n", "        t = next(tokens)\n        if False:\n"))
op("TOKEN-INIT-decoder-wins", "C04", "TOKEN-INIT", "token.py",
   ("        if grammar is None:\n            if decoder is not None:\n", "        if grammar is None or decoder is not None:\n            if decoder is not None:\n"))
op("WSC-LANG-any-closer", "C05", "WSC-LANG", "token.py",
   ("            if self.startswith(pair[0]) and self.endswith(pair[1]):\n                return True\n        return False\n\n    def is_quote",
    "            if self.startswith(pair[0]):\n                return True\n        return False\n\n    def is_quote"))
op("HOOK-TAIL-no-delimiter", "C08", "HOOK-TAIL", "parser.py",
   ("                        value = self.parse_value(tokens)\n                        self.parse_statement_delimiter(tokens)\n",
    "                        value = self.parse_value(tokens)\n"))
op("F3-seek-zero", "C09", "F3", "__init__.py",
   ("                path.seek(position)", "                path.seek(0)"))
op("P3-cached-view", "C11", "P3", "collections.py",
   ("    def items(self):\n        return ItemsView(self)\n", "    def items(self):\n        self._view = ItemsView(self)\n        return self._view\n"))
op("H3-quantityerror-valueerror", "C18", "H3", "exceptions.py",
   ("class QuantityError(Exception):", "class QuantityError(ValueError):"))
op("AGG-swapped", "C03", "AGG", "parser.py",
   ("            if begin_fold == gk.casefold():\n                return self.grpcls()\n", "            if begin_fold == gk.casefold():\n                return self.objcls()\n"))
op("PDS-return-before-zone-test", "C14", "PDS", "encoder.py",
   ("        elif value.second:\n            s += f\":{value:%S}\"\n\n        if (\n            value.tzinfo is None or",
    "        elif value.second:\n            s += f\":{value:%S}\"\n\n        if not self.time_trailing_z:\n            return s\n\n        if (\n            value.tzinfo is None or"))
op("L1-results-hoisted", "C20", "L1", "pvl_validate.py",
   ("    results_list = list()\n    for f in args.file:\n        pvl_text = pvl.get_text_from(f)\n\n        results = dict()\n",
    "    results_list = list()\n    results = dict()\n    for f in args.file:\n        pvl_text = pvl.get_text_from(f)\n"))
op("LEX1-written-exponent", "C01", "LEX1", "lexer.py",
   ("char.lower() == \"e\"", "char == \"e\""))
op("WSC-LANG-iswsc-drops-comment", "C04", "WSC-LANG", "token.py",
   ("        if self.is_comment():\n            return True\n\n        if self.is_space():", "        if self.is_space():"))
op("KW-EXCL-pref-keywords", "C08", "KW-EXCL", "decoder.py",
   ("        agg_keywords = self.grammar.aggregation_keywords.items()\n",
    "        agg_keywords = (self.grammar.group_pref_keywords, self.grammar.object_pref_keywords)\n"))
op("DASH-spacing-only", "C03", "DASH", "decoder.py",
   ("        nodash = re.sub(fr\"-[{fe}][{ws}]*\", \"\", s)", "        nodash = re.sub(fr\"-[{fe}][ \\t]*\", \"\", s)"))
op("P4-validated-lineno", "C11", "P4", "parser.py",
   ("        self.lineno = lineno\n        return self", "        self.lineno = int(lineno)\n        return self"))
op("V4-iterate-module", "C19", "V4", "encoder.py",
   ("                    for k, v in module.items():\n                        if isinstance(v, self.grpcls):\n                            module[k] = self.objcls(v)",
    "                    for k, v in module:\n                        if isinstance(v, self.grpcls):\n                            module[k] = self.objcls(v)"))
op("L1-verdict-in-else", "C20", "L1", "pvl_validate.py",
   ("            logging.error(f\"End {dialect} load error {filename}\")\n        loads = False\n",
    "            logging.error(f\"End {dialect} load error {filename}\")\n            loads = False\n"))
op("I1-range-off-by-one-C09", "C09", "I1", "grammar.py",
   ("            (14 <= o <= 31)\n", "            (14 <= o <= 30)\n"))
op("W1-flags-textwrapper", "C02", "W1", "encoder.py",
   ("                break_long_words=False,\n                break_on_hyphens=False,\n", "                break_long_words=False,\n"))
