"""Structural rules on pvl/encoder.py (C12, C13, C14 writer side, C01 D1/W1)."""
import ast

from .core import Finding, AnalysisError, norm
from . import effects

ENC_BASE = "PVLEncoder"


def encoder_classes(repo):
    return repo.subclasses(ENC_BASE)


def derived_from_params(fn):
    """Names bound (transitively) from parameters by iteration, .items(), unpacking, plain assignment."""
    params = {a.arg for a in fn.args.args[1:]} | {a.arg for a in fn.args.kwonlyargs}
    derived = set(params)
    changed = True
    while changed:
        changed = False
        for n in ast.walk(fn):
            src_names = None
            targets = []
            if isinstance(n, ast.For):
                src_names = {x.id for x in ast.walk(n.iter) if isinstance(x, ast.Name)}
                targets = [n.target]
            elif isinstance(n, ast.Assign):
                v = n.value
                # a constructor call / conversion creates a new object: not derived (self.objcls(value))
                if isinstance(v, ast.Call) and not (isinstance(v.func, ast.Attribute) and v.func.attr in ("items", "keys", "values", "get")):
                    continue
                src_names = {x.id for x in ast.walk(v) if isinstance(x, ast.Name)}
                targets = n.targets
            if src_names and (src_names & derived):
                for t in targets:
                    for x in ast.walk(t):
                        if isinstance(x, ast.Name) and x.id not in derived:
                            derived.add(x.id)
                            changed = True
    return params, derived


def rule_a1(repo, res):
    """A1: no encoder method mutates an object derived from its parameters.
    The only permitted mutation is the documented PDS3 replacement of one
    GROUP item by its OBJECT conversion, `module[k] = self.objcls(v)`; whether
    that assignment has no other effect is decided from the container's
    __setitem__ (it also deletes later items with the same key)."""
    n_methods = 0
    sites = []
    for c in encoder_classes(repo):
        for m, fn in repo.classes[c].methods.items():
            if m == "__init__" or m == "add_quantity_cls":
                continue
            n_methods += 1
            params, derived = derived_from_params(fn)
            bad = []
            # local rebinding of a parameter to a fresh object (value = self.objcls(value)) is not a mutation
            for n in ast.walk(fn):
                if isinstance(n, (ast.Assign, ast.AugAssign)):
                    tg = n.targets if isinstance(n, ast.Assign) else [n.target]
                    for t in tg:
                        if isinstance(t, ast.Subscript) and isinstance(t.value, ast.Name) and t.value.id in derived:
                            bad.append((n, "item assignment"))
                        if isinstance(t, ast.Attribute) and isinstance(t.value, ast.Name) and t.value.id in derived:
                            bad.append((n, "attribute assignment"))
                if isinstance(n, ast.Delete):
                    for t in n.targets:
                        if isinstance(t, (ast.Subscript, ast.Attribute)) and isinstance(t.value, ast.Name) and t.value.id in derived:
                            bad.append((n, "deletion"))
                if isinstance(n, ast.Call) and isinstance(n.func, ast.Attribute) and n.func.attr in effects.MUTATORS \
                        and isinstance(n.func.value, ast.Name) and n.func.value.id in derived:
                    bad.append((n, f"{n.func.attr}()"))
            for (n, what) in bad:
                sites.append((c, m, fn, n, what))
            res.oblige("A1", f"{c}.{m} does not mutate objects derived from its arguments", ok=not bad, nontrivial=bool(derived))
    res.floor("encoder methods scanned", n_methods, 30)
    permitted = []
    for (c, m, fn, n, what) in sites:
        is_conv = (isinstance(n, ast.Assign) and isinstance(n.targets[0], ast.Subscript)
                   and isinstance(n.value, ast.Call) and norm(n.value.func) == "self.objcls"
                   and c in repo.subclasses("PDSLabelEncoder") and m == "encode")
        if is_conv:
            permitted.append((c, m, n))
        else:
            res.add(Finding("A1", f"{c}.{m}", norm(n, 80),
                            f"{c}.{m} changes its argument in place (`{norm(n, 80)}`, {what}): dumping alters the "
                            "caller's module", where=f"pvl/encoder.py:{n.lineno}"))
    # the permitted conversion goes through OrderedMultiDict.__setitem__: effect summary of that method
    if permitted:
        from . import multidict
        items = multidict.item_attr(repo)
        si = repo.method(multidict.CONTAINER, "__setitem__")
        drops_later = False
        for n in ast.walk(si):
            # self.__items[index + 1:] = <list filtered by key>
            if isinstance(n, ast.Assign) and isinstance(n.targets[0], ast.Subscript) and isinstance(n.targets[0].slice, ast.Slice) \
                    and isinstance(n.targets[0].value, ast.Attribute) and n.targets[0].value.attr == items:
                drops_later = True
            if isinstance(n, ast.Assign) and isinstance(n.targets[0], ast.Attribute) and n.targets[0].attr == items \
                    and isinstance(n.value, ast.ListComp):
                drops_later = True
        for (c, m, n) in permitted:
            res.oblige("A1", f"{c}.{m} `{norm(n)}`: in-place GROUP->OBJECT replacement changes that one item only", ok=not drops_later)
            if drops_later:
                res.add(Finding("A1", f"{c}.{m}", norm(n),
                                f"the documented in-place GROUP->OBJECT conversion `{norm(n)}` goes through "
                                "OrderedMultiDict.__setitem__, whose effect is 'replace the first item named k and delete "
                                "every later item named k': when the caller's module holds several items with that name "
                                "the others are removed from it", where=f"pvl/encoder.py:{n.lineno}"))


# ------------------------------------------------------------------ D1 dispatch
SUBCLASS_OF = {"bool": {"int"}, "datetime": {"date"}, "datetime.datetime": {"datetime.date", "date"},
               "EmptyValueAtLine": {"str"}, "frozenset": set(), "PVLGroup": {"abc.Mapping"}}


def isinstance_chain(fn, var):
    """Top-level if/elif chain of *fn* on isinstance(var, T) / `var is None`: list of (type names, branch body)."""
    chain = []
    node = None
    for s in fn.body:
        if isinstance(s, ast.If):
            node = s
            break
    while node is not None:
        t = node.test
        names = None
        if isinstance(t, ast.Call) and isinstance(t.func, ast.Name) and t.func.id == "isinstance" and len(t.args) == 2 \
                and isinstance(t.args[0], ast.Name) and t.args[0].id == var:
            ty = t.args[1]
            names = [norm(x) for x in (ty.elts if isinstance(ty, ast.Tuple) else [ty])]
        elif isinstance(t, ast.Compare) and isinstance(t.ops[0], ast.Is) and norm(t.left) == var and norm(t.comparators[0]) == "None":
            names = ["None"]
        chain.append((names, node.body, node))
        if len(node.orelse) == 1 and isinstance(node.orelse[0], ast.If):
            node = node.orelse[0]
        else:
            chain.append((["<else>"], node.orelse, node))
            node = None
    return chain


def numeric_types(repo, cname):
    """Names in self.numeric_types as assigned in the constructor chain."""
    for c in repo.mro(cname):
        if c.startswith("ext:"):
            continue
        init = repo.classes[c].methods.get("__init__")
        if init is None:
            continue
        for n in ast.walk(init):
            if isinstance(n, ast.Assign) and norm(n.targets[0]) == "self.numeric_types" and isinstance(n.value, ast.Tuple):
                return [norm(x) for x in n.value.elts]
    return None


def rule_d1(repo, res):
    """D1: in the isinstance chains of encode_simple_value / encode_datetype a subclass is tested before its
    superclass when their targets differ (bool before the numeric types, datetime before date); every type the
    loader can construct has a branch; numbers are rendered with str(value)."""
    for enc in encoder_classes(repo):
        c, fn = repo.resolve_method(enc, "encode_simple_value")
        if fn is None:
            raise AnalysisError(f"anchor vanished: {enc}.encode_simple_value")
        var = fn.args.args[1].arg
        chain = isinstance_chain(fn, var)
        nt = numeric_types(repo, enc) or []
        pos = {}
        for i, (names, body, node) in enumerate(chain):
            for nme in names or []:
                expanded = nt if nme == "self.numeric_types" else [nme]
                for x in expanded:
                    x = x.replace("datetime.", "") if x.startswith("datetime.") else x
                    pos.setdefault(x, i)
        need = ["None", "set", "frozenset", "list", "datetime", "date", "time", "bool", "int", "float", "str"]
        for t in need:
            ok = t in pos
            res.oblige("D1", f"{enc}.encode_simple_value ({c}) has a branch for {t}", ok=ok)
            if not ok:
                res.add(Finding("D1", f"{c}.encode_simple_value", f"branch for {t}",
                                f"{c}.encode_simple_value has no branch for {t}, a type the loaders produce: dumping a "
                                "loaded module raises TypeError", where=f"pvl/encoder.py:{fn.lineno}"))
        for sub, sup in (("bool", "int"), ("bool", "float")):
            if sub in pos and sup in pos:
                ok = pos[sub] < pos[sup]
                res.oblige("D1", f"{enc}.encode_simple_value ({c}): {sub} is tested before {sup}", ok=ok)
                if not ok:
                    res.add(Finding("D1", f"{c}.encode_simple_value", f"{sub} before {sup}",
                                    f"{c}.encode_simple_value tests {sup} (via the numeric types) before {sub}: since "
                                    f"bool is a subclass of int, True/False are written as 1/0... as numbers and reload "
                                    "as integers", where=f"pvl/encoder.py:{fn.lineno}"))
        # numbers are rendered with str(value)
        for names, body, node in chain:
            if names and "self.numeric_types" in names:
                rets = [r for r in body if isinstance(r, ast.Return)]
                ok = bool(rets) and all(norm(r.value) in (f"str({var})", f"repr({var})") for r in rets)
                res.oblige("D1", f"{enc}.encode_simple_value ({c}): numbers are written with str(value)", ok=ok)
                if not ok:
                    res.add(Finding("D1", f"{c}.encode_simple_value", "numeric rendering",
                                    f"{c}.encode_simple_value no longer writes numbers with str(value) "
                                    f"(`{norm(rets[0], 50) if rets else 'no return'}`): digits of reals or big integers can be lost",
                                    where=f"pvl/encoder.py:{node.lineno}"))
        c2, fn2 = repo.resolve_method(enc, "encode_datetype")
        if fn2 is None:
            raise AnalysisError(f"anchor vanished: {enc}.encode_datetype")
        var2 = fn2.args.args[1].arg
        ch2 = isinstance_chain(fn2, var2)
        order = []
        targets = {}
        for names, body, node in ch2:
            for nme in names or []:
                x = nme.replace("datetime.", "")
                order.append(x)
                calls = [norm(r.value.func) for r in body if isinstance(r, ast.Return) and isinstance(r.value, ast.Call)]
                targets[x] = calls[0] if calls else None
        ok = "datetime" in order and "date" in order and order.index("datetime") < order.index("date")
        res.oblige("D1", f"{enc}.encode_datetype ({c2}): datetime is tested before date", ok=ok)
        if not ok:
            res.add(Finding("D1", f"{c2}.encode_datetype", "datetime before date",
                            f"{c2}.encode_datetype tests datetime.date before datetime.datetime (a subclass): a date-time "
                            "is written as a bare date and loses its time", where=f"pvl/encoder.py:{fn2.lineno}"))
        want = {"datetime": "self.encode_datetime", "date": "self.encode_date", "time": "self.encode_time"}
        for t, callee in want.items():
            ok = targets.get(t) == callee
            res.oblige("D1", f"{enc}.encode_datetype ({c2}): {t} -> {callee}", ok=ok)
            if not ok:
                res.add(Finding("D1", f"{c2}.encode_datetype", f"{t} target",
                                f"{c2}.encode_datetype sends {t} values to {targets.get(t)} instead of {callee}",
                                where=f"pvl/encoder.py:{fn2.lineno}"))
        # encode_datetime = date 'T' time
        c3, fn3 = repo.resolve_method(enc, "encode_datetime")
        rets = [r for r in ast.walk(fn3) if isinstance(r, ast.Return)]
        src = " ".join(norm(r.value) for r in rets if r.value is not None)
        calls = {norm(n.func) for n in ast.walk(fn3) if isinstance(n, ast.Call)}
        ok = {"self.encode_date", "self.encode_time"} <= calls and "'T'" in src
        res.oblige("D1", f"{enc}.encode_datetime ({c3}) = encode_date + 'T' + encode_time", ok=ok)
        if not ok:
            res.add(Finding("D1", f"{c3}.encode_datetime", "date 'T' time",
                            f"{c3}.encode_datetime is no longer encode_date(value) + 'T' + encode_time(value)",
                            where=f"pvl/encoder.py:{fn3.lineno}"))
    # encode_value: quantity first, falling back to the simple value on ValueError
    for enc in encoder_classes(repo):
        c, fn = repo.resolve_method(enc, "encode_value")
        base_c, base_fn = repo.resolve_method("PVLEncoder", "encode_value")
        t = [n for n in base_fn.body if isinstance(n, ast.Try)]
        ok = len(t) == 1 and "self.encode_quantity" in norm(t[0].body[0]) and any(
            h.type is not None and norm(h.type) == "ValueError" and "self.encode_simple_value" in norm(h.body[0]) for h in t[0].handlers)
    res.oblige("D1", "PVLEncoder.encode_value: encode_quantity, falling back to encode_simple_value on ValueError", ok=ok)
    if not ok:
        res.add(Finding("D1", "PVLEncoder.encode_value", "quantity then simple value",
                        "PVLEncoder.encode_value no longer tries encode_quantity and falls back to encode_simple_value",
                        where=f"pvl/encoder.py:{base_fn.lineno}"))


# ------------------------------------------------------------------ W1 wrapping
def decoder_folds_whitespace(repo, dcls):
    c, fn = repo.resolve_method(dcls, "decode_quoted_string")
    if fn is None:
        return False
    return any(isinstance(n, ast.Call) and norm(n.func) in ("re.sub", "re.subn") for n in ast.walk(fn))


def rule_w1(repo, res, which=("quoted", "symbol", "flags")):
    """W1: text in which white space is significant must not reach textwrap.wrap (taint: what encode_value returns
    may be or contain a quoted string; the only sanitiser is the startswith(quotes) branch, which removes
    IS_QUOTED only)."""
    from . import lang
    # the wrap call itself
    fmt_c, fmt = repo.resolve_method("PVLEncoder", "format")
    wraps = [n for n in ast.walk(fmt) if isinstance(n, ast.Call) and norm(n.func) in ("textwrap.wrap", "textwrap.fill")]
    if "flags" in which:
        res.floor("textwrap.wrap calls in format()", len(wraps), 1)
        for wcall in wraps:
            kw = {k.arg: k.value for k in wcall.keywords}
            for flag in ("break_long_words", "break_on_hyphens"):
                v = kw.get(flag)
                ok = isinstance(v, ast.Constant) and v.value is False
                res.oblige("W1", f"PVLEncoder.format: textwrap.wrap(..., {flag}=False)", ok=ok)
                if not ok:
                    res.add(Finding("W1", "PVLEncoder.format", f"{flag}=False",
                                    f"textwrap.wrap in format() is called without {flag}=False: a long token (string, "
                                    "number, date) is split across lines and reloads as two tokens",
                                    where=f"pvl/encoder.py:{wcall.lineno}"))
            v = kw.get("replace_whitespace")
            ok = isinstance(v, ast.Constant) and v.value is False
            res.oblige("W1", "PVLEncoder.format: textwrap.wrap(..., replace_whitespace=False)", ok=ok)
            if not ok:
                res.add(Finding("W1", "PVLEncoder.format", "replace_whitespace=False",
                                "textwrap.wrap in format() may replace white space characters inside the text it wraps",
                                where=f"pvl/encoder.py:{wcall.lineno}"))
    for enc in encoder_classes(repo):
        gcls, dcls = lang.encoder_pairing(repo, enc)
        c, fn = repo.resolve_method(enc, "encode_assignment")
        # does the argument of a self.format() call include the encoded value?
        tainted_calls = []
        for call in [n for n in ast.walk(fn) if isinstance(n, ast.Call) and norm(n.func) == "self.format"]:
            arg = call.args[0] if call.args else None
            if not isinstance(arg, ast.Name):
                continue
            # statements before the call (in source order) that add the encoded value to that variable
            adds = []
            for n in ast.walk(fn):
                if isinstance(n, ast.AugAssign) and isinstance(n.target, ast.Name) and n.target.id == arg.id and \
                        n.lineno <= call.lineno and ("encode_value" in norm(n.value) or "enc_val" in norm(n.value)):
                    # same branch?  the call must be reachable after the add: same statement list or later
                    adds.append(n)
            reach = []
            for a in adds:
                pa, pc = getattr(a, "_parent", None), getattr(call, "_parent", None)
                # walk up from the call to find a list that also contains the add
                anc = call
                same = False
                while anc is not None and anc is not fn:
                    par = getattr(anc, "_parent", None)
                    for field in ("body", "orelse"):
                        lst = getattr(par, field, None)
                        if isinstance(lst, list) and anc in lst and a in lst and lst.index(a) < lst.index(anc):
                            same = True
                    anc = par
                if same:
                    reach.append(a)
            if reach:
                # is the call inside the not-startswith(quotes) branch?
                sanitised = False
                anc = call
                while anc is not None and anc is not fn:
                    par = getattr(anc, "_parent", None)
                    if isinstance(par, ast.If) and "startswith(self.grammar.quotes)" in norm(par.test) and anc in par.orelse:
                        sanitised = True
                    anc = par
                tainted_calls.append((call, sanitised))
        folds = decoder_folds_whitespace(repo, dcls)
        for call, sanitised in tainted_calls:
            kinds = {"CONTAINS_QUOTED"} | (set() if sanitised else {"IS_QUOTED"})
            if "quoted" in which:
                ok = folds
                res.oblige("W1", f"{enc}.encode_assignment ({c}): quoted text ({'/'.join(sorted(kinds))}) reaching "
                                 f"textwrap is harmless because {dcls}.decode_quoted_string folds white space", ok=ok)
                if not ok:
                    res.add(Finding("W1", f"{c}.encode_assignment", f"{enc}: quoted text reaches textwrap",
                                    f"for {enc}, encode_assignment passes the encoded value to format()/textwrap.wrap "
                                    f"({'the branch for values that start with a quote is exempt, but ' if sanitised else ''}"
                                    "a set or sequence of quoted strings is not): a line break and indentation can be "
                                    f"inserted inside a quoted string, and {dcls}.decode_quoted_string keeps white space "
                                    "verbatim, so the string is altered on reload", where=f"pvl/encoder.py:{call.lineno}"))
            if "symbol" in which and repo.resolve_method(enc, "is_symbol")[1] is not None:
                ok = "IS_QUOTED" not in kinds
                res.oblige("W1-SYMBOL", f"{enc}.encode_assignment ({c}): a single-quoted symbol string cannot reach textwrap", ok=ok)
                if not ok:
                    res.add(Finding("W1-SYMBOL", f"{c}.encode_assignment", f"{enc}: symbol string reaches textwrap",
                                    f"for {enc}, a value that is itself a quoted symbol string goes through "
                                    "format()/textwrap.wrap; is_symbol() admits spaces, so at sufficient nesting the "
                                    "symbol is split over two lines, which ODL forbids for symbol strings",
                                    where=f"pvl/encoder.py:{call.lineno}"))
        res.floor(f"{enc}: format() calls that receive the encoded value", len(tainted_calls), 1)
