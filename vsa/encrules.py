"""Structural rules on pvl/encoder.py (C12, C13, C14 writer side, C01 D1/W1)."""
import ast

from .core import Finding, AnalysisError, norm
from . import effects

ENC_BASE = "PVLEncoder"


def encoder_classes(repo):
    return repo.subclasses(ENC_BASE)


def derived_from_params(fn):
    """Names bound (transitively) from parameters by iteration, .items(), unpacking, plain assignment."""
    params = {a.arg for a in fn.args.args[1:]} | {a.arg for a in fn.args.kwonlyargs}
    derived = set(params)
    changed = True
    while changed:
        changed = False
        for n in ast.walk(fn):
            src_names = None
            targets = []
            if isinstance(n, ast.For):
                src_names = {x.id for x in ast.walk(n.iter) if isinstance(x, ast.Name)}
                targets = [n.target]
            elif isinstance(n, ast.Assign):
                v = n.value
                # a constructor call / conversion creates a new object: not derived (self.objcls(value))
                if isinstance(v, ast.Call) and not (isinstance(v.func, ast.Attribute) and v.func.attr in ("items", "keys", "values", "get")):
                    continue
                src_names = {x.id for x in ast.walk(v) if isinstance(x, ast.Name)}
                targets = n.targets
            if src_names and (src_names & derived):
                for t in targets:
                    for x in ast.walk(t):
                        if isinstance(x, ast.Name) and x.id not in derived:
                            derived.add(x.id)
                            changed = True
    return params, derived


def rule_a1(repo, res):
    """A1: no encoder method mutates an object derived from its parameters.
    The only permitted mutation is the documented PDS3 replacement of one
    GROUP item by its OBJECT conversion, `module[k] = self.objcls(v)`; whether
    that assignment has no other effect is decided from the container's
    __setitem__ (it also deletes later items with the same key)."""
    n_methods = 0
    sites = []
    for c in encoder_classes(repo):
        for m, fn in repo.classes[c].methods.items():
            if m == "__init__" or m == "add_quantity_cls":
                continue
            n_methods += 1
            params, derived = derived_from_params(fn)
            bad = []
            # local rebinding of a parameter to a fresh object (value = self.objcls(value)) is not a mutation
            for n in ast.walk(fn):
                if isinstance(n, (ast.Assign, ast.AugAssign)):
                    tg = n.targets if isinstance(n, ast.Assign) else [n.target]
                    for t in tg:
                        if isinstance(t, ast.Subscript) and isinstance(t.value, ast.Name) and t.value.id in derived:
                            bad.append((n, "item assignment"))
                        if isinstance(t, ast.Attribute) and isinstance(t.value, ast.Name) and t.value.id in derived:
                            bad.append((n, "attribute assignment"))
                if isinstance(n, ast.Delete):
                    for t in n.targets:
                        if isinstance(t, (ast.Subscript, ast.Attribute)) and isinstance(t.value, ast.Name) and t.value.id in derived:
                            bad.append((n, "deletion"))
                if isinstance(n, ast.Call) and isinstance(n.func, ast.Attribute) and n.func.attr in effects.MUTATORS \
                        and isinstance(n.func.value, ast.Name) and n.func.value.id in derived:
                    bad.append((n, f"{n.func.attr}()"))
            for (n, what) in bad:
                sites.append((c, m, fn, n, what))
            res.oblige("A1", f"{c}.{m} does not mutate objects derived from its arguments", ok=not bad, nontrivial=bool(derived))
    res.floor("encoder methods scanned", n_methods, 30)
    permitted = []
    for (c, m, fn, n, what) in sites:
        is_conv = (isinstance(n, ast.Assign) and isinstance(n.targets[0], ast.Subscript)
                   and isinstance(n.value, ast.Call) and norm(n.value.func) == "self.objcls"
                   and c in repo.subclasses("PDSLabelEncoder") and m == "encode")
        if is_conv:
            permitted.append((c, m, n))
        else:
            res.add(Finding("A1", f"{c}.{m}", norm(n, 80),
                            f"{c}.{m} changes its argument in place (`{norm(n, 80)}`, {what}): dumping alters the "
                            "caller's module", where=f"pvl/encoder.py:{n.lineno}"))
    # the permitted conversion goes through OrderedMultiDict.__setitem__: effect summary of that method
    if permitted:
        from . import multidict
        items = multidict.item_attr(repo)
        si = repo.method(multidict.CONTAINER, "__setitem__")
        drops_later = False
        for n in ast.walk(si):
            # self.__items[index + 1:] = <list filtered by key>
            if isinstance(n, ast.Assign) and isinstance(n.targets[0], ast.Subscript) and isinstance(n.targets[0].slice, ast.Slice) \
                    and isinstance(n.targets[0].value, ast.Attribute) and n.targets[0].value.attr == items:
                drops_later = True
            if isinstance(n, ast.Assign) and isinstance(n.targets[0], ast.Attribute) and n.targets[0].attr == items \
                    and isinstance(n.value, ast.ListComp):
                drops_later = True
        for (c, m, n) in permitted:
            res.oblige("A1", f"{c}.{m} `{norm(n)}`: in-place GROUP->OBJECT replacement changes that one item only", ok=not drops_later)
            if drops_later:
                res.add(Finding("A1", f"{c}.{m}", norm(n),
                                f"the documented in-place GROUP->OBJECT conversion `{norm(n)}` goes through "
                                "OrderedMultiDict.__setitem__, whose effect is 'replace the first item named k and delete "
                                "every later item named k': when the caller's module holds several items with that name "
                                "the others are removed from it", where=f"pvl/encoder.py:{n.lineno}"))
