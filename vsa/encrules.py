"""Structural rules on pvl/encoder.py (C12, C13, C14 writer side, C01 D1/W1)."""
import ast

from .core import Finding, AnalysisError, norm
from . import effects

ENC_BASE = "PVLEncoder"


def encoder_classes(repo):
    return repo.subclasses(ENC_BASE)


def derived_from_params(fn):
    """Names bound (transitively) from parameters by iteration, .items(), unpacking, plain assignment."""
    params = {a.arg for a in fn.args.args[1:]} | {a.arg for a in fn.args.kwonlyargs}
    derived = set(params)
    changed = True
    while changed:
        changed = False
        for n in ast.walk(fn):
            src_names = None
            targets = []
            if isinstance(n, ast.For):
                src_names = {x.id for x in ast.walk(n.iter) if isinstance(x, ast.Name)}
                targets = [n.target]
            elif isinstance(n, ast.Assign):
                v = n.value
                # only aliases and views of a derived object are derived: x = p, x = p[k], x = p.attr, x = p.items();
                # a constructor call, a display ([...], {...}) or a comprehension builds a new object
                base = v
                while isinstance(base, (ast.Subscript, ast.Attribute)):
                    base = base.value
                if isinstance(base, ast.Call) and isinstance(base.func, ast.Attribute) and base.func.attr in ("items", "keys", "values", "get") \
                        and isinstance(base.func.value, ast.Name):
                    base = base.func.value
                if not isinstance(base, ast.Name):
                    continue
                src_names = {base.id}
                targets = n.targets
            if src_names and (src_names & derived):
                for t in targets:
                    for x in ast.walk(t):
                        if isinstance(x, ast.Name) and x.id not in derived:
                            derived.add(x.id)
                            changed = True
    return params, derived


def rule_a1(repo, res):
    """A1: no encoder method mutates an object derived from its parameters.
    The only permitted mutation is the documented PDS3 replacement of one
    GROUP item by its OBJECT conversion, `module[k] = self.objcls(v)`; whether
    that assignment has no other effect is decided from the container's
    __setitem__ (it also deletes later items with the same key)."""
    n_methods = 0
    sites = []
    for c in encoder_classes(repo):
        for m, fn in repo.classes[c].methods.items():
            if m == "__init__" or m == "add_quantity_cls":
                continue
            n_methods += 1
            params, derived = derived_from_params(fn)
            bad = []
            # local rebinding of a parameter to a fresh object (value = self.objcls(value)) is not a mutation
            for n in ast.walk(fn):
                if isinstance(n, (ast.Assign, ast.AugAssign)):
                    tg = n.targets if isinstance(n, ast.Assign) else [n.target]
                    for t in tg:
                        if isinstance(t, ast.Subscript) and isinstance(t.value, ast.Name) and t.value.id in derived:
                            bad.append((n, "item assignment"))
                        if isinstance(t, ast.Attribute) and isinstance(t.value, ast.Name) and t.value.id in derived:
                            bad.append((n, "attribute assignment"))
                if isinstance(n, ast.Delete):
                    for t in n.targets:
                        if isinstance(t, (ast.Subscript, ast.Attribute)) and isinstance(t.value, ast.Name) and t.value.id in derived:
                            bad.append((n, "deletion"))
                if isinstance(n, ast.Call) and isinstance(n.func, ast.Attribute) and n.func.attr in effects.MUTATORS \
                        and isinstance(n.func.value, ast.Name) and n.func.value.id in derived:
                    bad.append((n, f"{n.func.attr}()"))
            for (n, what) in bad:
                sites.append((c, m, fn, n, what))
            res.oblige("A1", f"{c}.{m} does not mutate objects derived from its arguments", ok=not bad, nontrivial=bool(derived))
    res.floor("encoder methods scanned", n_methods, 30)
    # a private helper that receives a public method's own argument is read as part of that method: the mutation
    # is attributed to the entry point whose caller sees it (PDSLabelEncoder.encode -> self._helper(module, ...))
    def entry_of(c, m, fn, n):
        var = None
        for t in (n.targets if isinstance(n, ast.Assign) else []):
            if isinstance(t, ast.Subscript) and isinstance(t.value, ast.Name):
                var = t.value.id
        # climb through private helpers (any depth) as long as the changed object is the caller's own argument
        cur = {(m, var)}
        for _ in range(5):
            nxt, entries = set(), set()
            for (hm, hvar) in cur:
                hfn = None
                for c2 in encoder_classes(repo):
                    hfn = hfn or repo.classes[c2].methods.get(hm)
                hp = [a.arg for a in hfn.args.args[1:]] if hfn is not None else []
                if not hm.startswith("_") or hm.startswith("__") or hvar not in hp:
                    entries.add(hm)
                    continue
                callers = []
                for c2 in encoder_classes(repo):
                    for m2, fn2 in repo.classes[c2].methods.items():
                        for x in ast.walk(fn2):
                            if isinstance(x, ast.Call) and norm(x.func) == f"self.{hm}":
                                callers.append((c2, m2, fn2, x))
                if not callers:
                    return m
                for (c2, m2, fn2, x) in callers:
                    _, der2 = derived_from_params(fn2)
                    i = hp.index(hvar)
                    arg = x.args[i] if i < len(x.args) else next((k.value for k in x.keywords if k.arg == hvar), None)
                    if isinstance(arg, ast.Name) and arg.id in der2:
                        nxt.add((m2, arg.id))
                    else:
                        return m
            if not nxt:
                return entries.pop() if len(entries) == 1 else m
            cur = nxt | {(e, None) for e in entries}
        return m
    sites = [(c, entry_of(c, m, fn, n), fn, n, what) for (c, m, fn, n, what) in sites]
    permitted = []
    for (c, m, fn, n, what) in sites:
        is_conv = (isinstance(n, ast.Assign) and isinstance(n.targets[0], ast.Subscript)
                   and isinstance(n.value, ast.Call) and norm(n.value.func) == "self.objcls"
                   and c in repo.subclasses("PDSLabelEncoder") and m == "encode")
        if is_conv:
            permitted.append((c, m, n))
        else:
            res.add(Finding("A1", f"{c}.{m}", norm(n, 80),
                            f"{c}.{m} changes its argument in place (`{norm(n, 80)}`, {what}): dumping alters the "
                            "caller's module", where=f"pvl/encoder.py:{n.lineno}"))
    # the permitted conversion goes through OrderedMultiDict.__setitem__: effect summary of that method
    if permitted:
        from . import multidict
        items = multidict.item_attr(repo)
        si = repo.full(multidict.CONTAINER, "__setitem__")
        drops_later = False
        for n in ast.walk(si):
            # self.__items[index + 1:] = <list filtered by key>
            if isinstance(n, ast.Assign) and isinstance(n.targets[0], ast.Subscript) and isinstance(n.targets[0].slice, ast.Slice) \
                    and isinstance(n.targets[0].value, ast.Attribute) and n.targets[0].value.attr == items:
                drops_later = True
            if isinstance(n, ast.Assign) and isinstance(n.targets[0], ast.Attribute) and n.targets[0].attr == items \
                    and isinstance(n.value, ast.ListComp):
                drops_later = True
        for (c, m, n) in permitted:
            res.oblige("A1", f"{c}.{m} `{norm(n)}`: in-place GROUP->OBJECT replacement changes that one item only", ok=not drops_later)
            if drops_later:
                res.add(Finding("A1", f"{c}.{m}", "in-place GROUP->OBJECT conversion through __setitem__",
                                f"the documented in-place GROUP->OBJECT conversion `{norm(n)}` goes through "
                                "OrderedMultiDict.__setitem__, whose effect is 'replace the first item named k and delete "
                                "every later item named k': when the caller's module holds several items with that name "
                                "the others are removed from it", where=f"pvl/encoder.py:{n.lineno}"))


# ------------------------------------------------------------------ D1 dispatch
SUBCLASS_OF = {"bool": {"int"}, "datetime": {"date"}, "datetime.datetime": {"datetime.date", "date"},
               "EmptyValueAtLine": {"str"}, "frozenset": set(), "PVLGroup": {"abc.Mapping"}}


def isinstance_chain(fn, var, repo=None, module="encoder"):
    """The dispatch of *fn* on the type of *var*, in test order: list of (type names, branch body, node).  Reads an
    if/elif chain and equally a run of guard statements (`if isinstance(v, T): return ...` one after the other); a
    type tuple given by a module-level constant is looked up."""
    def type_names(t):
        if isinstance(t, ast.Call) and isinstance(t.func, ast.Name) and t.func.id == "isinstance" and len(t.args) == 2 \
                and isinstance(t.args[0], ast.Name) and t.args[0].id == var:
            ty = t.args[1]
            if isinstance(ty, ast.Name) and ty.id in local_tuples:
                ty = local_tuples[ty.id]
            if isinstance(ty, ast.Name) and repo is not None:
                mc = repo.module_constant(module, ty.id)
                if isinstance(mc, ast.Tuple):
                    ty = mc
            return [norm(x) for x in (ty.elts if isinstance(ty, ast.Tuple) else [ty])]
        if isinstance(t, ast.Compare) and isinstance(t.ops[0], ast.Is) and norm(t.left) == var and norm(t.comparators[0]) == "None":
            return ["None"]
        return None
    from .flow import _terminates
    chain = []
    local_tuples = {}
    body = [s_ for s_ in fn.body if not (isinstance(s_, ast.Expr) and isinstance(s_.value, ast.Constant))]
    i = 0
    while i < len(body):
        s_ = body[i]
        if not isinstance(s_, ast.If):
            i += 1
            # a named type tuple between two guards (date_types = (datetime.datetime, ...)) belongs to the dispatch
            if isinstance(s_, ast.Assign) and len(s_.targets) == 1 and isinstance(s_.targets[0], ast.Name) and s_.targets[0].id != var \
                    and isinstance(s_.value, (ast.Tuple, ast.Name, ast.Attribute)):
                if isinstance(s_.value, ast.Tuple):
                    local_tuples[s_.targets[0].id] = s_.value
                continue
            if chain:
                break
            continue
        node = s_
        closed = False
        while node is not None:
            chain.append((type_names(node.test), node.body, node))
            if len(node.orelse) == 1 and isinstance(node.orelse[0], ast.If):
                node = node.orelse[0]
            else:
                if node.orelse:
                    chain.append((["<else>"], node.orelse, node))
                    closed = True
                last = node
                node = None
        i += 1
        if closed:
            break
        # a guard (every arm leaves): the next statement continues the dispatch
        arms_leave = all(_terminates(b_) for (_n, b_, nd) in chain if nd is s_ or True) if chain else False
        if not _terminates(s_.body):
            break
    else:
        pass
    if chain and chain[-1][0] != ["<else>"] and i <= len(body):
        rest = body[i:] if i < len(body) else []
        if rest:
            chain.append((["<else>"], rest, rest[0]))
    return chain


def numeric_types(repo, cname):
    """Names in self.numeric_types as assigned in the constructor chain."""
    for c in repo.mro(cname):
        if c.startswith("ext:"):
            continue
        init = repo.classes[c].methods.get("__init__")
        if init is None:
            continue
        for n in ast.walk(init):
            if isinstance(n, ast.Assign) and norm(n.targets[0]) == "self.numeric_types" and isinstance(n.value, ast.Tuple):
                return [norm(x) for x in n.value.elts]
    return None


def rule_d1(repo, res):
    """D1: in the isinstance chains of encode_simple_value / encode_datetype a subclass is tested before its
    superclass when their targets differ (bool before the numeric types, datetime before date); every type the
    loader can construct has a branch; numbers are rendered with str(value)."""
    for enc in encoder_classes(repo):
        c, fn = repo.full_resolved(enc, "encode_simple_value")
        if fn is None:
            raise AnalysisError(f"anchor vanished: {enc}.encode_simple_value")
        var = fn.args.args[1].arg
        chain = isinstance_chain(fn, var, repo)
        nt = numeric_types(repo, enc) or []
        pos = {}
        for i, (names, body, node) in enumerate(chain):
            for nme in names or []:
                expanded = nt if nme == "self.numeric_types" else [nme]
                for x in expanded:
                    x = x.replace("datetime.", "") if x.startswith("datetime.") else x
                    pos.setdefault(x, i)
        need = ["None", "set", "frozenset", "list", "datetime", "date", "time", "bool", "int", "float", "str"]
        for t in need:
            ok = t in pos
            res.oblige("D1", f"{enc}.encode_simple_value ({c}) has a branch for {t}", ok=ok)
            if not ok:
                res.add(Finding("D1", f"{c}.encode_simple_value", f"branch for {t}",
                                f"{c}.encode_simple_value has no branch for {t}, a type the loaders produce: dumping a "
                                "loaded module raises TypeError", where=f"pvl/encoder.py:{fn.lineno}"))
        for sub, sup in (("bool", "int"), ("bool", "float")):
            if sub in pos and sup in pos:
                ok = pos[sub] < pos[sup]
                res.oblige("D1", f"{enc}.encode_simple_value ({c}): {sub} is tested before {sup}", ok=ok)
                if not ok:
                    res.add(Finding("D1", f"{c}.encode_simple_value", f"{sub} before {sup}",
                                    f"{c}.encode_simple_value tests {sup} (via the numeric types) before {sub}: since "
                                    f"bool is a subclass of int, True/False are written as 1/0... as numbers and reload "
                                    "as integers", where=f"pvl/encoder.py:{fn.lineno}"))
        # numbers are rendered with str(value)
        for names, body, node in chain:
            if names and "self.numeric_types" in names:
                rets = [r for r in body if isinstance(r, ast.Return)]
                ok = bool(rets) and all(norm(r.value) in (f"str({var})", f"repr({var})") for r in rets)
                res.oblige("D1", f"{enc}.encode_simple_value ({c}): numbers are written with str(value)", ok=ok)
                if not ok:
                    res.add(Finding("D1", f"{c}.encode_simple_value", "numeric rendering",
                                    f"{c}.encode_simple_value no longer writes numbers with str(value) "
                                    f"(`{norm(rets[0], 50) if rets else 'no return'}`): digits of reals or big integers can be lost",
                                    where=f"pvl/encoder.py:{node.lineno}"))
        c2, fn2 = repo.full_resolved(enc, "encode_datetype")
        if fn2 is None:
            raise AnalysisError(f"anchor vanished: {enc}.encode_datetype")
        var2 = fn2.args.args[1].arg
        ch2 = isinstance_chain(fn2, var2, repo)
        order = []
        targets = {}
        for names, body, node in ch2:
            for nme in names or []:
                x = nme.replace("datetime.", "")
                order.append(x)
                calls = [norm(r.value.func) for r in body if isinstance(r, ast.Return) and isinstance(r.value, ast.Call)]
                targets[x] = calls[0] if calls else None
        ok = "datetime" in order and "date" in order and order.index("datetime") < order.index("date")
        res.oblige("D1", f"{enc}.encode_datetype ({c2}): datetime is tested before date", ok=ok)
        if not ok:
            res.add(Finding("D1", f"{c2}.encode_datetype", "datetime before date",
                            f"{c2}.encode_datetype tests datetime.date before datetime.datetime (a subclass): a date-time "
                            "is written as a bare date and loses its time", where=f"pvl/encoder.py:{fn2.lineno}"))
        want = {"datetime": "self.encode_datetime", "date": "self.encode_date", "time": "self.encode_time"}
        for t, callee in want.items():
            ok = targets.get(t) == callee
            res.oblige("D1", f"{enc}.encode_datetype ({c2}): {t} -> {callee}", ok=ok)
            if not ok:
                res.add(Finding("D1", f"{c2}.encode_datetype", f"{t} target",
                                f"{c2}.encode_datetype sends {t} values to {targets.get(t)} instead of {callee}",
                                where=f"pvl/encoder.py:{fn2.lineno}"))
        # encode_datetime = date 'T' time
        c3, fn3 = repo.full_resolved(enc, "encode_datetime")
        rets = [r for r in ast.walk(fn3) if isinstance(r, ast.Return)]
        src = " ".join(norm(r.value) for r in rets if r.value is not None)
        calls = {norm(n.func) for n in ast.walk(fn3) if isinstance(n, ast.Call)}
        ok = {"self.encode_date", "self.encode_time"} <= calls and "'T'" in src
        res.oblige("D1", f"{enc}.encode_datetime ({c3}) = encode_date + 'T' + encode_time", ok=ok)
        if not ok:
            res.add(Finding("D1", f"{c3}.encode_datetime", "date 'T' time",
                            f"{c3}.encode_datetime is no longer encode_date(value) + 'T' + encode_time(value)",
                            where=f"pvl/encoder.py:{fn3.lineno}"))
    # encode_value: quantity first, falling back to the simple value on ValueError
    for enc in encoder_classes(repo):
        c, fn = repo.full_resolved(enc, "encode_value")
        base_c, base_fn = repo.full_resolved("PVLEncoder", "encode_value")
        t = [n for n in base_fn.body if isinstance(n, ast.Try)]
        ok = len(t) == 1 and "self.encode_quantity" in norm(t[0].body[0]) and any(
            h.type is not None and norm(h.type) == "ValueError" and "self.encode_simple_value" in norm(h.body[0]) for h in t[0].handlers)
    res.oblige("D1", "PVLEncoder.encode_value: encode_quantity, falling back to encode_simple_value on ValueError", ok=ok)
    if not ok:
        res.add(Finding("D1", "PVLEncoder.encode_value", "quantity then simple value",
                        "PVLEncoder.encode_value no longer tries encode_quantity and falls back to encode_simple_value",
                        where=f"pvl/encoder.py:{base_fn.lineno}"))


# ------------------------------------------------------------------ W1 wrapping
def decoder_folds_whitespace(repo, dcls):
    c, fn = repo.full_resolved(dcls, "decode_quoted_string")
    if fn is None:
        return False
    return any(isinstance(n, ast.Call) and norm(n.func) in ("re.sub", "re.subn") for n in ast.walk(fn))


def rule_w1(repo, res, which=("quoted", "symbol", "flags")):
    """W1: text in which white space is significant must not reach textwrap.wrap (taint: what encode_value returns
    may be or contain a quoted string; the only sanitiser is the startswith(quotes) branch, which removes
    IS_QUOTED only)."""
    from . import lang
    # the wrap call itself
    fmt_c, fmt = repo.full_resolved("PVLEncoder", "format")
    # textwrap.wrap(...) / textwrap.fill(...) or a textwrap.TextWrapper(...) object: the same keyword options (same defaults)
    WR = ("textwrap.wrap", "textwrap.fill", "textwrap.TextWrapper", "TextWrapper")
    wraps = [n for n in ast.walk(fmt) if isinstance(n, ast.Call) and norm(n.func) in WR]
    if not wraps:
        # a TextWrapper configured elsewhere in the class (class body or constructor) and used by format() as self.<attr>.wrap
        used = {n.func.value.attr for n in ast.walk(fmt) if isinstance(n, ast.Call) and isinstance(n.func, ast.Attribute)
                and n.func.attr in ("wrap", "fill") and isinstance(n.func.value, ast.Attribute) and norm(n.func.value.value) == "self"}
        for k in [x for x in repo.mro("PVLEncoder") if not x.startswith("ext:")]:
            ci_ = repo.classes[k]
            for name, val in ci_.aliases.items():
                if name in used and isinstance(val, ast.Call) and norm(val.func) in WR:
                    wraps.append(val)
            init_ = ci_.methods.get("__init__")
            if init_ is not None:
                for a_ in ast.walk(init_):
                    if isinstance(a_, ast.Assign) and isinstance(a_.value, ast.Call) and norm(a_.value.func) in WR \
                            and any(isinstance(t_, ast.Attribute) and t_.attr in used for t_ in a_.targets):
                        wraps.append(a_.value)
    if "flags" in which:
        res.floor("textwrap.wrap calls in format()", len(wraps), 1)
        for wcall in wraps:
            kw = {k.arg: k.value for k in wcall.keywords}
            for flag in ("break_long_words", "break_on_hyphens"):
                v = kw.get(flag)
                ok = isinstance(v, ast.Constant) and v.value is False
                res.oblige("W1", f"PVLEncoder.format: textwrap.wrap(..., {flag}=False)", ok=ok)
                if not ok:
                    res.add(Finding("W1", "PVLEncoder.format", f"{flag}=False",
                                    f"textwrap.wrap in format() is called without {flag}=False: a long token (string, "
                                    "number, date) is split across lines and reloads as two tokens",
                                    where=f"pvl/encoder.py:{wcall.lineno}"))
            v = kw.get("replace_whitespace")
            ok = isinstance(v, ast.Constant) and v.value is False
            res.oblige("W1", "PVLEncoder.format: textwrap.wrap(..., replace_whitespace=False)", ok=ok)
            if not ok:
                res.add(Finding("W1", "PVLEncoder.format", "replace_whitespace=False",
                                "textwrap.wrap in format() may replace white space characters inside the text it wraps",
                                where=f"pvl/encoder.py:{wcall.lineno}"))
    for enc in encoder_classes(repo):
        gcls, dcls = lang.encoder_pairing(repo, enc)
        c, fn = repo.full_resolved(enc, "encode_assignment")
        # does the text handed to a self.format() call include the encoded value?  (flow-sensitive taint walk; the
        # source is what self.encode_value returns; text derived from it by helpers or concatenation stays tainted)
        from . import flow
        hits = flow.sinks(fn, lambda e: isinstance(e, ast.Call) and norm(e.func) == "self.encode_value",
                          lambda call: norm(call.func) == "self.format")
        tainted_calls = []
        for call, conds, env in hits:
            # sanitised: the path holds the negation of <encoded value>.startswith(<every quote character>)
            sanitised = False
            for test, pol in conds:
                neg = not pol
                t = test
                while isinstance(t, ast.UnaryOp) and isinstance(t.op, ast.Not):
                    t, neg = t.operand, not neg
                if neg and isinstance(t, ast.Call) and isinstance(t.func, ast.Attribute) and t.func.attr == "startswith" \
                        and isinstance(t.func.value, ast.Name) and t.func.value.id in env \
                        and t.args and norm(t.args[0]) in ("self.grammar.quotes", "tuple(self.grammar.quotes)"):
                    sanitised = True
            tainted_calls.append((call, sanitised))
        folds = decoder_folds_whitespace(repo, dcls)
        for call, sanitised in tainted_calls:
            kinds = {"CONTAINS_QUOTED"} | (set() if sanitised else {"IS_QUOTED"})
            if "quoted" in which:
                ok = folds
                res.oblige("W1", f"{enc}.encode_assignment ({c}): quoted text ({'/'.join(sorted(kinds))}) reaching "
                                 f"textwrap is harmless because {dcls}.decode_quoted_string folds white space", ok=ok)
                if not ok:
                    res.add(Finding("W1", f"{c}.encode_assignment", f"{enc}: quoted text ({'/'.join(sorted(kinds))}) reaches textwrap",
                                    f"for {enc}, encode_assignment passes the encoded value to format()/textwrap.wrap "
                                    f"({'the branch for values that start with a quote is exempt, but ' if sanitised else ''}"
                                    "a set or sequence of quoted strings is not): a line break and indentation can be "
                                    f"inserted inside a quoted string, and {dcls}.decode_quoted_string keeps white space "
                                    "verbatim, so the string is altered on reload", where=f"pvl/encoder.py:{call.lineno}"))
            if "symbol" in which and repo.full_resolved(enc, "is_symbol")[1] is not None:
                ok = "IS_QUOTED" not in kinds
                res.oblige("W1-SYMBOL", f"{enc}.encode_assignment ({c}): a single-quoted symbol string cannot reach textwrap", ok=ok)
                if not ok:
                    # how long a symbol string can be (the language is_symbol() accepts, default options): the longer, the
                    # less nesting it takes to split one -- part of the finding's identity, so that a laxer bound is a
                    # different finding from the recorded one
                    bound = _max_symbol_length(repo, enc)
                    res.add(Finding("W1-SYMBOL", f"{c}.encode_assignment", f"{enc}: symbol string reaches textwrap (symbols up to {bound} characters)",
                                    f"for {enc}, a value that is itself a quoted symbol string goes through "
                                    "format()/textwrap.wrap; is_symbol() admits spaces and strings of up to "
                                    f"{bound} characters, so at sufficient nesting the "
                                    "symbol is split over two lines, which ODL forbids for symbol strings",
                                    where=f"pvl/encoder.py:{call.lineno}"))
        res.floor(f"{enc}: format() calls that receive the encoded value", len(tainted_calls), 1)


def _max_symbol_length(repo, enc):
    """length of the longest string <enc>.is_symbol() accepts with the constructor defaults ('unbounded' beyond 400)"""
    from . import lang, predeval as PE, strlang as SL
    try:
        p = lang.Pairing(repo, enc)
        T = PE.run(enc, "is_symbol", p.ctx)["T"] & p.alpha
    except PE.Unsupported as x:
        raise AnalysisError(f"W1-SYMBOL: is_symbol of {enc} cannot be evaluated: {x}")
    if T.empty():
        return 0
    lo, hi = 0, 400
    if not (T & SL.length_gt(hi)).empty():
        return "unbounded"
    while lo < hi:                       # smallest k with no accepted string longer than k
        mid = (lo + hi) // 2
        if (T & SL.length_gt(mid)).empty():
            hi = mid
        else:
            lo = mid + 1
    return lo


# ------------------------------------------------------------------ C12 surface rules
def _init_defaults(repo, cls):
    init = repo.classes[cls].methods.get("__init__")
    if init is None:
        return None, {}
    a = init.args
    names = [x.arg for x in a.args]
    d = {}
    for name, dv in zip(names[len(names) - len(a.defaults):], a.defaults):
        if isinstance(dv, ast.Constant):
            d[name] = dv.value
    return init, d


def _super_init_call(init):
    for n in ast.walk(init):
        if isinstance(n, ast.Call) and isinstance(n.func, ast.Attribute) and n.func.attr == "__init__" and \
                isinstance(n.func.value, ast.Call) and norm(n.func.value.func) == "super":
            return n
    return None


def rule_c12_config(repo, res):
    """Fixed PDS3 configuration and the dialect defaults of the other encoders."""
    want = {"PVLEncoder": {"end_delimiter": True, "newline": "\n"},
            "ODLEncoder": {"end_delimiter": False, "newline": "\r\n"},
            "ISISEncoder": {"end_delimiter": False, "newline": "\n"}}
    for cls, w in want.items():
        init, d = _init_defaults(repo, cls)
        if init is None:
            raise AnalysisError(f"anchor vanished: {cls}.__init__")
        for k, v in w.items():
            ok = d.get(k, "<missing>") == v
            res.oblige("CFG", f"{cls}(): default {k}={v!r}", ok=ok)
            if not ok:
                res.add(Finding("CFG", f"{cls}.__init__", f"default {k}",
                                f"{cls}() defaults to {k}={d.get(k, '<missing>')!r}; the dialect writes {k}={v!r} "
                                f"({'CR-LF line ends' if v == chr(13) + chr(10) else 'statement delimiters' if k == 'end_delimiter' else 'LF line ends'})",
                                where=f"pvl/encoder.py:{init.lineno}"))
        if cls != "PVLEncoder":
            call = _super_init_call(init)
            # the options are passed on to the base constructor in the base's positional order / by keyword
            base_init = repo.classes["PVLEncoder"].methods["__init__"]
            bparams = [a.arg for a in base_init.args.args][1:]
            passed = {}
            if call is not None:
                for p, a in zip(bparams, call.args):
                    passed[p] = norm(a)
                for kw in call.keywords:
                    if kw.arg:
                        passed[kw.arg] = norm(kw.value)
            for k in ("end_delimiter", "newline", "indent", "width", "aggregation_end"):
                ok = passed.get(k) == k
                res.oblige("CFG", f"{cls}.__init__ forwards {k} to the base constructor", ok=ok)
                if not ok:
                    res.add(Finding("CFG", f"{cls}.__init__", f"forwards {k}",
                                    f"{cls}.__init__ passes {passed.get(k)!r} as {k} to PVLEncoder.__init__: the option given "
                                    "by the caller (or the dialect default) does not take effect", where=f"pvl/encoder.py:{init.lineno}"))
    init, d = _init_defaults(repo, "PDSLabelEncoder")
    params = [a.arg for a in init.args.args]
    for k in ("newline", "end_delimiter"):
        ok = k not in params
        res.oblige("CFG", f"PDSLabelEncoder.__init__ does not expose {k}", ok=ok)
        if not ok:
            res.add(Finding("CFG", "PDSLabelEncoder.__init__", f"exposes {k}", f"PDSLabelEncoder lets the caller choose {k}; "
                            "PDS3 labels have CR-LF line ends and no statement delimiters", where=f"pvl/encoder.py:{init.lineno}"))
    call = _super_init_call(init)
    base_params = [a.arg for a in repo.classes["ODLEncoder"].methods["__init__"].args.args][1:]
    passed = {}
    if call is not None:
        for p, a in zip(base_params, call.args):
            passed[p] = a
        for kw in call.keywords:
            if kw.arg:
                passed[kw.arg] = kw.value
    for k, v in (("newline", "\r\n"), ("end_delimiter", False)):
        a = passed.get(k)
        ok = isinstance(a, ast.Constant) and a.value == v
        res.oblige("CFG", f"PDSLabelEncoder.__init__ passes {k}={v!r} to ODLEncoder.__init__", ok=ok)
        if not ok:
            res.add(Finding("CFG", "PDSLabelEncoder.__init__", f"passes {k}",
                            f"PDSLabelEncoder.__init__ passes {norm(a) if a is not None else 'nothing'} as {k}; PDS3 fixes it to {v!r}",
                            where=f"pvl/encoder.py:{init.lineno}"))
    for k, v in (("convert_group_to_object", True), ("tab_replace", 4), ("symbol_single_quote", True), ("time_trailing_z", True)):
        ok = d.get(k, "<missing>") == v
        res.oblige("CFG", f"PDSLabelEncoder(): default {k}={v!r}", ok=ok)
        if not ok:
            res.add(Finding("CFG", "PDSLabelEncoder.__init__", f"default {k}", f"PDSLabelEncoder() defaults to {k}={d.get(k, '<missing>')!r}",
                            where=f"pvl/encoder.py:{init.lineno}"))
        stored = any(isinstance(n, ast.Assign) and norm(n.targets[0]) == f"self.{k}" and norm(n.value) == k for n in ast.walk(init))
        res.oblige("CFG", f"PDSLabelEncoder.__init__ stores {k}", ok=stored)
        if not stored:
            res.add(Finding("CFG", "PDSLabelEncoder.__init__", f"stores {k}", f"self.{k} is not set from the {k} argument",
                            where=f"pvl/encoder.py:{init.lineno}"))
    # the base constructor stores the layout options
    binit = repo.classes["PVLEncoder"].methods["__init__"]
    for k in ("indent", "width", "end_delimiter", "aggregation_end", "newline"):
        stored = any(isinstance(n, ast.Assign) and norm(n.targets[0]) == f"self.{k}" and norm(n.value) == k for n in ast.walk(binit))
        res.oblige("CFG", f"PVLEncoder.__init__ stores {k}", ok=stored)
        if not stored:
            res.add(Finding("CFG", "PVLEncoder.__init__", f"stores {k}", f"self.{k} is not set from the {k} argument",
                            where=f"pvl/encoder.py:{binit.lineno}"))


def _guarded_by(node, fn, cond_src):
    """Is *node* control-dependent on a test that mentions *cond_src* positively (if-body or conditional
    expression body)?  The test may be richer than the bare attribute (`self.end_delimiter is True`, `a and b`)."""
    n = node
    while n is not None and n is not fn:
        p = getattr(n, "_parent", None)
        if isinstance(p, (ast.If, ast.IfExp)):
            t = norm(p.test)
            in_body = (n in p.body) if isinstance(p, ast.If) else (n is p.body)
            in_else = (n in p.orelse) if isinstance(p, ast.If) else (n is p.orelse)
            if cond_src in t and in_body and not t.startswith("not "):
                return True
            if t in (f"not {cond_src}", f"{cond_src} is False", f"{cond_src} == False") and in_else:
                return True
        n = p
    return False


def rule_c12_structure(repo, res):
    """Statement forms: delimiters only under end_delimiter; block keywords paired from one preferred-keyword tuple;
    END line; character sweep; PDS3 tab replacement; every line formatted at its nesting level."""
    n_delims = 0
    for cls in encoder_classes(repo):
        for m, fn in repo.classes[cls].methods.items():
            for n in ast.walk(fn):
                if isinstance(n, ast.Attribute) and norm(n) == "self.grammar.delimiters":
                    n_delims += 1
                    ok = _guarded_by(n, fn, "self.end_delimiter")
                    res.oblige("DELIM", f"{cls}.{m}: `{norm(getattr(n, '_parent', n), 50)}` is written only when self.end_delimiter", ok=ok)
                    if not ok:
                        res.add(Finding("DELIM", f"{cls}.{m}", norm(getattr(n, "_parent", n), 60),
                                        f"{cls}.{m} writes a statement delimiter outside `if self.end_delimiter:`: dialects "
                                        "without statement delimiters (ODL, PDS3, ISIS) get them", where=f"pvl/encoder.py:{n.lineno}"))
    res.floor("uses of grammar.delimiters in the encoders", n_delims, 1)
    # DELIM-ONLY: whether a statement gets its delimiter depends on end_delimiter alone -- a use of the delimiter that
    # also lies under another test (aggregation_end, the kind of value, ...) whose other arm writes none leaves some
    # statements of a delimiter-writing encoder without it
    for cls in encoder_classes(repo):
        for m, fn in repo.classes[cls].methods.items():
            for n in ast.walk(fn):
                if not (isinstance(n, ast.Attribute) and norm(n) == "self.grammar.delimiters"):
                    continue
                x = n
                extra = None
                while x is not None and x is not fn:
                    p = getattr(x, "_parent", None)
                    if isinstance(p, (ast.If, ast.IfExp)) and x is not p.test and "end_delimiter" not in norm(p.test):
                        other = (p.orelse if x in p.body else p.body) if isinstance(p, ast.If) else \
                            ([p.orelse] if x is p.body else [p.body])
                        writes = any(isinstance(y, ast.Attribute) and norm(y) == "self.grammar.delimiters"
                                     for st in other for y in ast.walk(st))
                        raises = bool(other) and all(isinstance(st, ast.Raise) for st in other[-1:]) if isinstance(p, ast.If) else False
                        if not writes and not raises:
                            extra = p
                            break
                    x = p
                res.oblige("DELIM-ONLY", f"{cls}.{m}: `{norm(getattr(n, '_parent', n), 50)}` depends on end_delimiter only", ok=extra is None)
                if extra is not None:
                    res.add(Finding("DELIM-ONLY", f"{cls}.{m}", f"delimiter under `{norm(extra.test, 50)}`",
                                    f"{cls}.{m} writes the statement delimiter only when `{norm(extra.test, 60)}` holds as well; on "
                                    "the other arm the statement ends without it although end_delimiter is set",
                                    where=f"pvl/encoder.py:{n.lineno}"))
    # block keywords
    fn = repo.full("PVLEncoder", "encode_aggregation_block")
    src = norm(fn, 8000)
    kv = None
    for n in ast.walk(fn):
        if isinstance(n, ast.If) and "isinstance(value, self.grpcls)" in norm(n.test):
            b = [x for x in n.body if isinstance(x, ast.Assign)]
            o = n.orelse[0] if n.orelse and isinstance(n.orelse[0], ast.If) else None
            ob = [x for x in (o.body if o else []) if isinstance(x, ast.Assign)]
            if b and ob and norm(b[0].targets[0]) == norm(ob[0].targets[0]):
                kv = (norm(b[0].targets[0]), norm(b[0].value), norm(ob[0].value))
    ok = kv is not None and kv[1] == "self.grammar.group_pref_keywords" and kv[2] == "self.grammar.object_pref_keywords"
    res.oblige("BLOCK", "encode_aggregation_block: group containers get group_pref_keywords, other mappings object_pref_keywords", ok=ok)
    if not ok:
        res.add(Finding("BLOCK", "PVLEncoder.encode_aggregation_block", "keyword selection",
                        f"encode_aggregation_block selects block keywords as {kv}: groups and objects are written with "
                        "the wrong (or mismatched) begin/end keywords", where=f"pvl/encoder.py:{fn.lineno}"))
    var = kv[0] if kv else "agg_keywords"

    def builds(n, idx, with_key):
        """a string-building expression (format call, f-string, concatenation) over keywords[idx] (and the key)"""
        if not isinstance(n, (ast.Assign, ast.AugAssign)):
            return False
        subs = {norm(x) for x in ast.walk(n.value)}
        has_kw = f"{var}[{idx}]" in subs
        has_key = "key" in subs
        other = f"{var}[{1 - idx}]" in subs
        return has_kw and not other and (has_key == with_key)
    begin_ok = any(builds(n, 0, True) for n in ast.walk(fn))
    end_named = any(builds(n, 1, True) and _guarded_by(n, fn, "self.aggregation_end") for n in ast.walk(fn))
    end_plain = any(builds(n, 1, False) and not _guarded_by(n, fn, "self.aggregation_end") for n in ast.walk(fn))
    for what, ok in (("begin statement '<begin keyword> = <name>' from keywords[0]", begin_ok),
                     ("end statement '<end keyword> = <name>' from keywords[1] when aggregation_end", end_named),
                     ("bare end keyword keywords[1] otherwise", end_plain)):
        res.oblige("BLOCK", f"encode_aggregation_block: {what}", ok=ok)
        if not ok:
            res.add(Finding("BLOCK", "PVLEncoder.encode_aggregation_block", what,
                            f"encode_aggregation_block no longer writes the {what}: a block is not closed by its matching "
                            "end statement (or carries the wrong name)", where=f"pvl/encoder.py:{fn.lineno}"))
    # every line of a block is formatted at its level; the body one level deeper
    fmt = [n for n in ast.walk(fn) if isinstance(n, ast.Call) and norm(n.func) == "self.format"]
    ok = len(fmt) >= 2 and all(len(c.args) == 2 and norm(c.args[1]) == "level" for c in fmt)
    body = any(isinstance(n, ast.Call) and norm(n.func) == "self.encode_module" and len(n.args) == 2 and norm(n.args[1]) == "level + 1"
               for n in ast.walk(fn))
    res.oblige("INDENT", "encode_aggregation_block: begin/end lines formatted at `level`, body encoded at `level + 1`", ok=ok and body)
    if not (ok and body):
        res.add(Finding("INDENT", "PVLEncoder.encode_aggregation_block", "levels",
                        "begin/end statements are no longer formatted at the block's level with the body one level deeper",
                        where=f"pvl/encoder.py:{fn.lineno}"))
    fm = repo.full("PVLEncoder", "encode_module")
    calls = {norm(n.func): [norm(a) for a in n.args] for n in ast.walk(fm) if isinstance(n, ast.Call) and norm(n.func).startswith("self.encode_")}
    ok = calls.get("self.encode_aggregation_block", [None] * 3)[2:3] == ["level"] and \
        calls.get("self.encode_assignment", [None] * 4)[2:4] == ["level", "longest_key_len"]
    res.oblige("INDENT", "encode_module: every item is encoded at `level`, assignments aligned on the longest non-block key", ok=ok)
    if not ok:
        res.add(Finding("INDENT", "PVLEncoder.encode_module", "levels/alignment", f"encode_module calls {calls}",
                        where=f"pvl/encoder.py:{fm.lineno}"))
    lk = [n for n in ast.walk(fm) if isinstance(n, ast.Assign) and norm(n.targets[0]) == "longest_key_len"]
    ok = bool(lk) and norm(lk[0].value).startswith("max(") and "default=0" in norm(lk[0].value)
    res.oblige("INDENT", "encode_module: alignment width = max(len(key) of non-block items, default=0)", ok=ok)
    if not ok:
        res.add(Finding("INDENT", "PVLEncoder.encode_module", "longest_key_len", "alignment width is no longer the longest non-block key",
                        where=f"pvl/encoder.py:{fm.lineno}"))
    ff = repo.full("PVLEncoder", "format")
    pre = [n for n in ast.walk(ff) if isinstance(n, ast.Assign) and norm(n.targets[0]) == "prefix"]
    ok = bool(pre) and norm(pre[0].value).replace(" ", "") in ("level*(self.indent*'')".replace(" ", ""), "level*self.indent*''",
                                                             "self.indent*level*''", "level*(self.indent*' ')".replace(" ", ""))
    srcp = norm(pre[0].value) if pre else ""
    ok = bool(pre) and "level" in srcp and "self.indent" in srcp and "' '" in srcp and srcp.count("*") == 2
    res.oblige("INDENT", "format: prefix = level * indent spaces", ok=ok)
    if not ok:
        res.add(Finding("INDENT", "PVLEncoder.format", "prefix", f"format() computes the indentation as `{srcp}`",
                        where=f"pvl/encoder.py:{ff.lineno}"))
    rets = [r for r in ast.walk(ff) if isinstance(r, ast.Return)]
    ok = any(norm(r.value) == "prefix + s" for r in rets) and any("self.newline.join(lines)" in norm(r.value) for r in rets)
    res.oblige("INDENT", "format: returns prefix + s, or the wrapped lines joined by self.newline", ok=ok)
    if not ok:
        res.add(Finding("INDENT", "PVLEncoder.format", "returns", "format() no longer returns prefix + s / newline-joined wrapped lines",
                        where=f"pvl/encoder.py:{ff.lineno}"))
    # encode(): END line, sweep
    fe = repo.full("PVLEncoder", "encode")
    # the text is <newline>.join(<lines>); the last of the lines derives from grammar.end_statements[0]
    from . import flow
    ok_end = False
    for st in fe.body:
        joins = [n for n in ast.walk(st) if isinstance(n, ast.Call) and isinstance(n.func, ast.Attribute) and n.func.attr == "join"
                 and norm(n.func.value) == "self.newline" and len(n.args) == 1]
        if not joins:
            continue
        elts = flow.list_elements(fe, joins[0].args[0], st)
        if elts:
            t, env = flow.taint_before(fe, st, lambda e: isinstance(e, ast.Subscript) and norm(e) == "self.grammar.end_statements[0]")
            ok_end = t.tainted(elts[-1], env) and not any(t.tainted(x, env) for x in elts[:-1])
        break
    res.oblige("END", "PVLEncoder.encode: the last line of the text derives from the END statement (grammar.end_statements[0])", ok=ok_end)
    if not ok_end:
        res.add(Finding("END", "PVLEncoder.encode", "END line", "encode() no longer ends the text with the grammar's END statement",
                        where=f"pvl/encoder.py:{fe.lineno}"))
    sweep = [n for n in fe.body if isinstance(n, ast.For)]
    ok = False
    if sweep:
        lp = sweep[-1]
        ok = any(isinstance(n, ast.Call) and norm(n.func) == "self.grammar.char_allowed" for n in ast.walk(lp)) and \
            any(isinstance(n, ast.Raise) for n in ast.walk(lp)) and isinstance(fe.body[-1], ast.Return) and fe.body.index(lp) < len(fe.body) - 1
        # the text swept is the text returned
        it = norm(lp.iter)
        swept = it[len("enumerate("):-1] if it.startswith("enumerate(") else it
        defs = [n for n in fe.body if isinstance(n, ast.Assign) and norm(n.targets[0]) == swept]
        # the text returned is the text swept: the same variable, or the same defining expression again
        ok = ok and bool(defs) and len(defs) == 1 and norm(fe.body[-1].value) in (swept, norm(defs[0].value))
    res.oblige("SWEEP", "PVLEncoder.encode: every character of the returned text passes grammar.char_allowed or ValueError is raised", ok=ok)
    if not ok:
        res.add(Finding("SWEEP", "PVLEncoder.encode", "character sweep",
                        "the final character-set sweep over the encoder output is missing, not on the path to the return, "
                        "does not use self.grammar.char_allowed, or sweeps a text other than the one returned",
                        where=f"pvl/encoder.py:{fe.lineno}"))
    nots = [n for n in ast.walk(fe) if isinstance(n, ast.If) and "char_allowed" in norm(n.test)]
    ok = bool(nots) and isinstance(nots[0].test, ast.UnaryOp) and isinstance(nots[0].test.op, ast.Not) and any(isinstance(b, ast.Raise) for b in nots[0].body)
    res.oblige("SWEEP", "PVLEncoder.encode raises when char_allowed is false (not the reverse)", ok=ok)
    if not ok:
        res.add(Finding("SWEEP", "PVLEncoder.encode", "polarity", "the sweep does not raise on `not char_allowed(c)`",
                        where=f"pvl/encoder.py:{fe.lineno}"))
    # ODL: final line end; PDS3: tab replacement
    fo = repo.full("ODLEncoder", "encode")
    rets = [r for r in ast.walk(fo) if isinstance(r, ast.Return)]
    sup = any(isinstance(n, ast.Call) and norm(n.func) == "super().encode" for n in ast.walk(fo))
    ok = sup and bool(rets) and all(norm(r.value).endswith("+ self.newline") for r in rets)
    res.oblige("END", "ODLEncoder.encode returns super().encode(module) + self.newline (END followed by a line end)", ok=ok)
    if not ok:
        res.add(Finding("END", "ODLEncoder.encode", "final line end", "ODLEncoder.encode no longer appends the final line end after END",
                        where=f"pvl/encoder.py:{fo.lineno}"))
    fp = repo.full("PDSLabelEncoder", "encode")
    rets = [r for r in fp.body[-1:] if isinstance(r, (ast.If, ast.Return))]
    tabs = [n for n in ast.walk(fp) if isinstance(n, ast.Call) and isinstance(n.func, ast.Attribute) and n.func.attr == "replace"
            and n.args and isinstance(n.args[0], ast.Constant) and n.args[0].value == "\t"]
    ok = bool(tabs) and _guarded_by(tabs[0], fp, "self.tab_replace > 0") and any(
        isinstance(n, ast.Assign) and norm(n.value) == "super().encode(module)" for n in ast.walk(fp))
    res.oblige("TAB", "PDSLabelEncoder.encode replaces tab characters in the text it returns (tab_replace > 0)", ok=ok)
    if not ok:
        res.add(Finding("TAB", "PDSLabelEncoder.encode", "tab replacement", "PDSLabelEncoder.encode no longer replaces tab "
                        "characters on its return path: PDS3 labels may not contain tabs", where=f"pvl/encoder.py:{fp.lineno}"))
    # ODL: units only after numbers; key upper-cased; guards dominate emission
    fv = repo.full("ODLEncoder", "encode_value")
    # path conditions: some raise is reached exactly under `not isinstance(getattr(value, <quantity>.value_prop), self.numeric_types)`
    def numeric_test(pol):
        return lambda t, p: isinstance(t, ast.Call) and norm(t.func) == "isinstance" and len(t.args) == 2 \
            and "value_prop" in norm(t.args[0]) and norm(t.args[1]) == "self.numeric_types" and p == pol
    sc_ = flow.stmts_with_conds(fv.body)

    def polarities(t, pol, out):
        """polarities under which the numeric test occurs inside condition *t* (True = asserted, False = negated)"""
        if isinstance(t, ast.UnaryOp) and isinstance(t.op, ast.Not):
            polarities(t.operand, not pol, out)
        elif isinstance(t, ast.BoolOp):
            for v in t.values:
                polarities(v, pol, out)
        elif isinstance(t, ast.Call) and norm(t.func) == "isinstance" and len(t.args) == 2 and "value_prop" in norm(t.args[0]) \
                and norm(t.args[1]) == "self.numeric_types":
            out.add(pol)
        return out

    def raise_pols(conds):
        out = set()
        for (t, p) in conds:
            if isinstance(t, ast.AST):
                polarities(t, p, out)
        return out
    strict = any(isinstance(st, ast.Raise) and flow.holds(c, numeric_test(False)) for st, c in sc_) and \
        not any(isinstance(st, ast.Raise) and flow.holds(c, numeric_test(True)) for st, c in sc_)
    # the same guard folded into a richer condition (`q is not None and not (isinstance(value, q.cls) and <numeric test>)`,
    # through a thin helper): the numeric test occurs negated in the condition of a raise, and in none asserted
    pols = [raise_pols(c) for st, c in sc_ if isinstance(st, ast.Raise)]
    ok = strict or (any(False in p_ for p_ in pols) and not any(p_ == {True} for p_ in pols))
    res.oblige("UNITS", "ODLEncoder.encode_value: a quantity is written only when its value is numeric, else ValueError", ok=ok)
    if not ok:
        res.add(Finding("UNITS", "ODLEncoder.encode_value", "numeric test", "ODLEncoder.encode_value no longer restricts units "
                        "expressions to numeric values", where=f"pvl/encoder.py:{fv.lineno}"))
    fa = repo.full("ODLEncoder", "encode_assignment")
    # taint: the text handed to self.format() derives from <key>.upper() and never from the key as given
    from . import flow
    kparam = fa.args.args[1].arg
    is_fmt = lambda c: norm(c.func) == "self.format"
    is_upper = lambda e: isinstance(e, ast.Call) and isinstance(e.func, ast.Attribute) and e.func.attr == "upper" and not e.args \
        and norm(e.func.value) == kparam
    def is_raw(e):
        if not (isinstance(e, ast.Name) and e.id == kparam and isinstance(e.ctx, ast.Load)):
            return False
        p = getattr(e, "_parent", None)
        return not (isinstance(p, ast.Attribute) and p.attr == "upper")
    used = bool(flow.sinks(fa, is_upper, is_fmt))
    raw = bool(flow.sinks(fa, is_raw, is_fmt))
    ok = used and not raw
    res.oblige("UPPER", "ODLEncoder.encode_assignment writes key.upper(), never the key as given", ok=ok)
    if not ok:
        res.add(Finding("UPPER", "ODLEncoder.encode_assignment", "key.upper()", "ODL/PDS3 parameter names are no longer upper-cased",
                        where=f"pvl/encoder.py:{fa.lineno}"))


def rule_level_forwarding(repo, res):
    """INDENT-LEVEL: a method that receives the nesting `level` forwards it (level or level + 1) to every callee
    that takes a `level` parameter -- otherwise the callee silently formats at its default level 0."""
    n = 0
    for cls in encoder_classes(repo):
        for m, fn in repo.classes[cls].methods.items():
            params = [a.arg for a in fn.args.args]
            if "level" not in params:
                continue
            for call in [x for x in ast.walk(fn) if isinstance(x, ast.Call) and isinstance(x.func, ast.Attribute)]:
                v = call.func.value
                if isinstance(v, ast.Name) and v.id == "self":
                    c2, callee = repo.full_resolved(cls, call.func.attr)
                elif isinstance(v, ast.Call) and norm(v.func) == "super":
                    c2, callee = repo.full_resolved(cls, call.func.attr, after=cls)
                else:
                    continue
                if callee is None:
                    continue
                cparams = [a.arg for a in callee.args.args][1:]
                if "level" not in cparams:
                    continue
                n += 1
                idx = cparams.index("level")
                arg = None
                if idx < len(call.args):
                    arg = call.args[idx]
                for kw in call.keywords:
                    if kw.arg == "level":
                        arg = kw.value
                ok = arg is not None and any(isinstance(x, ast.Name) and x.id == "level" for x in ast.walk(arg))
                res.oblige("INDENT-LEVEL", f"{cls}.{m}: `{norm(call, 60)}` passes the nesting level on", ok=ok)
                if not ok:
                    res.add(Finding("INDENT-LEVEL", f"{cls}.{m}", norm(call.func) + "(…) without level",
                                    f"{cls}.{m} receives the nesting level but calls `{norm(call, 70)}` without passing it "
                                    f"({'no level argument' if arg is None else 'level argument ' + norm(arg)}): {c2}.{callee.name} "
                                    "then formats at its default level 0, so statements of a nested block lose their indentation",
                                    where=f"pvl/encoder.py:{call.lineno}"))
    res.floor("calls that must forward the nesting level", n, 6)


def rule_align(repo, res):
    """ALIGN: every encode_assignment writes `<key>.ljust(key_len) + " = "` where key_len is the width handed down by
    encode_module (the longest non-block key of the siblings), so that sibling '=' signs line up."""
    for cls in encoder_classes(repo):
        fn = repo.classes[cls].methods.get("encode_assignment")
        if fn is None:
            continue
        params = [a.arg for a in fn.args.args]
        ok_param = "key_len" in params
        from .inline import inline_all
        fn = inline_all(repo, cls, fn, module="encoder")           # a thin helper that builds the start of the line is read in place
        lj = [n for n in ast.walk(fn) if isinstance(n, ast.Call) and isinstance(n.func, ast.Attribute) and n.func.attr == "ljust"]
        ok = ok_param and bool(lj) and all(len(n.args) == 1 and norm(n.args[0]) == "key_len" for n in lj)
        # the separator
        seps = [c.value for n in ast.walk(fn) for c in ast.walk(n) if isinstance(c, ast.Constant) and isinstance(c.value, str) and "=" in c.value]
        ok_sep = any(x in ("{} = ", " = ") for x in seps)
        # in an f-string the separator is the constant part that follows the padded key
        for js in [n for n in ast.walk(fn) if isinstance(n, ast.JoinedStr)]:
            vals = js.values
            for i, v in enumerate(vals[:-1]):
                if isinstance(v, ast.FormattedValue) and any(x in lj for x in ast.walk(v.value)) \
                        and isinstance(vals[i + 1], ast.Constant) and str(vals[i + 1].value).startswith(" = "):
                    ok_sep = True
        # default: when no width is given the key's own length
        dflt = any(isinstance(n, ast.If) and norm(n.test) == "key_len is None" and any(norm(b) == "key_len = len(key)" for b in n.body)
                   for n in ast.walk(fn))
        res.oblige("ALIGN", f"{cls}.encode_assignment pads the key with ljust(key_len) and writes ' = '", ok=ok and ok_sep and dflt)
        if not (ok and ok_sep and dflt):
            res.add(Finding("ALIGN", f"{cls}.encode_assignment", "key.ljust(key_len) + ' = '",
                            f"{cls}.encode_assignment no longer pads the parameter name to the width handed down by "
                            "encode_module (ljust(key_len)) before ' = ': sibling assignments lose their aligned '='",
                            where=f"pvl/encoder.py:{fn.lineno}"))


def rule_quote_free(repo, res):
    """QUOTE-FREE: a string is wrapped in a quote character that does not occur in it.  In the encode_string
    implementations every `return Q + value + Q` with a *constant* quote character Q is reached only where `Q not in value`
    is established: by an explicit test, or -- for the apostrophe -- by `self.is_symbol(value)` holding (is_symbol refuses
    text with an apostrophe; checked on its source).  The general path picks the first quote character of the grammar that
    is not in the text.  A fixed quote without that guarantee writes `"a 6" lens"`, which no reader takes for one string."""
    from . import flow
    n = 0
    for enc in encoder_classes(repo):
        ci = repo.classes[enc]
        fn = ci.methods.get("encode_string")
        if fn is None:
            continue
        pname = [a.arg for a in fn.args.args if a.arg != "self"][0]
        # does is_symbol (as resolved for this class) refuse an apostrophe?
        _, sym = repo.full_resolved(enc, "is_symbol")
        sym_excludes = set()
        if sym is not None:
            for c in ast.walk(sym):
                if isinstance(c, ast.Compare) and len(c.ops) == 1 and isinstance(c.ops[0], ast.In) and isinstance(c.left, ast.Constant) \
                        and isinstance(c.left.value, str) and len(c.left.value) == 1:
                    sym_excludes.add(c.left.value)
        for st, conds in flow.stmts_with_conds(fn.body):
            if not isinstance(st, ast.Return) or not isinstance(st.value, ast.BinOp):
                continue
            v = st.value
            if not (isinstance(v.op, ast.Add) and isinstance(v.left, ast.BinOp) and isinstance(v.left.op, ast.Add)
                    and isinstance(v.left.left, ast.Constant) and isinstance(v.right, ast.Constant)
                    and v.left.left.value == v.right.value and v.right.value in ("'", '"')):
                continue
            q = v.right.value
            n += 1
            ok = False
            for (t, pol) in conds:
                if not isinstance(t, ast.AST):
                    continue
                for c in ast.walk(t):
                    # `Q not in value` asserted, or `Q in value` negated
                    if isinstance(c, ast.Compare) and len(c.ops) == 1 and isinstance(c.left, ast.Constant) and c.left.value == q:
                        if (isinstance(c.ops[0], ast.NotIn) and pol) or (isinstance(c.ops[0], ast.In) and not pol):
                            ok = True
                    if isinstance(c, ast.Call) and norm(c.func) == "self.is_symbol" and pol and q in sym_excludes:
                        # is_symbol holds (asserted, possibly inside a conjunction)
                        ok = True
            res.oblige("QUOTE-FREE", f"{enc}.encode_string: `{norm(st, 40)}` is reached only where {q!r} does not occur in the text", ok=ok)
            if not ok:
                res.add(Finding("QUOTE-FREE", f"{enc}.encode_string", f"`{norm(st, 40)}` without `{q} not in {pname}`",
                                f"{enc}.encode_string wraps the text in {q!r} (`{norm(st, 50)}`) on a path where nothing establishes that "
                                f"{q!r} does not occur in it: a string with that quote character inside (6 inches written 6 + the inch sign) is written with an inner quote and no reader "
                                "takes the result for one string", where=f"pvl/encoder.py:{st.lineno}"))
    res.oblige("QUOTE-FREE", f"{n} fixed-quote returns of the encode_string implementations examined", ok=True, nontrivial=False)
