"""Canonical form of a function for the *shape* rules.

Shape rules ask "does this function compute X from Y", "is this raise guarded by a test on Z".
Written against the literal text they would fire on behaviour-preserving edits: a named
temporary (``zero = timedelta(); if off < zero``), a thin helper, an attribute assigned from a
local.  ``canon(repo, cls, fn)`` returns a copy of *fn* in which

  1. calls to thin helpers are replaced by the helper's return expression (``inline``), and
  2. every *use* of a single-assignment local, or of a ``self.<attr>`` assigned exactly once in
     the function, is replaced by the expression it was assigned (forward substitution, to a
     fixed point).  The assignments themselves stay where they are.

So ``start = firstpos(lexeme, pos); self.pos = start; lineno = linecount(doc, start)`` and
``self.pos = firstpos(lexeme, pos); lineno = linecount(doc, self.pos)`` both read
``lineno = linecount(doc, firstpos(lexeme, pos))``.

Only data flow that is certain is used: the name has one binding in the function (no
augmented assignment, loop target, ``with``/``except`` binding, ``global``), every use is
lexically after it, the binding is not inside a loop or a conditional the use is outside of,
and the names the bound expression reads are parameters or single-assignment names
themselves.  The engines that track state along paths (token protocol, string languages,
effects) do NOT use this form: substituting ``t = next(tokens)`` would duplicate an effect.
"""
import ast
import copy

from .inline import inlined, inline_all, clone, set_parents


def _parents(fn):
    par = {}
    for n in ast.walk(fn):
        for c in ast.iter_child_nodes(n):
            par[c] = n
    return par


def _key(t):
    """binding key of an assignment target: 'x' or 'self.x'"""
    if isinstance(t, ast.Name):
        return t.id
    if isinstance(t, ast.Attribute) and isinstance(t.value, ast.Name) and t.value.id == "self":
        return "self." + t.attr
    return None


def _enclosing(par, n, fn, kinds):
    out = []
    p = par.get(n)
    while p is not None and p is not fn:
        if isinstance(p, kinds):
            out.append(p)
        p = par.get(p)
    return out


def _single_bindings(fn):
    """key -> (Assign node, value) for names / self attributes bound exactly once by a plain assignment"""
    par = _parents(fn)
    count = {}
    where = {}
    params = {a.arg for a in fn.args.posonlyargs + fn.args.args + fn.args.kwonlyargs}
    if fn.args.vararg:
        params.add(fn.args.vararg.arg)
    if fn.args.kwarg:
        params.add(fn.args.kwarg.arg)

    def bump(k, node=None, value=None):
        if k is None:
            return
        count[k] = count.get(k, 0) + 1
        where[k] = (node, value)

    for n in ast.walk(fn):
        if n is fn:
            continue
        if isinstance(n, (ast.FunctionDef, ast.AsyncFunctionDef, ast.Lambda, ast.ClassDef)):
            if hasattr(n, "name"):
                bump(n.name)
                bump(n.name)
            continue
        if isinstance(n, ast.Assign):
            for t in n.targets:
                if isinstance(t, (ast.Tuple, ast.List)):
                    for el in ast.walk(t):
                        k = _key(el) if isinstance(el, (ast.Name, ast.Attribute)) else None
                        if k:
                            bump(k); bump(k)
                else:
                    k = _key(t)
                    if len(n.targets) == 1:
                        bump(k, n, n.value)
                    else:
                        bump(k); bump(k)
        elif isinstance(n, (ast.AugAssign, ast.AnnAssign)):
            k = _key(n.target)
            bump(k); bump(k)
        elif isinstance(n, (ast.For, ast.AsyncFor, ast.comprehension)):
            for el in ast.walk(n.target):
                k = _key(el) if isinstance(el, (ast.Name, ast.Attribute)) else None
                if k:
                    bump(k); bump(k)
        elif isinstance(n, (ast.With, ast.AsyncWith)):
            for it in n.items:
                if it.optional_vars is not None:
                    for el in ast.walk(it.optional_vars):
                        k = _key(el) if isinstance(el, (ast.Name, ast.Attribute)) else None
                        if k:
                            bump(k); bump(k)
        elif isinstance(n, ast.ExceptHandler) and n.name:
            bump(n.name); bump(n.name)
        elif isinstance(n, ast.NamedExpr):
            bump(_key(n.target)); bump(_key(n.target))
        elif isinstance(n, (ast.Global, ast.Nonlocal)):
            for nm in n.names:
                bump(nm); bump(nm)
        elif isinstance(n, ast.Delete):
            for t in n.targets:
                bump(_key(t)); bump(_key(t))
        elif isinstance(n, (ast.Import, ast.ImportFrom)):
            for a in n.names:
                bump((a.asname or a.name).split(".")[0]); bump((a.asname or a.name).split(".")[0])
    out = {}
    for k, c in count.items():
        if c != 1 or k in params:
            continue
        node, value = where[k]
        if node is None:
            continue
        # not inside a loop (the binding would be redone per iteration with other operands)
        if _enclosing(par, node, fn, (ast.For, ast.While, ast.AsyncFor)):
            continue
        out[k] = (node, value)
    return out, params, count, par, where


def _reads(e):
    """names and self attributes read by expression e"""
    out = set()
    for n in ast.walk(e):
        if isinstance(n, ast.Name) and isinstance(n.ctx, ast.Load):
            out.add(n.id)
        if isinstance(n, ast.Attribute) and isinstance(n.ctx, ast.Load) and isinstance(n.value, ast.Name) and n.value.id == "self":
            out.add("self." + n.attr)
    return out


def _relocated(tree, at):
    tree = clone(tree)
    for n in ast.walk(tree):
        if hasattr(n, "lineno") or isinstance(n, (ast.expr, ast.stmt)):
            n.lineno, n.col_offset = at.lineno, at.col_offset
            n.end_lineno, n.end_col_offset = getattr(at, "end_lineno", at.lineno), getattr(at, "end_col_offset", at.col_offset)
    return tree


def _number(tree):
    """source order of the tree as it stands (statements of inlined helpers keep the line numbers of the place they
    came from, so positions cannot order them): pre-order index and the largest index inside each node"""
    counter = [0]

    def visit(n):
        counter[0] += 1
        n._ord = counter[0]
        for ch in ast.iter_child_nodes(n):
            visit(ch)
        n._ord_end = counter[0]
    visit(tree)


# calls that consume or change something: an expression that contains one is evaluated where it stands, once
_IMPURE = {"next", "send", "throw", "pop", "popitem", "popall", "read", "readline", "readlines", "write", "append", "extend",
           "insert", "remove", "clear", "update", "setdefault", "add", "discard", "seek", "close"}


def _impure(value):
    for x in ast.walk(value):
        if isinstance(x, ast.Call):
            nm = x.func.attr if isinstance(x.func, ast.Attribute) else getattr(x.func, "id", "")
            if nm in _IMPURE:
                return True
    return False


def forward_substitute(fn, keep=()):
    new = clone(fn)
    for _ in range(6):
        _number(new)
        binds, params, count, par, where = _single_bindings(new)
        # a binding is usable when everything it reads is never rebound in the function
        usable = {}
        # a local whose object is changed in place (x.pop(..) / x.append(..) as a statement, x[k] = .., del x[k], x += ..)
        # is not the value of its defining expression any more
        mutated = set()
        for n_ in ast.walk(new):
            if isinstance(n_, ast.Expr) and isinstance(n_.value, ast.Call) and isinstance(n_.value.func, ast.Attribute) \
                    and isinstance(n_.value.func.value, ast.Name) and n_.value.func.attr in _IMPURE:
                mutated.add(n_.value.func.value.id)
            if isinstance(n_, (ast.Assign, ast.AugAssign, ast.Delete)):
                for t_ in (n_.targets if not isinstance(n_, ast.AugAssign) else [n_.target]):
                    if isinstance(t_, ast.Subscript) and isinstance(t_.value, ast.Name):
                        mutated.add(t_.value.id)
        for k, (node, value) in binds.items():
            if k in keep or k in mutated:
                continue
            if any(isinstance(x, (ast.Yield, ast.YieldFrom, ast.Await, ast.NamedExpr, ast.Lambda)) for x in ast.walk(value)):
                continue
            if _impure(value):
                continue
            ok = True
            for r in _reads(value):
                if r == "self" or r == k:
                    ok = ok and r != k
                    continue
                if r in params and count.get(r, 0) == 0:
                    continue
                if count.get(r, 0) == 0:
                    continue            # global / builtin / unassigned attribute
                if r in binds:
                    continue            # bound once, before (checked by position below)
                if count.get(r, 0) == 1 and where.get(r, (None, None))[0] is not None \
                        and where[r][0]._ord_end < node._ord:
                    continue            # bound once (inside a loop or branch) by a statement that ends before this binding
                ok = False
            if ok:
                usable[k] = (node, value)
        if not usable:
            break
        changed = False

        def dominated(use, node):
            """the binding statement precedes the use and every conditional block around the binding also encloses the use"""
            if getattr(use, "_ord", 0) <= node._ord_end:
                return False
            blocks = _enclosing(par, node, new, (ast.If, ast.Try, ast.With, ast.ExceptHandler, ast.Match if hasattr(ast, "Match") else ast.If))
            if not blocks:
                return True
            use_blocks = set(map(id, _enclosing(par, use, new, (ast.If, ast.Try, ast.With, ast.ExceptHandler))))
            if not all(id(b) in use_blocks for b in blocks):
                return False
            # same arm of the innermost conditional
            b = blocks[0]
            if isinstance(b, ast.If):
                def arm(x):
                    p = x
                    while par.get(p) is not b:
                        p = par.get(p)
                        if p is None:
                            return None
                    return "body" if p in b.body else ("orelse" if p in b.orelse else "test")
                return arm(use) == arm(node)
            return True

        class Sub(ast.NodeTransformer):
            def visit_FunctionDef(self, n):
                return n if n is not new else self.generic_visit(n)

            def visit_Lambda(self, n):
                return n

            def visit_Name(self, n):
                nonlocal changed
                if isinstance(n.ctx, ast.Load) and n.id in usable and dominated(n, usable[n.id][0]):
                    changed = True
                    return _relocated(usable[n.id][1], n)
                return n

            def visit_Attribute(self, n):
                nonlocal changed
                k = _key(n)
                if isinstance(n.ctx, ast.Load) and k in usable and k.startswith("self.") and dominated(n, usable[k][0]):
                    changed = True
                    return _relocated(usable[k][1], n)
                return self.generic_visit(n)

        new = Sub().visit(new)
        ast.fix_missing_locations(new)
        if not changed:
            break
    return new


_CACHE = {}


def canon(repo, cls, fn, module=None, keep=(), public=False):
    key = (id(repo), cls, id(fn), module, tuple(keep), public)
    if key not in _CACHE:
        new = forward_substitute(inline_all(repo, cls, fn, module=module, public=public), keep=keep)
        set_parents(new, getattr(fn, "_parent", None))
        _CACHE[key] = new
    return _CACHE[key]


def canon_method(repo, cls, name, keep=(), public=False):
    """canonical form of method *name* as defined in class *cls* (anchor check included)"""
    fn = repo.method(cls, name)
    return canon(repo, cls, fn, module=repo.classes[cls].module.name, keep=keep, public=public)


def canon_function(repo, module, name, keep=()):
    return canon(repo, None, repo.function(module, name), module=module, keep=keep)
