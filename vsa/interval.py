"""Integer-interval interpreter for ``char_allowed`` (DESIGN 2.8).

Decides, for all 1,114,112 code points at once, the set a grammar class
accepts -- from the AST of the method (through the MRO), never calling it.
"""
import ast

from .core import AnalysisError, norm

MAXCP = 0x10FFFF


class ISet:
    """Set of integers in [0, MAXCP] as sorted disjoint inclusive intervals."""

    def __init__(self, ivs=()):
        ivs = sorted((max(0, a), min(MAXCP, b)) for a, b in ivs if a <= b and b >= 0 and a <= MAXCP)
        out = []
        for a, b in ivs:
            if out and a <= out[-1][1] + 1:
                out[-1] = (out[-1][0], max(out[-1][1], b))
            else:
                out.append((a, b))
        self.ivs = tuple(out)

    @staticmethod
    def all():
        return ISet([(0, MAXCP)])

    def __or__(self, o):
        return ISet(self.ivs + o.ivs)

    def __invert__(self):
        out, cur = [], 0
        for a, b in self.ivs:
            if a > cur:
                out.append((cur, a - 1))
            cur = b + 1
        if cur <= MAXCP:
            out.append((cur, MAXCP))
        return ISet(out)

    def __and__(self, o):
        return ~((~self) | (~o))

    def __sub__(self, o):
        return self & ~o

    def __eq__(self, o):
        return self.ivs == o.ivs

    def __hash__(self):
        return hash(self.ivs)

    def __bool__(self):
        return bool(self.ivs)

    def count(self):
        return sum(b - a + 1 for a, b in self.ivs)

    def sample(self):
        return self.ivs[0][0] if self.ivs else None

    def __repr__(self):
        return " ∪ ".join(f"[{a},{b}]" if a != b else f"[{a}]" for a, b in self.ivs) or "∅"


class Unsupported(Exception):
    pass


class CharAllowed:
    def __init__(self, repo, cname):
        self.repo, self.cname = repo, cname
        self.visited = []

    def accepted(self):
        defcls, fn = self.repo.resolve_method(self.cname, "char_allowed")
        if fn is None:
            raise AnalysisError(f"anchor vanished: {self.cname}.char_allowed")
        try:
            t, f, e = self.run_fn(defcls, fn, ISet.all())
        except Unsupported as u:
            raise AnalysisError(f"char_allowed of {self.cname}: unsupported construct {u}")
        return t, f, e

    def run_fn(self, defcls, fn, reach):
        self.visited.append(f"{defcls}.char_allowed")
        params = [a.arg for a in fn.args.args]
        if len(params) < 2:
            raise Unsupported("signature")
        self.charvar = params[1]
        env = {}
        T = F = E = ISet()
        reach, T, F, E = self.block(fn.body, reach, env, defcls, T, F, E)
        # falling off the end returns None (falsy)
        F = F | reach
        return T, F, E

    def block(self, stmts, reach, env, defcls, T, F, E):
        for s in stmts:
            if not reach:
                break
            if isinstance(s, ast.Expr):
                if isinstance(s.value, ast.Constant):
                    continue
                if self.is_super_call(s.value):
                    # result discarded; may raise for the same precondition only
                    continue
                mx = self.is_encode_ascii(s.value)
                if mx is not None:
                    E = E | (reach - ISet([(0, mx)]))   # raises UnicodeError
                    reach = reach & ISet([(0, mx)])
                    continue
                raise Unsupported(norm(s))
            if isinstance(s, ast.Assign) and len(s.targets) == 1 and isinstance(s.targets[0], ast.Name):
                v = s.value
                if isinstance(v, ast.Call) and isinstance(v.func, ast.Name) and v.func.id == "ord" and \
                        isinstance(v.args[0], ast.Name) and v.args[0].id == self.charvar:
                    env[s.targets[0].id] = "ORD"
                    continue
                try:
                    env[s.targets[0].id] = self.cond(v, env, defcls)      # a named boolean over the code point
                    continue
                except Unsupported:
                    pass
                raise Unsupported(norm(s))
            if isinstance(s, ast.If):
                c = self.cond(s.test, env, defcls)
                r1, T, F, E = self.block(s.body, reach & c, dict(env), defcls, T, F, E)
                r2, T, F, E = self.block(s.orelse, reach - c, dict(env), defcls, T, F, E)
                reach = r1 | r2
                continue
            if isinstance(s, ast.Return):
                if s.value is None:
                    F = F | reach
                else:
                    c = self.cond(s.value, env, defcls)
                    T = T | (reach & c)
                    F = F | (reach - c)
                reach = ISet()
                continue
            if isinstance(s, ast.Raise):
                E = E | reach
                reach = ISet()
                continue
            if isinstance(s, ast.Try):
                bT, bF, bE = ISet(), ISet(), ISet()
                r, bT, bF, bE = self.block(s.body, reach, dict(env), defcls, bT, bF, bE)
                T, F = T | bT, F | bF
                if s.orelse:
                    # the else clause runs where the body completed without raising; what it raises is not caught here
                    r, T, F, E = self.block(s.orelse, r, dict(env), defcls, T, F, E)
                caught = ISet()
                for h in s.handlers:
                    names = norm(h.type) if h.type is not None else "BaseException"
                    if any(x in names for x in ("UnicodeError", "UnicodeEncodeError", "ValueError", "Exception", "BaseException")):
                        caught = bE
                        r2, T, F, E = self.block(h.body, bE, dict(env), defcls, T, F, E)
                        r = r | r2
                        break
                E = E | (bE - caught)
                reach = r
                continue
            if isinstance(s, ast.Pass):
                continue
            raise Unsupported(norm(s))
        return reach, T, F, E

    def is_super_call(self, e):
        return isinstance(e, ast.Call) and isinstance(e.func, ast.Attribute) and e.func.attr == "char_allowed" and \
            isinstance(e.func.value, ast.Call) and isinstance(e.func.value.func, ast.Name) and e.func.value.func.id == "super"

    CODEC_MAX = {"ascii": 127, "us_ascii": 127, "latin_1": 255, "latin1": 255, "iso_8859_1": 255, "iso8859_1": 255,
                 "l1": 255, "utf_8": MAXCP, "utf8": MAXCP, "utf_16": MAXCP, "utf_32": MAXCP}

    def is_encode_ascii(self, e):
        """char.encode(<codec>): returns the largest code point the codec can encode, or None."""
        if isinstance(e, ast.Call) and isinstance(e.func, ast.Attribute) and e.func.attr == "encode" and \
                isinstance(e.func.value, ast.Name) and e.func.value.id == self.charvar:
            args = [a for a in e.args] + [k.value for k in e.keywords if k.arg == "encoding"]
            if not args:
                return MAXCP
            if len(args) == 1 and isinstance(args[0], ast.Constant):
                return self.CODEC_MAX.get(str(args[0].value).lower().replace("-", "_"))
        return None

    def num(self, e, env):
        """-> ('ORD', k) for ord(char)+k or ('C', n)"""
        if isinstance(e, ast.Constant) and isinstance(e.value, int) and not isinstance(e.value, bool):
            return ("C", e.value)
        if isinstance(e, ast.Name) and env.get(e.id) == "ORD":
            return ("ORD", 0)
        if isinstance(e, ast.Call) and isinstance(e.func, ast.Name) and e.func.id == "ord" and \
                isinstance(e.args[0], ast.Name) and e.args[0].id == self.charvar:
            return ("ORD", 0)
        if isinstance(e, ast.UnaryOp) and isinstance(e.op, ast.USub):
            k, v = self.num(e.operand, env)
            if k == "C":
                return ("C", -v)
        raise Unsupported(norm(e))

    def cmp(self, a, op, b):
        """set of ord values satisfying a op b where exactly one side is ORD"""
        if a[0] == "C" and b[0] == "C":
            ok = {ast.Lt: a[1] < b[1], ast.LtE: a[1] <= b[1], ast.Gt: a[1] > b[1], ast.GtE: a[1] >= b[1],
                  ast.Eq: a[1] == b[1], ast.NotEq: a[1] != b[1]}[type(op)]
            return ISet.all() if ok else ISet()
        if a[0] == "ORD" and b[0] == "ORD":
            ok = isinstance(op, (ast.LtE, ast.GtE, ast.Eq))
            return ISet.all() if ok else ISet()
        if a[0] == "C":   # c op o  ==  o op' c
            flip = {ast.Lt: ast.Gt, ast.LtE: ast.GtE, ast.Gt: ast.Lt, ast.GtE: ast.LtE, ast.Eq: ast.Eq, ast.NotEq: ast.NotEq}
            return self.cmp(b, flip[type(op)](), a)
        c = b[1]
        t = type(op)
        if t is ast.Lt:
            return ISet([(0, c - 1)])
        if t is ast.LtE:
            return ISet([(0, c)])
        if t is ast.Gt:
            return ISet([(c + 1, MAXCP)])
        if t is ast.GtE:
            return ISet([(c, MAXCP)])
        if t is ast.Eq:
            return ISet([(c, c)])
        if t is ast.NotEq:
            return ~ISet([(c, c)])
        raise Unsupported("operator")

    def cond(self, e, env, defcls):
        if isinstance(e, ast.Constant) and isinstance(e.value, bool):
            return ISet.all() if e.value else ISet()
        if isinstance(e, ast.Name) and isinstance(env.get(e.id), ISet):
            return env[e.id]
        if isinstance(e, ast.IfExp):
            c = self.cond(e.test, env, defcls)
            return (c & self.cond(e.body, env, defcls)) | (~c & self.cond(e.orelse, env, defcls))
        if isinstance(e, ast.BoolOp):
            parts = [self.cond(v, env, defcls) for v in e.values]
            r = parts[0]
            for p in parts[1:]:
                r = (r & p) if isinstance(e.op, ast.And) else (r | p)
            return r
        if isinstance(e, ast.UnaryOp) and isinstance(e.op, ast.Not):
            return ~self.cond(e.operand, env, defcls)
        if isinstance(e, ast.Compare):
            # precondition: a single character
            if isinstance(e.left, ast.Call) and isinstance(e.left.func, ast.Name) and e.left.func.id == "len" and len(e.ops) == 1 \
                    and isinstance(e.comparators[0], ast.Constant) and e.comparators[0].value == 1:
                if isinstance(e.ops[0], ast.NotEq):
                    return ISet()
                if isinstance(e.ops[0], ast.Eq):
                    return ISet.all()
            r = ISet.all()
            left = e.left
            for op, right in zip(e.ops, e.comparators):
                if isinstance(op, (ast.In, ast.NotIn)):
                    s = self.member(left, right, env)
                    r = r & (s if isinstance(op, ast.In) else ~s)
                else:
                    r = r & self.cmp(self.num(left, env), op, self.num(right, env))
                left = right
            return r
        if isinstance(e, ast.Call) and isinstance(e.func, ast.Name) and e.func.id in ("any", "all") and len(e.args) == 1 \
                and isinstance(e.args[0], (ast.GeneratorExp, ast.ListComp)) and len(e.args[0].generators) == 1 \
                and (isinstance(e.args[0].generators[0].target, ast.Name)
                     or (isinstance(e.args[0].generators[0].target, ast.Tuple)
                         and all(isinstance(x, ast.Name) for x in e.args[0].generators[0].target.elts))):
            # any(<cond over r> for r in TABLE): unrolled over a literal table (a display, a class attribute of the
            # grammar's MRO, a module constant)
            g = e.args[0]
            gen = g.generators[0]
            table = self.literal_table(gen.iter, defcls)
            if table is None:
                raise Unsupported(norm(e))
            from .inline import _Sub, clone
            r = ISet() if e.func.id == "any" else ISet.all()
            for item in table:
                if isinstance(gen.target, ast.Name):
                    binding = {gen.target.id: item}
                else:
                    # for low, high in TABLE: each row is a display of as many elements
                    if not (isinstance(item, (ast.Tuple, ast.List)) and len(item.elts) == len(gen.target.elts)):
                        raise Unsupported(norm(e))
                    binding = {t_.id: x_ for t_, x_ in zip(gen.target.elts, item.elts)}
                body = _Sub(binding).visit(clone(g.elt))
                c = self.cond(body, env, defcls)
                for test in gen.ifs:
                    t_ = self.cond(_Sub(binding).visit(clone(test)), env, defcls)
                    c = (c & t_) if e.func.id == "any" else (c | ~t_)
                r = (r | c) if e.func.id == "any" else (r & c)
            return r
        if self.is_super_call(e):
            after = defcls
            c, fn = self.repo.resolve_method(self.cname, "char_allowed", after=after)
            if fn is None:
                raise Unsupported("super().char_allowed has no target")
            sub = CharAllowed(self.repo, self.cname)
            t, f, ex = sub.run_fn(c, fn, ISet.all())
            self.visited += sub.visited
            return t
        if isinstance(e, ast.Call) and isinstance(e.func, ast.Attribute) and isinstance(e.func.value, ast.Name) \
                and e.func.value.id == self.charvar and not e.args:
            if e.func.attr == "isascii":
                return ISet([(0, 127)])
        raise Unsupported(norm(e))

    def literal_table(self, it, defcls):
        """element expressions of a table given as a display, self.<class attribute>, <Class>.<attribute> or a
        module-level constant of grammar.py"""
        if isinstance(it, (ast.Tuple, ast.List, ast.Set)):
            return list(it.elts)
        val = None
        if isinstance(it, ast.Attribute) and isinstance(it.value, ast.Name):
            owner = self.cname if it.value.id in ("self", "cls") else (it.value.id if it.value.id in self.repo.classes else None)
            if owner:
                r_ = self.repo.resolve_attr(owner, it.attr)
                if r_ is not None and r_[1] == "alias":
                    val = r_[2]
        elif isinstance(it, ast.Name):
            val = self.repo.module_constant("grammar", it.id)
        if isinstance(val, (ast.Tuple, ast.List, ast.Set)):
            return list(val.elts)
        return None

    def member(self, left, right, env):
        n = self.num(left, env)
        if n[0] != "ORD":
            raise Unsupported("membership of a constant")
        if isinstance(right, ast.Call) and isinstance(right.func, ast.Name) and right.func.id == "range":
            args = [self.num(a, env) for a in right.args]
            if not all(a[0] == "C" for a in args) or len(args) > 2:
                raise Unsupported(norm(right))
            lo, hi = (0, args[0][1]) if len(args) == 1 else (args[0][1], args[1][1])
            return ISet([(lo, hi - 1)])
        if isinstance(right, (ast.Tuple, ast.List, ast.Set)):
            vals = [self.num(x, env) for x in right.elts]
            if not all(a[0] == "C" for a in vals):
                raise Unsupported(norm(right))
            return ISet([(v[1], v[1]) for v in vals])
        raise Unsupported(norm(right))


# The sets of the specifications, as given in the statement of property C15.
EXPECTED = {
    "PVLGrammar": ISet([(9, 13), (32, 126), (160, 255)]),
    "ISISGrammar": ISet([(9, 13), (32, 126), (160, 255)]),
    "ODLGrammar": ISet([(0, 127)]),
    "PDSGrammar": ISet([(0, 127)]),
    "OmniGrammar": ISet.all(),
}
